import DepLogic.Properties.C07Atom
/-
  C07, paren-free marker text — for EVERY sequence of atoms joined by ` and ` / ` or ` (what the library writes for
  a conjunction of atoms, a disjunction of atoms and a disjunction of conjunctions of atoms: no parentheses), the model
  of packaging's parser reads the characters back as exactly the atoms' triples and the joiners, in order: `seq_text`.
-/
namespace DepLogic
namespace C07
open Quote MText M

def opText (isAnd : Bool) : List Char := if isAnd then [' ', 'a', 'n', 'd', ' '] else [' ', 'o', 'r', ' ']
def opItem (isAnd : Bool) : PItem := if isAnd then .and_ else .or_

def tailText (tl : List (Bool × Atom)) : List Char := tl.flatMap fun p => opText p.1 ++ atomStrL p.2
def tailItems (tl : List (Bool × Atom)) : List PItem := tl.flatMap fun p => [opItem p.1, atomItem p.2]

/-- the text of `a0 op1 a1 op2 a2 ...` -/
def seqText (a0 : Atom) (tl : List (Bool × Atom)) : List Char := atomStrL a0 ++ tailText tl
def seqItems (a0 : Atom) (tl : List (Bool × Atom)) : List PItem := atomItem a0 :: tailItems tl

theorem tailText_head (tl : List (Bool × Atom)) : ∀ c ∈ (tailText tl).head?, isVarChar c = false := by
  cases tl with
  | nil => simp [tailText]
  | cons p ps =>
    intro c hc
    have : (tailText (p :: ps)).head? = some ' ' := by
      simp only [tailText, List.flatMap_cons, opText]
      cases p.1 <;> simp
    rw [this] at hc
    simp only [Option.mem_def, Option.some.injEq] at hc
    subst hc
    decide

/-- the rendered atom starts with a name character or a quote: not a blank, not a parenthesis -/
theorem atomStrL_head (a : Atom) (hn : a.name.toList ∈ canonNames) :
    ∃ c t, atomStrL a = c :: t ∧ isWs c = false ∧ c ≠ '(' := by
  have hok := canon_ok _ hn
  unfold atomStrL
  by_cases hrev : a.reversed = true
  · obtain ⟨q, body, hshape, hq, _, _⟩ := quote_shape a.value.toList
    simp only [hrev, if_true, hshape]
    refine ⟨q, _, rfl, ?_, ?_⟩ <;> rcases hq with rfl | rfl <;> decide
  · have hrev' : a.reversed = false := by simpa using hrev
    simp only [hrev', Bool.false_eq_true, if_false]
    unfold nameOk at hok
    cases hl : a.name.toList with
    | nil => rw [hl] at hok; simp at hok
    | cons c r =>
      rw [hl] at hok
      simp only [Bool.and_eq_true, Bool.not_eq_true', bne_iff_ne, ne_eq] at hok
      refine ⟨c, _, rfl, hok.1.1.1.1.1, ?_⟩
      intro e
      have hv := hok.1.1.2
      rw [List.all_eq_true] at hv
      have := hv c (by simp)
      rw [e] at this
      revert this; decide

theorem readMAtom_atom (f : Nat) (a : Atom) (rest : List Char) (hn : a.name.toList ∈ canonNames)
    (hrest : ∀ c ∈ rest.head?, isVarChar c = false) :
    readMAtom (f + 1) (atomStrL a ++ rest) = some (atomItem a, skipWs rest) ∧
    readMAtom (f + 1) (' ' :: (atomStrL a ++ rest)) = some (atomItem a, skipWs rest) := by
  obtain ⟨c, t, hct, hws, hpar⟩ := atomStrL_head a hn
  have h1 : skipWs (atomStrL a ++ rest) = atomStrL a ++ rest := by
    rw [hct]; exact skipWs_cons _ _ hws
  have h2 : skipWs (' ' :: (atomStrL a ++ rest)) = atomStrL a ++ rest := by rw [skipWs_space, h1]
  have key : ∀ s, skipWs s = atomStrL a ++ rest → readMAtom (f + 1) s = some (atomItem a, skipWs rest) := by
    intro s hs
    unfold readMAtom
    rw [hs, hct]
    simp only [List.cons_append]
    split
    · rename_i r heq
      simp only [List.cons.injEq] at heq
      exact absurd heq.1 hpar
    · have := atom_text a rest hn hrest
      rw [hct] at this
      simpa using this
  exact ⟨key _ h1, key _ h2⟩

theorem skipWs_opText (b : Bool) (r : List Char) :
    skipWs (opText b ++ r) = (if b then ['a', 'n', 'd'] else ['o', 'r']) ++ ' ' :: r := by
  cases b <;> simp [opText, skipWs, List.dropWhile, isWs]

theorem readBoolOp_op (b : Bool) (r : List Char) :
    readBoolOp ((if b then ['a', 'n', 'd'] else ['o', 'r']) ++ ' ' :: r) = some (opItem b, ' ' :: r) := by
  cases b <;> simp [readBoolOp, opItem, isWord]

/-- the BOOLOP loop over the rest of a paren-free sequence -/
theorem readMore_seq : ∀ (tl : List (Bool × Atom)) (f : Nat) (acc : List PItem),
    (∀ p ∈ tl, p.2.name.toList ∈ canonNames) → tl.length < f →
    readMore f acc (skipWs (tailText tl)) = some (acc.reverse ++ tailItems tl, []) := by
  intro tl
  induction tl with
  | nil =>
    intro f acc _ hf
    cases f with
    | zero => omega
    | succ f => simp [tailText, tailItems, skipWs, readMore, readBoolOp]
  | cons p ps ih =>
    intro f acc hn hf
    cases f with
    | zero => omega
    | succ f =>
      have hp := hn p (by simp)
      have hps : ∀ q ∈ ps, q.2.name.toList ∈ canonNames := fun q hq => hn q (by simp [hq])
      have htext : tailText (p :: ps) = opText p.1 ++ (atomStrL p.2 ++ tailText ps) := by
        simp [tailText, List.flatMap_cons, List.append_assoc]
      cases f with
      | zero => simp at hf
      | succ f =>
        rw [htext, skipWs_opText]
        unfold readMore
        rw [readBoolOp_op]
        simp only
        rw [(readMAtom_atom f p.2 (tailText ps) hp (tailText_head ps)).2]
        simp only
        rw [ih (f + 1) (atomItem p.2 :: opItem p.1 :: acc) hps (by simp at hf; omega)]
        simp [tailItems, List.flatMap_cons]

/-- **paren-free marker text**: every sequence of atoms over the environment-variable names joined by ` and ` / ` or `
    is read back, character by character, as the atoms' own triples and the joiners in order -/
theorem seq_text (a0 : Atom) (tl : List (Bool × Atom)) (h0 : a0.name.toList ∈ canonNames)
    (hn : ∀ p ∈ tl, p.2.name.toList ∈ canonNames) :
    readFullMarker (seqText a0 tl) = some (seqItems a0 tl) := by
  unfold readFullMarker seqText seqItems
  have hlen : tl.length + 2 ≤ 2 * (atomStrL a0 ++ tailText tl).length + 2 := by
    have : tl.length ≤ (tailText tl).length := by
      induction tl with
      | nil => simp
      | cons p ps ih =>
        have := ih (fun q hq => hn q (by simp [hq]))
        simp only [tailText, List.flatMap_cons, List.length_append, List.length_cons] at this ⊢
        have : 1 ≤ (opText p.1).length := by cases p.1 <;> simp [opText]
        omega
    simp only [List.length_append]
    omega
  obtain ⟨k, hk⟩ : ∃ k, 2 * (atomStrL a0 ++ tailText tl).length + 2 = k + 2 ∧ tl.length ≤ k := ⟨_, rfl, by omega⟩
  rw [hk.1]
  unfold readMarker
  rw [(readMAtom_atom k a0 (tailText tl) h0 (tailText_head tl)).1]
  simp only
  rw [readMore_seq tl (k + 1) [atomItem a0] hn (by omega)]
  simp

/-- what the statement covers, on concrete markers: a conjunction of atoms and a DNF -/
example : seqText ⟨"os_name", .eq, "nt", false, .gen ⟨.eq, "nt"⟩⟩ [(true, ⟨"sys_platform", .ne, "x", false, .gen ⟨.ne, "x"⟩⟩)] =
    "os_name == \"nt\" and sys_platform != \"x\"".toList := by decide

/-! ### the same for the model's `M.str` / `M.items` of a conjunction / disjunction of atoms -/

theorem intercalate_flat (sep : List Char) : ∀ (x : List Char) (xs : List (List Char)),
    sep.intercalate (x :: xs) = x ++ xs.flatMap (fun y => sep ++ y) := by
  intro x xs
  induction xs generalizing x with
  | nil => simp [List.intercalate]
  | cons y ys ih =>
    have : sep.intercalate (x :: y :: ys) = x ++ sep ++ sep.intercalate (y :: ys) := by
      simp [List.intercalate, List.intersperse]
    rw [this, ih y]
    simp [List.flatMap_cons, List.append_assoc]

theorem strMultiChildren_atoms : ∀ (l : List Atom), strMultiChildren (l.map .expr) = l.map Atom.str := by
  intro l
  induction l with
  | nil => simp [strMultiChildren]
  | cons a as ih => simp [strMultiChildren, M.str, ih]

theorem strList_atoms : ∀ (l : List Atom), strList (l.map .expr) = l.map Atom.str := by
  intro l
  induction l with
  | nil => simp [strList]
  | cons a as ih => simp [strList, M.str, ih]

theorem itemsMultiChildren_atoms : ∀ (l : List Atom), itemsMultiChildren (l.map .expr) = l.map fun a => [atomItem a] := by
  intro l
  induction l with
  | nil => simp [itemsMultiChildren]
  | cons a as ih => simp [itemsMultiChildren, M.items, ih]

theorem itemsList_atoms : ∀ (l : List Atom), itemsList (l.map .expr) = l.map fun a => [atomItem a] := by
  intro l
  induction l with
  | nil => simp [itemsList]
  | cons a as ih => simp [itemsList, M.items, ih]

theorem joinItems_atoms (sep : PItem) (a0 : Atom) : ∀ (as : List Atom),
    joinItems sep ((a0 :: as).map fun a => [atomItem a]) = atomItem a0 :: as.flatMap fun a => [sep, atomItem a] := by
  intro as
  induction as generalizing a0 with
  | nil => simp [joinItems]
  | cons b bs ih =>
    have := ih b
    simp only [List.map_cons] at this ⊢
    simp [joinItems, this, List.flatMap_cons]

/-- the text the model's `__str__` writes for a conjunction (`isAnd`) or disjunction of atoms is that sequence, and
    the token list `items` claims for it is what packaging's parser reads from the characters -/
theorem junction_text (isAnd : Bool) (a0 : Atom) (as : List Atom)
    (hn : ∀ a ∈ a0 :: as, a.name.toList ∈ canonNames) :
    let m : M := if isAnd then .multi ((a0 :: as).map .expr) else .union ((a0 :: as).map .expr)
    readFullMarker m.str.toList = some m.items := by
  intro m
  have hseq := seq_text a0 (as.map fun a => (isAnd, a)) (hn a0 (by simp))
    (by intro p hp; obtain ⟨a, ha, rfl⟩ := List.mem_map.1 hp; exact hn a (by simp [ha]))
  have htext : m.str.toList = seqText a0 (as.map fun a => (isAnd, a)) := by
    cases isAnd
    · show (M.str (.union ((a0 :: as).map .expr))).toList = _
      rw [M.str, strList_atoms, String.toList_intercalate, List.map_map]
      simp only [List.map_cons]
      rw [intercalate_flat]
      simp only [seqText, tailText, Function.comp, atomStr_toList, List.flatMap_map, opText]
      rfl
    · show (M.str (.multi ((a0 :: as).map .expr))).toList = _
      rw [M.str, strMultiChildren_atoms, String.toList_intercalate, List.map_map]
      simp only [List.map_cons]
      rw [intercalate_flat]
      simp only [seqText, tailText, Function.comp, atomStr_toList, List.flatMap_map, opText]
      rfl
  have hitems : m.items = seqItems a0 (as.map fun a => (isAnd, a)) := by
    cases isAnd
    · show M.items (.union ((a0 :: as).map .expr)) = _
      rw [M.items, itemsList_atoms, joinItems_atoms]
      simp [seqItems, tailItems, List.flatMap_map, opItem]
    · show M.items (.multi ((a0 :: as).map .expr)) = _
      rw [M.items, itemsMultiChildren_atoms, joinItems_atoms]
      simp [seqItems, tailItems, List.flatMap_map, opItem]
  rw [htext, hitems, hseq]

end C07
end DepLogic
