import DepLogic.Properties.C15
/-
  C15 — end to end for flat texts: what `_build_markers` returns for the token list of
  `a1 and a2 and … and an` (resp. `a1 or … or an`) is in normal form, for every fuel ≥ 7.
-/
namespace DepLogic
namespace C15
open M

/-- `FlatNF true` operands are closed under `& atom` -/
theorem and_flatNF (f : Nat) (g m : M) (hg : FlatNF true g) (hm : m.isSingle = true) : FlatNF true (M.and (f + 6) g m) := by
  rcases hg with rfl | rfl | hg | ⟨l, rfl, _, _, hl⟩
  · simp only [M.and]; left; rfl
  · simp only [M.and]; right; right; left; exact hm
  · exact and_flat f g m (Or.inl hg) (Or.inl hm)
  · exact and_flat f _ m (Or.inr ⟨l, rfl, hl⟩) (Or.inl hm)

/-- the `for item in markers` loop of `_build_markers` -/
def bstep (fuel : Nat) (st : Option (List M)) (it : PItem) : Option (List M) :=
  match st with
  | none => none
  | some groups =>
    match it, groups with
    | .or_, gs => some (.any :: gs)
    | .and_, gs => some gs
    | it, g :: gs => (build fuel it).map fun m => M.and fuel g m :: gs
    | _, [] => none

theorem build_group (fuel : Nat) (items : List PItem) :
    build (fuel + 1) (.group items) = (items.foldl (bstep fuel) (some [.any])).map fun groups => unionOfList fuel groups.reverse := rfl

def IsAtom : PItem → Prop
  | .atom _ _ _ _ => True
  | _ => False

theorem build_atom_single (fuel : Nat) (it : PItem) (hi : IsAtom it) (m : M) (h : build fuel it = some m) : m.isSingle = true := by
  cases fuel with
  | zero => simp [build] at h
  | succ n =>
    cases it <;> simp [IsAtom] at hi
    simp only [build, Option.bind_eq_some_iff] at h
    obtain ⟨o, _, h⟩ := h
    split at h <;> (simp only [Option.map_eq_some_iff] at h; obtain ⟨a, _, rfl⟩ := h; rfl)

theorem bstep_atom (fuel : Nat) (g : M) (gs : List M) (it : PItem) (hi : IsAtom it) :
    bstep fuel (some (g :: gs)) it = (build fuel it).map fun m => M.and fuel g m :: gs := by
  cases it <;> simp [IsAtom] at hi
  rfl

/-- the head group after folding `a1 and a2 and … and an` into it stays `FlatNF true` -/
theorem fold_conj (f : Nat) : ∀ (as : List PItem) (g : M) (gs out : List M), (∀ a ∈ as, IsAtom a) → as ≠ [] → FlatNF true g →
    (joinItems .and_ (as.map fun a => [a])).foldl (bstep (f + 6)) (some (g :: gs)) = some out →
    ∃ g', out = g' :: gs ∧ FlatNF true g'
  | [], _, _, _, _, hne, _, _ => absurd rfl hne
  | [a], g, gs, out, ha, _, hg, h => by
    simp only [List.map_cons, List.map_nil, joinItems, List.foldl_cons, List.foldl_nil] at h
    rw [bstep_atom _ g gs a (ha a (List.mem_cons_self ..))] at h
    simp only [Option.map_eq_some_iff] at h
    obtain ⟨m, hm, rfl⟩ := h
    exact ⟨_, rfl, and_flatNF f g m hg (build_atom_single _ a (ha a (List.mem_cons_self ..)) m hm)⟩
  | a :: b :: rest, g, gs, out, ha, _, hg, h => by
    simp only [List.map_cons, joinItems, List.singleton_append, List.foldl_cons] at h
    rw [bstep_atom _ g gs a (ha a (List.mem_cons_self ..))] at h
    cases hb : build (f + 6) a with
    | none => 
      rw [hb] at h
      simp only [Option.map_none] at h
      have : ∀ l : List PItem, l.foldl (bstep (f + 6)) none = none := by
        intro l; induction l with
        | nil => rfl
        | cons _ _ ih => simpa [bstep] using ih
      simp only [bstep] at h
      rw [this] at h; cases h
    | some m =>
      rw [hb] at h
      simp only [Option.map_some, bstep] at h
      have hm := build_atom_single _ a (ha a (List.mem_cons_self ..)) m hb
      have := fold_conj f (b :: rest) (M.and (f + 6) g m) gs out (fun x hx => ha x (List.mem_cons_of_mem _ hx)) (by simp)
        (and_flatNF f g m hg hm)
      simp only [List.map_cons] at this
      exact this h

/-- **parse of a flat conjunction is in normal form**: `_build_markers` on the token list of
    `a1 and a2 and … and an` returns Empty, Any, one single marker, or a conjunction of >= 2 different
    single markers (every fuel ≥ 7) -/
theorem build_flat_conj (f : Nat) (as : List PItem) (ha : ∀ a ∈ as, IsAtom a) (hne : as ≠ []) (r : M)
    (h : build (f + 7) (.group (joinItems .and_ (as.map fun a => [a]))) = some r) : FlatNF true r := by
  rw [build_group] at h
  simp only [Option.map_eq_some_iff] at h
  obtain ⟨groups, hg, rfl⟩ := h
  obtain ⟨g', rfl, hg'⟩ := fold_conj f as .any [] groups ha hne (Or.inr (Or.inl rfl)) hg
  simp only [List.reverse_cons, List.reverse_nil, List.nil_append]
  rw [show f + 6 = (f + 3) + 3 from rfl, unionOfList_one (f + 3) g' (flatNF_notUnion g' hg')]
  exact hg'

/-- folding `a1 or a2 or … or an`: every `or` opens a new group, every atom lands in a fresh `AnyMarker` group,
    so the groups are the atoms themselves -/
theorem fold_disj (F : Nat) : ∀ (as : List PItem) (gs out : List M), (∀ a ∈ as, IsAtom a) → as ≠ [] → AllSingle gs →
    (joinItems .or_ (as.map fun a => [a])).foldl (bstep (F + 1)) (some (.any :: gs)) = some out → AllSingle out
  | [], _, _, _, hne, _, _ => absurd rfl hne
  | [a], gs, out, ha, _, hg, h => by
    simp only [List.map_cons, List.map_nil, joinItems, List.foldl_cons, List.foldl_nil] at h
    rw [bstep_atom _ .any gs a (ha a (List.mem_cons_self ..))] at h
    simp only [Option.map_eq_some_iff] at h
    obtain ⟨m, hm, rfl⟩ := h
    have hms := build_atom_single _ a (ha a (List.mem_cons_self ..)) m hm
    intro x hx
    simp only [List.mem_cons] at hx
    rcases hx with hx | hx
    · rw [hx, show M.and (F + 1) M.any m = m from by simp [M.and]]; exact hms
    · exact hg x hx
  | a :: b :: rest, gs, out, ha, _, hg, h => by
    simp only [List.map_cons, joinItems, List.singleton_append, List.foldl_cons] at h
    rw [bstep_atom _ .any gs a (ha a (List.mem_cons_self ..))] at h
    cases hb : build (F + 1) a with
    | none =>
      rw [hb] at h
      simp only [Option.map_none, bstep] at h
      have : ∀ l : List PItem, l.foldl (bstep (F + 1)) none = none := by
        intro l; induction l with
        | nil => rfl
        | cons _ _ ih => simpa [bstep] using ih
      rw [this] at h; cases h
    | some m =>
      rw [hb] at h
      simp only [Option.map_some, bstep, M.and] at h
      have hm := build_atom_single _ a (ha a (List.mem_cons_self ..)) m hb
      have := fold_disj F (b :: rest) (m :: gs) out (fun x hx => ha x (List.mem_cons_of_mem _ hx)) (by simp)
        (by intro x hx; simp only [List.mem_cons] at hx; rcases hx with rfl | hx; exact hm; exact hg x hx)
      simp only [List.map_cons] at this
      exact this h

/-- **parse of a flat disjunction is in normal form** (every fuel ≥ 3) -/
theorem build_flat_disj (f : Nat) (as : List PItem) (ha : ∀ a ∈ as, IsAtom a) (hne : as ≠ []) (r : M)
    (h : build (f + 3) (.group (joinItems .or_ (as.map fun a => [a]))) = some r) : FlatNF false r := by
  rw [build_group] at h
  simp only [Option.map_eq_some_iff] at h
  obtain ⟨groups, hg, rfl⟩ := h
  have hs := fold_disj (f + 1) as [] groups ha hne allSingle_nil hg
  apply unionOfList_flat
  intro x hx
  exact hs x (by simpa using hx)

end C15
end DepLogic
