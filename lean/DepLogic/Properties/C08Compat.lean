import DepLogic.Model.Tags
/-
  C08 / C09 — `EnvSpec.compatibility`: "max over python x abi combinations, then platform".

  `maxScore_spec`    : Python's tuple `max` over the evaluated combinations returns a score that is
                       attained by some combination and that no combination beats (lexicographically);
  `bestPlat_spec`    : the platform component is the score of some accepted platform tag and no accepted
                       tag has a larger one (the BEST tag, not the first: what seed C09g breaks);
  `compatibility_score` : both, for what `compatibility` returns;
  `compatibility_none`  : `None` exactly when no combination is loadable or no platform tag is accepted;
  `compatibility_perm`  : the verdict does not depend on the order in which a wheel lists its tags
                          (compressed tag sets are sets).
-/
namespace DepLogic
namespace C08

abbrev Sc := Nat × Nat × Nat

/-- strict lexicographic order of python scores, the comparison `maxScore` folds with -/
def lexLt (a x : Sc) : Bool :=
  a.1 < x.1 || (a.1 == x.1 && (a.2.1 < x.2.1 || (a.2.1 == x.2.1 && a.2.2 < x.2.2)))

theorem lexLt_irrefl (a : Sc) : lexLt a a = false := by simp [lexLt]

theorem lexLt_trans_le {a b c : Sc} (h1 : lexLt b a = false) (h2 : lexLt c b = false) : lexLt c a = false := by
  obtain ⟨a1, a2, a3⟩ := a; obtain ⟨b1, b2, b3⟩ := b; obtain ⟨c1, c2, c3⟩ := c
  simp only [lexLt, Bool.or_eq_false_iff, Bool.and_eq_false_iff, decide_eq_false_iff_not, beq_eq_false_iff_ne,
    ne_eq] at *
  omega

theorem lexLt_asymm {a b : Sc} (h : lexLt a b = true) : lexLt b a = false := by
  obtain ⟨a1, a2, a3⟩ := a; obtain ⟨b1, b2, b3⟩ := b
  simp only [lexLt, Bool.or_eq_true, Bool.and_eq_true, decide_eq_true_eq, beq_iff_eq, Bool.or_eq_false_iff,
    Bool.and_eq_false_iff, decide_eq_false_iff_not, beq_eq_false_iff_ne, ne_eq] at *
  omega

theorem lexLt_antisymm {a b : Sc} (h1 : lexLt a b = false) (h2 : lexLt b a = false) : a = b := by
  obtain ⟨a1, a2, a3⟩ := a; obtain ⟨b1, b2, b3⟩ := b
  simp only [lexLt, Bool.or_eq_false_iff, Bool.and_eq_false_iff, decide_eq_false_iff_not, beq_eq_false_iff_ne,
    ne_eq] at *
  have : a1 = b1 := by omega
  have : a2 = b2 := by omega
  have : a3 = b3 := by omega
  simp [*]

/-- one step of the fold in `maxScore` -/
def stepMax (acc : Option Sc) (x : Sc) : Option Sc :=
  match acc with
  | none => some x
  | some a => if lexLt a x then some x else some a

theorem maxScore_eq (l : List Sc) : maxScore l = l.foldl stepMax none := by
  unfold maxScore
  congr 1

theorem foldMax_spec : ∀ (l : List Sc) (acc : Sc),
    ∃ m, l.foldl stepMax (some acc) = some m ∧ (m = acc ∨ m ∈ l) ∧ lexLt m acc = false ∧ ∀ x ∈ l, lexLt m x = false := by
  intro l
  induction l with
  | nil => intro acc; exact ⟨acc, rfl, Or.inl rfl, lexLt_irrefl _, by simp⟩
  | cons y ys ih =>
    intro acc
    simp only [List.foldl_cons, stepMax]
    by_cases hlt : lexLt acc y = true
    · rw [if_pos hlt]
      obtain ⟨m, hm, hmem, hge, hall⟩ := ih y
      refine ⟨m, hm, ?_, ?_, ?_⟩
      · rcases hmem with h | h
        · exact Or.inr (by simp [h])
        · exact Or.inr (by simp [h])
      · exact lexLt_trans_le (lexLt_asymm hlt) hge
      · intro x hx
        rcases List.mem_cons.mp hx with h | h
        · subst h; exact hge
        · exact hall x h
    · have hlt' : lexLt acc y = false := by simpa using hlt
      rw [if_neg hlt]
      obtain ⟨m, hm, hmem, hge, hall⟩ := ih acc
      refine ⟨m, hm, ?_, hge, ?_⟩
      · rcases hmem with h | h
        · exact Or.inl h
        · exact Or.inr (by simp [h])
      · intro x hx
        rcases List.mem_cons.mp hx with h | h
        · subst h; exact lexLt_trans_le hlt' hge
        · exact hall x h

/-- Python's `max(..., default=None)` over score tuples -/
theorem maxScore_spec (l : List Sc) :
    (maxScore l = none ↔ l = []) ∧
    ∀ m, maxScore l = some m → m ∈ l ∧ ∀ x ∈ l, lexLt m x = false := by
  rw [maxScore_eq]
  cases l with
  | nil => simp
  | cons y ys =>
    simp only [List.foldl_cons, stepMax]
    obtain ⟨m, hm, hmem, hge, hall⟩ := foldMax_spec ys y
    rw [hm]
    refine ⟨by simp, ?_⟩
    intro m' hm'
    have : m = m' := by simpa using hm'
    subst this
    refine ⟨?_, ?_⟩
    · rcases hmem with h | h
      · simp [h]
      · simp [h]
    · intro x hx
      rcases List.mem_cons.mp hx with h | h
      · subst h; exact hge
      · exact hall x h

/-- the fold `compatibility` uses for the platform component -/
def stepBest (acc : Option Int) (x : Int) : Option Int :=
  match acc with
  | none => some x
  | some a => some (max a x)

def bestPlat (l : List Int) : Option Int := l.foldl stepBest none

theorem foldBest_spec : ∀ (l : List Int) (acc : Int),
    ∃ m, l.foldl stepBest (some acc) = some m ∧ (m = acc ∨ m ∈ l) ∧ acc ≤ m ∧ ∀ x ∈ l, x ≤ m := by
  intro l
  induction l with
  | nil => intro acc; exact ⟨acc, rfl, Or.inl rfl, Int.le_refl _, by simp⟩
  | cons y ys ih =>
    intro acc
    simp only [List.foldl_cons, stepBest]
    obtain ⟨m, hm, hmem, hge, hall⟩ := ih (max acc y)
    refine ⟨m, hm, ?_, by omega, ?_⟩
    · rcases hmem with h | h
      · by_cases hc : acc ≤ y
        · exact Or.inr (by simp [h, Int.max_eq_right hc])
        · exact Or.inl (by rw [h]; omega)
      · exact Or.inr (by simp [h])
    · intro x hx
      rcases List.mem_cons.mp hx with h | h
      · subst h; omega
      · exact hall x h

theorem bestPlat_spec (l : List Int) :
    (bestPlat l = none ↔ l = []) ∧ ∀ m, bestPlat l = some m → m ∈ l ∧ ∀ x ∈ l, x ≤ m := by
  unfold bestPlat
  cases l with
  | nil => simp
  | cons y ys =>
    simp only [List.foldl_cons, stepBest]
    obtain ⟨m, hm, hmem, hge, hall⟩ := foldBest_spec ys y
    rw [hm]
    refine ⟨by simp, ?_⟩
    intro m' hm'
    have : m = m' := by simpa using hm'
    subst this
    refine ⟨?_, ?_⟩
    · rcases hmem with h | h
      · simp [h]
      · simp [h]
    · intro x hx
      rcases List.mem_cons.mp hx with h | h
      · subst h; exact hge
      · exact hall x h

/-- the evaluated python x abi combinations of a wheel, in `compatibility`'s order -/
def pyScores (e : EnvSpec) (py abi : List String) : List Sc :=
  (py.flatMap fun p => abi.map fun a => (p, a)).filterMap fun pa => evaluatePython e pa.1 pa.2

/-- the scores of the accepted platform tags -/
def platScores (e : EnvSpec) (plat : List String) : List Int :=
  ((plat.map (evaluatePlatform e)).filterMap id).filterMap id

theorem compatibility_eq (e : EnvSpec) (py abi plat : List String) :
    compatibility e py abi plat =
      match maxScore (pyScores e py abi) with
      | none => .none
      | some ps =>
        if (plat.map (evaluatePlatform e)).any Option.isNone then .error
        else match bestPlat (platScores e plat) with
          | none => .none
          | some s => .score ps s := by
  unfold compatibility pyScores platScores bestPlat
  rfl

theorem mem_pyScores (e : EnvSpec) (py abi : List String) (s : Sc) :
    s ∈ pyScores e py abi ↔ ∃ p ∈ py, ∃ a ∈ abi, evaluatePython e p a = some s := by
  simp only [pyScores, List.mem_filterMap, List.mem_flatMap, List.mem_map]
  constructor
  · rintro ⟨⟨p, a⟩, ⟨p', hp', a', ha', heq⟩, h⟩
    simp only [Prod.mk.injEq] at heq
    obtain ⟨rfl, rfl⟩ := heq
    exact ⟨p', hp', a', ha', h⟩
  · rintro ⟨p, hp, a, ha, h⟩
    exact ⟨(p, a), ⟨p, hp, a, ha, rfl⟩, h⟩

theorem mem_platScores (e : EnvSpec) (plat : List String) (s : Int) :
    s ∈ platScores e plat ↔ ∃ t ∈ plat, evaluatePlatform e t = some (some s) := by
  simp only [platScores, List.mem_filterMap, List.mem_map, id]
  constructor
  · rintro ⟨a, ⟨b, ⟨t, ht, h1⟩, h2⟩, h3⟩
    subst h2 h3
    exact ⟨t, ht, h1⟩
  · rintro ⟨t, ht, h⟩
    exact ⟨some s, ⟨some (some s), ⟨t, ht, h⟩, rfl⟩, rfl⟩

/-- what a returned score says: the python part is the lexicographically BEST loadable
    python x abi combination, the platform part the BEST accepted platform tag -/
theorem compatibility_score (e : EnvSpec) (py abi plat : List String) (ps : Sc) (s : Int)
    (h : compatibility e py abi plat = .score ps s) :
    (∃ p ∈ py, ∃ a ∈ abi, evaluatePython e p a = some ps) ∧
    (∀ p ∈ py, ∀ a ∈ abi, ∀ sc, evaluatePython e p a = some sc → lexLt ps sc = false) ∧
    (∃ t ∈ plat, evaluatePlatform e t = some (some s)) ∧
    (∀ t ∈ plat, ∀ s', evaluatePlatform e t = some (some s') → s' ≤ s) := by
  rw [compatibility_eq] at h
  cases hm : maxScore (pyScores e py abi) with
  | none => rw [hm] at h; cases h
  | some m =>
    rw [hm] at h
    simp only at h
    by_cases herr : (plat.map (evaluatePlatform e)).any Option.isNone = true
    · rw [if_pos herr] at h; cases h
    · rw [if_neg herr] at h
      cases hb : bestPlat (platScores e plat) with
      | none => rw [hb] at h; cases h
      | some b =>
        rw [hb] at h
        simp only [Compat.score.injEq] at h
        obtain ⟨rfl, rfl⟩ := h
        obtain ⟨hmem, hall⟩ := (maxScore_spec _).2 m hm
        obtain ⟨hbm, hball⟩ := (bestPlat_spec _).2 b hb
        refine ⟨(mem_pyScores ..).mp hmem, ?_, (mem_platScores ..).mp hbm, ?_⟩
        · intro p hp a ha sc hsc
          exact hall sc ((mem_pyScores ..).mpr ⟨p, hp, a, ha, hsc⟩)
        · intro t ht s' hs'
          exact hball s' ((mem_platScores ..).mpr ⟨t, ht, hs'⟩)

/-- `None` exactly when nothing is loadable, or (no PlatformError and) no platform tag is accepted -/
theorem compatibility_none (e : EnvSpec) (py abi plat : List String) :
    compatibility e py abi plat = .none ↔
      (∀ p ∈ py, ∀ a ∈ abi, evaluatePython e p a = none) ∨
      ((∀ t ∈ plat, evaluatePlatform e t ≠ none) ∧ ∀ t ∈ plat, evaluatePlatform e t = some none) := by
  rw [compatibility_eq]
  have hpy : maxScore (pyScores e py abi) = none ↔ ∀ p ∈ py, ∀ a ∈ abi, evaluatePython e p a = none := by
    rw [(maxScore_spec _).1, List.eq_nil_iff_forall_not_mem]
    constructor
    · intro h p hp a ha
      cases hv : evaluatePython e p a with
      | none => rfl
      | some sc => exact absurd ((mem_pyScores ..).mpr ⟨p, hp, a, ha, hv⟩) (h sc)
    · intro h sc hsc
      obtain ⟨p, hp, a, ha, hv⟩ := (mem_pyScores ..).mp hsc
      rw [h p hp a ha] at hv; cases hv
  have hpl : bestPlat (platScores e plat) = none ↔ ∀ t ∈ plat, ∀ s, evaluatePlatform e t ≠ some (some s) := by
    rw [(bestPlat_spec _).1, List.eq_nil_iff_forall_not_mem]
    constructor
    · intro h t ht s hv
      exact h s ((mem_platScores ..).mpr ⟨t, ht, hv⟩)
    · intro h s hs
      obtain ⟨t, ht, hv⟩ := (mem_platScores ..).mp hs
      exact h t ht s hv
  have herr : (plat.map (evaluatePlatform e)).any Option.isNone = true ↔ ∃ t ∈ plat, evaluatePlatform e t = none := by
    simp only [List.any_map, List.any_eq_true, Function.comp, Option.isNone_iff_eq_none]
  cases hm : maxScore (pyScores e py abi) with
  | none => simp only [true_iff]; exact Or.inl (hpy.mp hm)
  | some m =>
    have hnot : ¬ ∀ p ∈ py, ∀ a ∈ abi, evaluatePython e p a = none := by
      intro hc; rw [hpy.mpr hc] at hm; cases hm
    simp only
    by_cases he : (plat.map (evaluatePlatform e)).any Option.isNone = true
    · rw [if_pos he]
      obtain ⟨t, ht, hv⟩ := herr.mp he
      constructor
      · intro h; cases h
      · rintro (h | ⟨h, _⟩)
        · exact absurd h hnot
        · exact absurd hv (h t ht)
    · rw [if_neg he]
      have hne : ∀ t ∈ plat, evaluatePlatform e t ≠ none := by
        intro t ht hv; exact he (herr.mpr ⟨t, ht, hv⟩)
      cases hb : bestPlat (platScores e plat) with
      | none =>
        simp only [true_iff]
        refine Or.inr ⟨hne, ?_⟩
        intro t ht
        cases hv : evaluatePlatform e t with
        | none => exact absurd hv (hne t ht)
        | some o =>
          cases o with
          | none => rfl
          | some s => exact absurd hv (hpl.mp hb t ht s)
      | some b =>
        constructor
        · intro h; cases h
        · rintro (h | ⟨_, h⟩)
          · exact absurd h hnot
          · have : bestPlat (platScores e plat) = none := hpl.mpr (by
              intro t ht s hv; rw [h t ht] at hv; cases hv)
            rw [this] at hb; cases hb

/-- the verdict depends on the SETS of tags only: listing a wheel's tags in another order (or
    repeating one) changes nothing -/
theorem compatibility_perm (e : EnvSpec) (py abi plat py' abi' plat' : List String)
    (hpy : ∀ x, x ∈ py ↔ x ∈ py') (habi : ∀ x, x ∈ abi ↔ x ∈ abi') (hplat : ∀ x, x ∈ plat ↔ x ∈ plat') :
    compatibility e py abi plat = compatibility e py' abi' plat' := by
  have hsc : ∀ s, s ∈ pyScores e py abi ↔ s ∈ pyScores e py' abi' := by
    intro s
    rw [mem_pyScores, mem_pyScores]
    constructor
    · rintro ⟨p, hp, a, ha, h⟩; exact ⟨p, (hpy p).mp hp, a, (habi a).mp ha, h⟩
    · rintro ⟨p, hp, a, ha, h⟩; exact ⟨p, (hpy p).mpr hp, a, (habi a).mpr ha, h⟩
  have hps : ∀ s, s ∈ platScores e plat ↔ s ∈ platScores e plat' := by
    intro s
    rw [mem_platScores, mem_platScores]
    constructor
    · rintro ⟨t, ht, h⟩; exact ⟨t, (hplat t).mp ht, h⟩
    · rintro ⟨t, ht, h⟩; exact ⟨t, (hplat t).mpr ht, h⟩
  have hmax : maxScore (pyScores e py abi) = maxScore (pyScores e py' abi') := by
    cases h1 : maxScore (pyScores e py abi) with
    | none =>
      have : pyScores e py abi = [] := (maxScore_spec _).1.mp h1
      have h2 : pyScores e py' abi' = [] := by
        rw [List.eq_nil_iff_forall_not_mem]; intro s hs
        have := (hsc s).mpr hs; simp_all
      exact ((maxScore_spec _).1.mpr h2).symm
    | some m =>
      obtain ⟨hmem, hall⟩ := (maxScore_spec _).2 m h1
      cases h2 : maxScore (pyScores e py' abi') with
      | none =>
        have : pyScores e py' abi' = [] := (maxScore_spec _).1.mp h2
        have := (hsc m).mp hmem; simp_all
      | some m' =>
        obtain ⟨hmem', hall'⟩ := (maxScore_spec _).2 m' h2
        have e1 := hall m' ((hsc m').mpr hmem')
        have e2 := hall' m ((hsc m).mp hmem)
        rw [lexLt_antisymm e1 e2]
  have hbest : bestPlat (platScores e plat) = bestPlat (platScores e plat') := by
    cases h1 : bestPlat (platScores e plat) with
    | none =>
      have : platScores e plat = [] := (bestPlat_spec _).1.mp h1
      have h2 : platScores e plat' = [] := by
        rw [List.eq_nil_iff_forall_not_mem]; intro s hs
        have := (hps s).mpr hs; simp_all
      exact ((bestPlat_spec _).1.mpr h2).symm
    | some m =>
      obtain ⟨hmem, hall⟩ := (bestPlat_spec _).2 m h1
      cases h2 : bestPlat (platScores e plat') with
      | none =>
        have : platScores e plat' = [] := (bestPlat_spec _).1.mp h2
        have := (hps m).mp hmem; simp_all
      | some m' =>
        obtain ⟨hmem', hall'⟩ := (bestPlat_spec _).2 m' h2
        have e1 := hall m' ((hps m').mpr hmem')
        have e2 := hall' m ((hps m).mp hmem)
        have : m = m' := by omega
        rw [this]
  have herr : (plat.map (evaluatePlatform e)).any Option.isNone = (plat'.map (evaluatePlatform e)).any Option.isNone := by
    rw [Bool.eq_iff_iff]
    simp only [List.any_map, List.any_eq_true, Function.comp]
    constructor
    · rintro ⟨t, ht, h⟩; exact ⟨t, (hplat t).mp ht, h⟩
    · rintro ⟨t, ht, h⟩; exact ⟨t, (hplat t).mpr ht, h⟩
  rw [compatibility_eq, compatibility_eq, hmax, hbest, herr]

/-! non-vacuity: the folds on concrete score lists (best, not first) -/
example : bestPlat [4, 2, 9, 3] = some 9 := by decide
example : maxScore [(3, 9, 0), (3, 10, 2), (3, 10, 1), (2, 20, 2)] = some (3, 10, 2) := by decide
example : maxScore [] = none ∧ bestPlat [] = none := by decide

end C08
end DepLogic
