import DepLogic.Properties.C07Nested
import DepLogic.Properties.C07
/-
  C07, the whole text level — every model marker with non-empty child lists (every marker in normal form is one) is a
  unit sequence: `toSeq`; its `__str__` is that sequence's text and its `items` that sequence's token list
  (`toSeq_spec`), hence `text_roundtrip`: the model of packaging's parser reads `str(m)`, character by character, as
  exactly `items m` — the list `C07.reparse_sound` starts from.
-/
namespace DepLogic
namespace C07
open Quote MText M

def TL.append : TL → TL → TL
  | .nil, t => t
  | .cons b u tl, t => .cons b u (tl.append t)

theorem TL.text_append : ∀ (a b : TL), (a.append b).text = a.text ++ b.text
  | .nil, b => by simp [TL.append, TL.text]
  | .cons o u tl, b => by simp [TL.append, TL.text, TL.text_append tl b, List.append_assoc]

theorem TL.items_append : ∀ (a b : TL), (a.append b).items = a.items ++ b.items
  | .nil, b => by simp [TL.append, TL.items]
  | .cons o u tl, b => by simp [TL.append, TL.items, TL.items_append tl b]

theorem TL.ok_append : ∀ (a b : TL), a.Ok → b.Ok → (a.append b).Ok
  | .nil, b, _, hb => by simpa [TL.append] using hb
  | .cons o u tl, b, ha, hb => by
    simp only [TL.append, TL.Ok] at ha ⊢
    exact ⟨ha.1, TL.ok_append tl b ha.2 hb⟩

/-- a non-empty unit sequence -/
abbrev Seq := U × TL

/-- `x op y` -/
def Seq.join (isAnd : Bool) (x y : Seq) : Seq := (x.1, x.2.append (.cons isAnd y.1 y.2))

def Seq.text (s : Seq) : List Char := s.1.text ++ s.2.text
def Seq.items (s : Seq) : List PItem := s.1.item :: s.2.items
def Seq.Ok (s : Seq) : Prop := s.1.Ok ∧ s.2.Ok

theorem Seq.text_join (b : Bool) (x y : Seq) : (Seq.join b x y).text = x.text ++ opText b ++ y.text := by
  simp [Seq.join, Seq.text, TL.text_append, TL.text, List.append_assoc]

theorem Seq.items_join (b : Bool) (x y : Seq) : (Seq.join b x y).items = x.items ++ opItem b :: y.items := by
  simp [Seq.join, Seq.items, TL.items_append, TL.items]

theorem Seq.ok_join (b : Bool) (x y : Seq) (hx : x.Ok) (hy : y.Ok) : (Seq.join b x y).Ok :=
  ⟨hx.1, TL.ok_append _ _ hx.2 ⟨hy.1, hy.2⟩⟩

/-- a sequence in parentheses, as one unit -/
def Seq.paren (s : Seq) : Seq := (.group s.1 s.2, .nil)

theorem Seq.text_paren (s : Seq) : s.paren.text = '(' :: (s.text ++ [')']) := by
  simp [Seq.paren, Seq.text, U.text, TL.text, List.append_assoc]

theorem Seq.items_paren (s : Seq) : s.paren.items = [.group s.items] := by
  simp [Seq.paren, Seq.items, U.item, TL.items]

/-- `name op "v"` atoms joined by one operator (the grouped markers) -/
def groupSeq (isAnd : Bool) (n : String) (op : MOp) : List String → Option Seq
  | [] => none
  | [v] => some (.atom ⟨n, op, v, false, .gen ⟨.eq, v⟩⟩, .nil)
  | v :: vs => (groupSeq isAnd n op vs).map fun r => Seq.join isAnd (.atom ⟨n, op, v, false, .gen ⟨.eq, v⟩⟩, .nil) r

mutual
/-- the unit sequence a marker is printed as; `none`: the empty / universal marker, or an empty child list -/
def toSeq : M → Option Seq
  | .any => none
  | .empty => none
  | .expr a => some (.atom a, .nil)
  | .eqU n vs => groupSeq false n .eq vs
  | .neM n vs => groupSeq true n .ne vs
  | .multi ms => multiSeq ms
  | .union ms => unionSeq ms
/-- children of a conjunction: atoms and conjunctions bare, everything else in parentheses -/
def multiSeq : List M → Option Seq
  | [] => none
  | m :: ms =>
    let x := match m with
      | .expr _ | .multi _ => toSeq m
      | _ => (toSeq m).map Seq.paren
    match ms with
    | [] => x
    | _ :: _ => x.bind fun a => (multiSeq ms).map fun b => Seq.join true a b
/-- children of a disjunction: all bare -/
def unionSeq : List M → Option Seq
  | [] => none
  | m :: ms =>
    match ms with
    | [] => toSeq m
    | _ :: _ => (toSeq m).bind fun a => (unionSeq ms).map fun b => Seq.join false a b
end

theorem intercalate_one (sep x : String) : (sep.intercalate [x]).toList = x.toList := by
  rw [String.toList_intercalate]; simp [List.intercalate]

theorem intercalate_two (sep x y : String) (ys : List String) :
    (sep.intercalate (x :: y :: ys)).toList = x.toList ++ sep.toList ++ (sep.intercalate (y :: ys)).toList := by
  rw [String.toList_intercalate, String.toList_intercalate]
  simp [List.intercalate, List.intersperse]

theorem joinItems_two (sep : PItem) (x y : List PItem) (ys : List (List PItem)) :
    joinItems sep (x :: y :: ys) = x ++ sep :: joinItems sep (y :: ys) := by
  simp [joinItems]

theorem andText : " and ".toList = opText true := by decide
theorem orText : " or ".toList = opText false := by decide

/-- the grouped markers: `n == "a" or n == "b" ...` / `n != "a" and n != "b" ...` -/
theorem groupSeq_spec (isAnd : Bool) (n : String) (op : MOp) (opS sepS : String)
    (hop : opS.toList = ' ' :: op.str.toList ++ [' ']) (hsep : sepS.toList = opText isAnd) :
    ∀ (vs : List String) (s : Seq), groupSeq isAnd n op vs = some s →
      (sepS.intercalate (vs.map fun v => n ++ opS ++ quoteS v)).toList = s.text ∧
      joinItems (opItem isAnd) (vs.map fun v => [.atom true n op.str v]) = s.items ∧
      (n.toList ∈ canonNames → s.Ok) := by
  have hatom : ∀ v, (n ++ opS ++ quoteS v).toList = atomStrL ⟨n, op, v, false, .gen ⟨.eq, v⟩⟩ := by
    intro v
    simp [atomStrL, quoteS, String.toList_append, hop, List.append_assoc]
  intro vs
  induction vs with
  | nil => intro s h; simp [groupSeq] at h
  | cons v vs ih =>
    intro s h
    cases vs with
    | nil =>
      simp only [groupSeq, Option.some.injEq] at h
      subst h
      refine ⟨?_, ?_, ?_⟩
      · simp only [List.map_cons, List.map_nil]
        rw [intercalate_one, hatom]; simp [Seq.text, U.text, TL.text]
      · simp [joinItems, Seq.items, U.item, TL.items, atomItem]
      · intro hn; exact ⟨hn, trivial⟩
    | cons w ws =>
      simp only [groupSeq] at h
      cases hr : groupSeq isAnd n op (w :: ws) with
      | none => simp [groupSeq, hr] at h
      | some r =>
        have hh : groupSeq isAnd n op (v :: w :: ws) = some (Seq.join isAnd (.atom ⟨n, op, v, false, .gen ⟨.eq, v⟩⟩, .nil) r) := by
          simp [groupSeq, hr]
        simp only [groupSeq] at hh
        rw [hh] at h
        simp only [Option.some.injEq] at h
        subst h
        obtain ⟨i1, i2, i3⟩ := ih r hr
        refine ⟨?_, ?_, ?_⟩
        · simp only [List.map_cons] at i1 ⊢
          rw [intercalate_two, i1, hatom, Seq.text_join, hsep]
          simp [Seq.text, U.text, TL.text]
        · simp only [List.map_cons] at i2 ⊢
          rw [joinItems_two, i2, Seq.items_join]
          simp [Seq.items, U.item, TL.items, atomItem]
        · intro hn
          exact Seq.ok_join _ _ _ ⟨hn, trivial⟩ (i3 hn)

/-- a child of a conjunction: atoms and conjunctions bare, everything else in parentheses -/
def childSeq (m : M) : Option Seq :=
  match m with
  | .expr _ | .multi _ => toSeq m
  | _ => (toSeq m).map Seq.paren
def childStr (m : M) : String :=
  match m with
  | .expr _ | .multi _ => m.str
  | _ => "(" ++ m.str ++ ")"
def childItems (m : M) : List PItem :=
  match m with
  | .expr _ | .multi _ => m.items
  | _ => [.group m.items]

theorem multiSeq_cons (m : M) (ms : List M) :
    multiSeq (m :: ms) = match ms with
      | [] => childSeq m
      | _ :: _ => (childSeq m).bind fun a => (multiSeq ms).map fun b => Seq.join true a b := by
  cases ms <;> cases m <;> simp [multiSeq, childSeq]

theorem strMultiChildren_cons (m : M) (ms : List M) : strMultiChildren (m :: ms) = childStr m :: strMultiChildren ms := by
  cases m <;> simp [strMultiChildren, childStr]

theorem itemsMultiChildren_cons (m : M) (ms : List M) :
    itemsMultiChildren (m :: ms) = childItems m :: itemsMultiChildren ms := by
  cases m <;> simp [itemsMultiChildren, childItems]

mutual
/-- every atom and group of the marker is over an environment-variable name -/
def NamesOk : M → Prop
  | .any => True
  | .empty => True
  | .expr a => a.name.toList ∈ canonNames
  | .eqU n _ => n.toList ∈ canonNames
  | .neM n _ => n.toList ∈ canonNames
  | .multi ms => NamesOkL ms
  | .union ms => NamesOkL ms
def NamesOkL : List M → Prop
  | [] => True
  | m :: ms => NamesOk m ∧ NamesOkL ms
end

theorem child_spec (m : M)
    (ih : ∀ s, toSeq m = some s → m.str.toList = s.text ∧ m.items = s.items ∧ (NamesOk m → s.Ok)) :
    ∀ x, childSeq m = some x → (childStr m).toList = x.text ∧ childItems m = x.items ∧ (NamesOk m → x.Ok) := by
  intro x hxm
  have paren : ∀ y, toSeq m = some y → x = y.paren →
      ("(" ++ m.str ++ ")").toList = x.text ∧ [PItem.group m.items] = x.items ∧ (NamesOk m → x.Ok) := by
    rintro y hy rfl
    obtain ⟨i1, i2, i3⟩ := ih y hy
    refine ⟨?_, ?_, fun hn => ⟨⟨(i3 hn).1, (i3 hn).2⟩, trivial⟩⟩
    · rw [Seq.text_paren, ← i1]; simp [String.toList_append]
    · rw [Seq.items_paren, i2]
  cases m with
  | expr a => exact ih x hxm
  | multi cs => exact ih x hxm
  | any => simp [childSeq, toSeq] at hxm
  | empty => simp [childSeq, toSeq] at hxm
  | eqU n vs =>
    simp only [childSeq, Option.map_eq_some_iff] at hxm
    obtain ⟨y, hy, rfl⟩ := hxm
    exact paren y hy rfl
  | neM n vs =>
    simp only [childSeq, Option.map_eq_some_iff] at hxm
    obtain ⟨y, hy, rfl⟩ := hxm
    exact paren y hy rfl
  | union cs =>
    simp only [childSeq, Option.map_eq_some_iff] at hxm
    obtain ⟨y, hy, rfl⟩ := hxm
    exact paren y hy rfl

mutual
theorem toSeq_spec : ∀ (m : M) (s : Seq), toSeq m = some s →
    m.str.toList = s.text ∧ m.items = s.items ∧ (NamesOk m → s.Ok)
  | .any, s, h => by simp [toSeq] at h
  | .empty, s, h => by simp [toSeq] at h
  | .expr a, s, h => by
    simp only [toSeq, Option.some.injEq] at h
    subst h
    refine ⟨?_, ?_, ?_⟩
    · simp [M.str, atomStr_toList, Seq.text, U.text, TL.text]
    · simp [M.items, Seq.items, U.item, TL.items]
    · intro hn; exact ⟨hn, trivial⟩
  | .eqU n vs, s, h => by
    simp only [toSeq] at h
    have := groupSeq_spec false n .eq " == " " or " (by decide) orText vs s h
    refine ⟨?_, ?_, this.2.2⟩
    · simpa [M.str] using this.1
    · simpa [M.items, opItem, MOp.str] using this.2.1
  | .neM n vs, s, h => by
    simp only [toSeq] at h
    have := groupSeq_spec true n .ne " != " " and " (by decide) andText vs s h
    refine ⟨?_, ?_, this.2.2⟩
    · simpa [M.str] using this.1
    · simpa [M.items, opItem, MOp.str] using this.2.1
  | .multi ms, s, h => by
    simp only [toSeq] at h
    have := multiSeq_spec ms s h
    exact ⟨by simpa [M.str] using this.1, by simpa [M.items] using this.2.1, by simpa [NamesOk] using this.2.2⟩
  | .union ms, s, h => by
    simp only [toSeq] at h
    have := unionSeq_spec ms s h
    exact ⟨by simpa [M.str] using this.1, by simpa [M.items] using this.2.1, by simpa [NamesOk] using this.2.2⟩
theorem multiSeq_spec : ∀ (ms : List M) (s : Seq), multiSeq ms = some s →
    (" and ".intercalate (strMultiChildren ms)).toList = s.text ∧
    joinItems .and_ (itemsMultiChildren ms) = s.items ∧ (NamesOkL ms → s.Ok)
  | [], s, h => by simp [multiSeq] at h
  | m :: ms, s, h => by
    have hx := child_spec m (toSeq_spec m)
    rw [multiSeq_cons] at h
    rw [strMultiChildren_cons, itemsMultiChildren_cons]
    cases ms with
    | nil =>
      simp only at h
      obtain ⟨j1, j2, j3⟩ := hx s h
      refine ⟨?_, ?_, ?_⟩
      · simp only [strMultiChildren]; rw [intercalate_one]; exact j1
      · simp only [itemsMultiChildren, joinItems]; exact j2
      · intro hn; exact j3 hn.1
    | cons m2 rest =>
      simp only [Option.bind_eq_some_iff, Option.map_eq_some_iff] at h
      obtain ⟨a, ha, b, hb, rfl⟩ := h
      obtain ⟨j1, j2, j3⟩ := hx a ha
      obtain ⟨k1, k2, k3⟩ := multiSeq_spec (m2 :: rest) b hb
      refine ⟨?_, ?_, ?_⟩
      · rw [strMultiChildren_cons] at k1 ⊢
        rw [intercalate_two, k1, j1, Seq.text_join, andText]
      · rw [itemsMultiChildren_cons] at k2 ⊢
        rw [joinItems_two, k2, j2, Seq.items_join]
        rfl
      · intro hn
        exact Seq.ok_join _ _ _ (j3 hn.1) (k3 hn.2)
theorem unionSeq_spec : ∀ (ms : List M) (s : Seq), unionSeq ms = some s →
    (" or ".intercalate (strList ms)).toList = s.text ∧
    joinItems .or_ (itemsList ms) = s.items ∧ (NamesOkL ms → s.Ok)
  | [], s, h => by simp [unionSeq] at h
  | m :: ms, s, h => by
    cases ms with
    | nil =>
      simp only [unionSeq] at h
      obtain ⟨j1, j2, j3⟩ := toSeq_spec m s h
      refine ⟨?_, ?_, ?_⟩
      · simp only [strList]; rw [intercalate_one]; exact j1
      · simp only [itemsList, joinItems]; exact j2
      · intro hn; exact j3 hn.1
    | cons m2 rest =>
      simp only [unionSeq] at h
      simp only [Option.bind_eq_some_iff, Option.map_eq_some_iff] at h
      obtain ⟨a, ha, b, hb, rfl⟩ := h
      obtain ⟨j1, j2, j3⟩ := toSeq_spec m a ha
      obtain ⟨k1, k2, k3⟩ := unionSeq_spec (m2 :: rest) b (by simpa [unionSeq] using hb)
      refine ⟨?_, ?_, ?_⟩
      · have e1 : strList (m :: m2 :: rest) = m.str :: m2.str :: strList rest := by simp [strList]
        have e2 : strList (m2 :: rest) = m2.str :: strList rest := by simp [strList]
        rw [e2] at k1
        rw [e1, intercalate_two, k1, j1, Seq.text_join, orText]
      · have e1 : itemsList (m :: m2 :: rest) = m.items :: m2.items :: itemsList rest := by simp [itemsList]
        have e2 : itemsList (m2 :: rest) = m2.items :: itemsList rest := by simp [itemsList]
        rw [e2] at k2
        rw [e1, joinItems_two, k2, j2, Seq.items_join]
        rfl
      · intro hn
        exact Seq.ok_join _ _ _ (j3 hn.1) (k3 hn.2)
end

/-- **the text level of C07, in full**: for every marker the library can print as a non-empty unit sequence (every
    marker in normal form) over the environment-variable names, with any values, the model of packaging's parser reads
    the characters of `str(m)` as exactly `items m` -/
theorem text_roundtrip (m : M) (s : Seq) (h : toSeq m = some s) (hn : NamesOk m) :
    readFullMarker m.str.toList = some m.items := by
  obtain ⟨h1, h2, h3⟩ := toSeq_spec m s h
  rw [h1, h2]
  exact nested_text s.1 s.2 (h3 hn).1 (h3 hn).2

theorem groupSeq_isSome (isAnd : Bool) (n : String) (op : MOp) : ∀ (vs : List String), vs ≠ [] →
    ∃ s, groupSeq isAnd n op vs = some s := by
  intro vs
  induction vs with
  | nil => intro h; exact absurd rfl h
  | cons v vs ih =>
    intro _
    cases vs with
    | nil => exact ⟨_, rfl⟩
    | cons w ws =>
      obtain ⟨r, hr⟩ := ih (by simp)
      exact ⟨Seq.join isAnd (.atom ⟨n, op, v, false, .gen ⟨.eq, v⟩⟩, .nil) r, by simp [groupSeq, hr]⟩

mutual
theorem toSeq_isSome : ∀ (m : M), Printable m → ∃ s, toSeq m = some s
  | .any, h => by simp [Printable] at h
  | .empty, h => by simp [Printable] at h
  | .expr a, _ => ⟨_, rfl⟩
  | .eqU n vs, h => by simpa [toSeq] using groupSeq_isSome false n .eq vs (by simpa [Printable] using h)
  | .neM n vs, h => by simpa [toSeq] using groupSeq_isSome true n .ne vs (by simpa [Printable] using h)
  | .multi ms, h => by
    simp only [Printable] at h
    simpa [toSeq] using multiSeq_isSome ms h.1 h.2
  | .union ms, h => by
    simp only [Printable] at h
    simpa [toSeq] using unionSeq_isSome ms h.1 h.2
theorem multiSeq_isSome : ∀ (ms : List M), ms ≠ [] → PrintableL ms → ∃ s, multiSeq ms = some s
  | [], h, _ => absurd rfl h
  | m :: ms, _, hp => by
    simp only [PrintableL] at hp
    obtain ⟨y, hy⟩ := toSeq_isSome m hp.1
    have hc : ∃ x, childSeq m = some x := by
      cases m <;> simp [childSeq, hy]
    obtain ⟨x, hx⟩ := hc
    rw [multiSeq_cons]
    cases ms with
    | nil => exact ⟨x, hx⟩
    | cons m2 rest =>
      obtain ⟨b, hb⟩ := multiSeq_isSome (m2 :: rest) (by simp) hp.2
      exact ⟨Seq.join true x b, by simp [hx, hb]⟩
theorem unionSeq_isSome : ∀ (ms : List M), ms ≠ [] → PrintableL ms → ∃ s, unionSeq ms = some s
  | [], h, _ => absurd rfl h
  | m :: ms, _, hp => by
    simp only [PrintableL] at hp
    obtain ⟨y, hy⟩ := toSeq_isSome m hp.1
    cases ms with
    | nil => exact ⟨y, by simp [unionSeq, hy]⟩
    | cons m2 rest =>
      obtain ⟨b, hb⟩ := unionSeq_isSome (m2 :: rest) (by simp) hp.2
      have e : unionSeq (m :: m2 :: rest) =
          (toSeq m).bind fun a => (unionSeq (m2 :: rest)).map fun b => Seq.join false a b := by
        simp [unionSeq]
      exact ⟨Seq.join false y b, by rw [e, hy, hb]; rfl⟩
end

/-- `text_roundtrip` for every printable marker (no Empty / Any inside, no empty group: every normal form) -/
theorem text_roundtrip_printable (m : M) (hp : Printable m) (hn : NamesOk m) :
    readFullMarker m.str.toList = some m.items := by
  obtain ⟨s, hs⟩ := toSeq_isSome m hp
  exact text_roundtrip m s hs hn

/-- **C07 end to end in the model**: the characters of `str(m)`, read by the model of packaging's parser and rebuilt
    by `_build_markers` (with all its merging), give a marker that evaluates like `m` in every total environment -/
theorem str_reparse_final (env : Env) (he : EnvTotal env) (m m' : M) (hp : Printable m) (hn : NamesOk m)
    (hg : GAll (Good env) m) (k : Nat) (hk : C12.depth m ≤ k) (its : List PItem)
    (hr : readFullMarker m.str.toList = some its) (hb : build (k + 1) (.group its) = some m') :
    sem env m' = sem env m := by
  rw [text_roundtrip_printable m hp hn] at hr
  cases hr
  exact reparse_sound_final env he m m' hp hg k hk hb

/-- non-vacuity: a marker with a parenthesised group, a literal-on-the-left atom and a grouped atom -/
example : let m : M := .multi [.expr ⟨"sys_platform", .in_, "lin", true, .gen ⟨.contains, "lin"⟩⟩,
                                .union [.eqU "os_name" ["a", "b"], .neM "platform_machine" ["x"]]]
    Printable m ∧ NamesOk m := by
  refine ⟨by simp [Printable, PrintableL], ?_⟩
  simp only [NamesOk, NamesOkL, and_true]
  decide

end C07
end DepLogic
