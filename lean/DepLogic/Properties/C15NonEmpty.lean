import DepLogic.Properties.C15

/-!
# C15: `MarkerUnion.of` over a non-empty list of single markers never answers `EmptyMarker`

(the loops replace and append, they never delete) — and dually `MultiMarker.of` never answers `AnyMarker`.
Used by C12 to discharge `NoVanish` on conjunctions with disjunction members.
-/

namespace DepLogic
namespace C15
open M

theorem addNew_ne_nil (acc : List M) (x : M) : addNew acc x ≠ [] := by
  unfold addNew; split
  · rename_i h; intro he; subst he; simp [memB] at h
  · simp

theorem foldl_addNew_ne_nil : ∀ (xs acc : List M), (acc ≠ [] ∨ xs ≠ []) → xs.foldl addNew acc ≠ []
  | [], acc, h => by rcases h with h | h; exact h; exact absurd rfl h
  | x :: xs, acc, _ => by
    simp only [List.foldl_cons]
    exact foldl_addNew_ne_nil xs _ (Or.inl (addNew_ne_nil acc x))

theorem flatten_ne_nil (b : Bool) (fuel : Nat) (l : List M) (hs : AllSingle l) (hne : l ≠ []) :
    flattenInto b fuel l [] ≠ [] := by
  rw [flatten_singles b fuel l [] hs]
  exact foldl_addNew_ne_nil l [] (Or.inr hne)

theorem setAt_length : ∀ (l : List M) (i : Nat) (m : M), (setAt l i m).length = l.length
  | [], _, _ => by simp [setAt]
  | x :: xs, 0, m => by simp [setAt]
  | x :: xs, i + 1, m => by simp [setAt, setAt_length xs i m]

theorem scan_length (f : M → Step) : ∀ (whole : List M) (i : Nat) (rest new' : List M),
    scan f whole i rest = some (some new') → new'.length = whole.length
  | _, _, [], _, h => by simp [scan] at h
  | whole, i, mark :: rest, new', h => by
    simp only [scan] at h
    cases hfm : f mark with
    | next => rw [hfm] at h; exact scan_length f whole (i + 1) rest new' h
    | replace m => rw [hfm] at h; simp only [Option.some.injEq] at h; subst h; exact setAt_length whole i m
    | abort => rw [hfm] at h; cases h

/-- one loop step on single markers: a non-empty state stays non-empty, and a single incoming marker makes
    the state non-empty -/
theorem passStep_ne_nil (isAnd : Bool) (combine : M → M → M) (simplify : M → M → Option M) (fuel : Nat)
    (new : List M) (marker : M) (hn : AllSingle new) (hm : marker.isSingle = true) :
    ∀ out, passStep isAnd (decideWith isAnd combine simplify) (fun l => flattenInto isAnd fuel l []) (some new) marker = some out →
      out ≠ [] := by
  intro out h
  simp only [passStep] at h
  by_cases hmem : memB marker new = true
  · rw [if_pos hmem] at h; cases h
    intro he; subst he; simp [memB] at hmem
  · rw [if_neg hmem] at h
    have hskip : ¬ (if isAnd = true then marker.isAny else marker.isEmpty) = true := by
      cases marker <;> simp [isSingle] at hm <;> cases isAnd <;> simp [isAny, isEmpty]
    rw [if_neg hskip] at h
    cases hs : scan (fun mark => decideWith isAnd combine simplify mark marker) new 0 new with
    | none => rw [hs] at h; cases h
    | some r =>
      rw [hs] at h
      cases r with
      | some new' =>
        simp only [Option.some.injEq] at h
        subst h
        have h1 := scan_allSingle (fun mark => decideWith isAnd combine simplify mark marker)
          (fun mark m hmk hr => decideWith_single isAnd combine simplify marker mark m hmk hr) new 0 new new' hn hn hs
        have hlen := scan_length _ new 0 new new' hs
        have hne : new' ≠ [] := by
          intro he; subst he
          cases new with
          | nil => simp [scan] at hs
          | cons _ _ => simp at hlen
        exact flatten_ne_nil isAnd fuel new' h1 hne
      | none =>
        simp only [Option.some.injEq] at h
        subst h
        simp

theorem pass_ne_nil (isAnd : Bool) (combine : M → M → M) (simplify : M → M → Option M) (fuel : Nat) :
    ∀ (old st out : List M), AllSingle old → AllSingle st → NoDup st → (st ≠ [] ∨ old ≠ []) →
      old.foldl (passStep isAnd (decideWith isAnd combine simplify) (fun l => flattenInto isAnd fuel l [])) (some st) = some out →
      out ≠ []
  | [], st, out, _, _, _, hne, h => by
    simp at h; subst h
    rcases hne with h | h
    · exact h
    · exact absurd rfl h
  | m :: rest, st, out, ho, hs, hd, _, h => by
    simp only [List.foldl_cons] at h
    cases hst : passStep isAnd (decideWith isAnd combine simplify) (fun l => flattenInto isAnd fuel l []) (some st) m with
    | none =>
      rw [hst] at h
      have : ∀ l : List M, l.foldl (passStep isAnd (decideWith isAnd combine simplify) (fun l => flattenInto isAnd fuel l [])) none = none := by
        intro l; induction l with
        | nil => rfl
        | cons _ _ ih => simpa [passStep] using ih
      rw [this] at h; cases h
    | some st' =>
      rw [hst] at h
      have hm := ho m (List.mem_cons_self ..)
      obtain ⟨h1, h2⟩ := passStep_inv isAnd combine simplify fuel st m hs hd hm st' hst
      have h3 := passStep_ne_nil isAnd combine simplify fuel st m hs hm st' hst
      exact pass_ne_nil isAnd combine simplify fuel rest st' out (fun y hy => ho y (List.mem_cons_of_mem _ hy)) h1 h2 (Or.inl h3) h

theorem unionPass_ne_nil (fuel : Nat) (old out : List M) (ho : AllSingle old) (hne : old ≠ [])
    (h : unionPass fuel old = some out) : out ≠ [] := by
  cases fuel with
  | zero => simp [unionPass] at h; subst h; exact hne
  | succ n =>
    simp only [unionPass] at h
    exact pass_ne_nil false (M.or n) (unionSimplify n) n old [] out ho allSingle_nil trivial (Or.inr hne) h

theorem multiPass_ne_nil (fuel : Nat) (old out : List M) (ho : AllSingle old) (hne : old ≠ [])
    (h : multiPass fuel old = some out) : out ≠ [] := by
  cases fuel with
  | zero => simp [multiPass] at h; subst h; exact hne
  | succ n =>
    simp only [multiPass] at h
    exact pass_ne_nil true (M.and n) (intersectSimplify n) n old [] out ho allSingle_nil trivial (Or.inr hne) h

theorem unionLoop_ne_nil : ∀ (fuel : Nat) (old new out : List M), AllSingle new → NoDup new → new ≠ [] →
    unionLoop fuel old new = some out → out ≠ []
  | 0, _, new, out, _, _, hne, h => by simp [unionLoop] at h; subst h; exact hne
  | fuel + 1, old, new, out, hs, hd, hne, h => by
    simp only [unionLoop] at h
    split at h
    · cases h; exact hne
    · cases hp : unionPass fuel new with
      | none => simp [hp] at h
      | some new' =>
        simp only [hp] at h
        obtain ⟨h1, h2⟩ := unionPass_inv fuel new new' hs hd hp
        exact unionLoop_ne_nil fuel new new' out h1 h2 (unionPass_ne_nil fuel new new' hs hne hp) h

theorem multiLoop_ne_nil : ∀ (fuel : Nat) (old new out : List M), AllSingle new → NoDup new → new ≠ [] →
    multiLoop fuel old new = some out → out ≠ []
  | 0, _, new, out, _, _, hne, h => by simp [multiLoop] at h; subst h; exact hne
  | fuel + 1, old, new, out, hs, hd, hne, h => by
    simp only [multiLoop] at h
    split at h
    · cases h; exact hne
    · cases hp : multiPass fuel new with
      | none => simp [hp] at h
      | some new' =>
        simp only [hp] at h
        obtain ⟨h1, h2⟩ := multiPass_inv fuel new new' hs hd hp
        exact multiLoop_ne_nil fuel new new' out h1 h2 (multiPass_ne_nil fuel new new' hs hne hp) h

/-- **`MarkerUnion.of` over a non-empty list of single markers is never `EmptyMarker`**, every fuel -/
theorem unionOfList_not_empty (fuel : Nat) (ms : List M) (hs : AllSingle ms) (hne : ms ≠ []) :
    (unionOfList fuel ms).isEmpty = false := by
  cases fuel with
  | zero => rfl
  | succ fuel =>
    have h0s := flatten_allSingle false fuel ms hs
    have h0d := flatten_nodup false fuel ms [] trivial
    have h0n := flatten_ne_nil false fuel ms hs hne
    simp only [unionOfList]
    cases hl : unionLoop fuel [] (flattenInto false fuel ms []) with
    | none => rfl
    | some new =>
      obtain ⟨h1, _⟩ := unionLoop_inv fuel [] _ new h0s h0d hl
      have h3 := unionLoop_ne_nil fuel [] _ new h0s h0d h0n hl
      simp only
      split
      · rfl
      · match new, h1, h3 with
        | [], _, h3 => exact absurd rfl h3
        | [m], h1, _ =>
          have := h1 m (List.mem_cons_self ..)
          cases m <;> simp [isSingle] at this <;> rfl
        | a :: b :: rest, _, _ => rfl

/-- dually: **`MultiMarker.of` over a non-empty list of single markers is never `AnyMarker`** -/
theorem multiOf_not_any (fuel : Nat) (ms : List M) (hs : AllSingle ms) (hne : ms ≠ []) :
    (multiOf fuel ms).isAny = false := by
  cases fuel with
  | zero => rfl
  | succ fuel =>
    have h0s := flatten_allSingle true fuel ms hs
    have h0d := flatten_nodup true fuel ms [] trivial
    have h0n := flatten_ne_nil true fuel ms hs hne
    simp only [multiOf]
    cases hl : multiLoop fuel [] (flattenInto true fuel ms []) with
    | none => rfl
    | some new =>
      obtain ⟨h1, _⟩ := multiLoop_inv fuel [] _ new h0s h0d hl
      have h3 := multiLoop_ne_nil fuel [] _ new h0s h0d h0n hl
      simp only
      split
      · rfl
      · match new, h1, h3 with
        | [], _, h3 => exact absurd rfl h3
        | [m], h1, _ =>
          have := h1 m (List.mem_cons_self ..)
          cases m <;> simp [isSingle] at this <;> rfl
        | a :: b :: rest, _, _ => rfl

end C15
end DepLogic
