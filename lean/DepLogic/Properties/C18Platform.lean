import DepLogic.Properties.C18
import DepLogic.Proofs.LexLemmas
/-
  C18, second half — `Platform.parse(str(p)) == p` for the documented platform families:
  manylinux_X_Y_arch, musllinux_X_Y_arch, macos_X_Y_arch (arm64 for aarch64), windows_arch
  (amd64 / arm64 spellings), for EVERY X, Y — down to characters (`int(str(n)) = n`, the
  `_platform_major_minor_re` lexing, `Arch.parse`).
-/
deriving instance DecidableEq for Except

namespace DepLogic
namespace C18
open Lex

theorem span_digits_then (d rest : List Char) (c : Char) (hd : ∀ x ∈ d, x.isDigit = true) (hc : c.isDigit = false) :
    (d ++ c :: rest).span Char.isDigit = (d, c :: rest) := by
  have loop : ∀ (l acc : List Char), (∀ x ∈ l, x.isDigit = true) →
      List.span.loop Char.isDigit (l ++ c :: rest) acc = (acc.reverse ++ l, c :: rest) := by
    intro l
    induction l with
    | nil => intro acc _; simp [List.span.loop, hc]
    | cons x xs ih =>
      intro acc h
      have hx := h x (by simp)
      simp only [List.cons_append, List.span.loop, hx]
      rw [ih (x :: acc) (fun y hy => h y (by simp [hy]))]
      simp
  unfold List.span
  rw [loop d [] hd]; simp

theorem digitsThenUnderscore_digs (n : Nat) (rest : List Char) :
    digitsThenUnderscore (digs n ++ '_' :: rest) = some (n, rest) := by
  unfold digitsThenUnderscore
  rw [span_digits_then (digs n) rest '_' (digs_isDigit n) (by decide)]
  have hne : (digs n).isEmpty = false := by
    cases h : digs n with
    | nil => exact absurd h (digs_ne_nil n)
    | cons _ _ => rfl
  simp only [hne, Bool.false_eq_true, if_false]
  have := digitsVal_toDigits n
  simp only [digitsVal] at this
  simp only [digs, this]

/-- what the architecture part of a rendered platform parses to -/
theorem parseArch_str (a : Arch) : archChars a.str.toList = true ∧ parseArch a.str.toList = .ok a := by
  cases a <;> exact ⟨by decide, by simp [parseArch, Arch.str, Arch.parse?]⟩

theorem parseMajorMinor_text (mk : Nat → Nat → Os) (a b : Nat) (archText : List Char) (ar : Arch)
    (h1 : archChars archText = true) (h2 : parseArch archText = .ok ar) :
    parseMajorMinor mk (digs a ++ '_' :: (digs b ++ '_' :: archText)) = some (.ok ⟨mk a b, ar⟩) := by
  unfold parseMajorMinor
  rw [digitsThenUnderscore_digs a]
  simp only
  rw [digitsThenUnderscore_digs b]
  simp [h1, h2, Except.map]

theorem toList_toString (n : Nat) : (toString n).toList = digs n := by simp [digs]

theorem ne_of_toList_ne {s t : String} (h : s.toList ≠ t.toList) : (s == t) = false :=
  beq_eq_false_iff_ne.mpr (fun e => h (congrArg String.toList e))

/-- `parse(str(p))` for the numbered families, given how the text starts -/
theorem parse_numbered (s : String) (mk : Nat → Nat → Os) (a b : Nat) (archText : List Char) (ar : Arch)
    (h1 : archChars archText = true) (h2 : parseArch archText = .ok ar)
    (halias : (s == "linux") = false ∧ (s == "windows") = false ∧ (s == "macos") = false ∧ (s == "alpine") = false ∧
              (s == "macos_arm64") = false ∧ (s == "macos_x86_64") = false)
    (hwin : dropPrefix? "windows_".toList s.toList = none)
    (hfam : familyRe s.toList = parseMajorMinor mk (digs a ++ '_' :: (digs b ++ '_' :: archText))) :
    parsePlatform s = .ok ⟨mk a b, ar⟩ := by
  unfold parsePlatform
  obtain ⟨e1, e2, e3, e4, e5, e6⟩ := halias
  simp only [e1, e2, e3, e4, e5, e6, Bool.false_eq_true, if_false, hwin]
  rw [hfam, parseMajorMinor_text mk a b archText ar h1 h2]

theorem alias_chars :
    "linux".toList = ['l', 'i', 'n', 'u', 'x'] ∧ "windows".toList = ['w', 'i', 'n', 'd', 'o', 'w', 's'] ∧
    "macos".toList = ['m', 'a', 'c', 'o', 's'] ∧ "alpine".toList = ['a', 'l', 'p', 'i', 'n', 'e'] ∧
    "macos_arm64".toList = ['m', 'a', 'c', 'o', 's', '_', 'a', 'r', 'm', '6', '4'] ∧
    "macos_x86_64".toList = ['m', 'a', 'c', 'o', 's', '_', 'x', '8', '6', '_', '6', '4'] := by decide

theorem manylinux_roundtrip (a b : Nat) (ar : Arch) :
    parsePlatform (Platform.str ⟨.manylinux a b, ar⟩) = .ok ⟨.manylinux a b, ar⟩ := by
  have hstr : Platform.str ⟨.manylinux a b, ar⟩ = "manylinux_" ++ toString a ++ "_" ++ toString b ++ "_" ++ ar.str := by
    cases ar <;> rfl
  have hl : (Platform.str ⟨.manylinux a b, ar⟩).toList =
      ['m', 'a', 'n', 'y', 'l', 'i', 'n', 'u', 'x', '_'] ++ (digs a ++ '_' :: (digs b ++ '_' :: ar.str.toList)) := by
    rw [hstr]
    simp only [String.toList_append, toList_toString]
    have : "manylinux_".toList = ['m', 'a', 'n', 'y', 'l', 'i', 'n', 'u', 'x', '_'] := by decide
    have h_ : "_".toList = ['_'] := by decide
    rw [this, h_]; simp
  obtain ⟨h1, h2⟩ := parseArch_str ar
  apply parse_numbered _ .manylinux a b ar.str.toList ar h1 h2
  · obtain ⟨c1, c2, c3, c4, c5, c6⟩ := alias_chars
    refine ⟨?_, ?_, ?_, ?_, ?_, ?_⟩ <;> (apply ne_of_toList_ne; rw [hl]; simp [c1, c2, c3, c4, c5, c6])
  · rw [hl]; simp [dropPrefix?, List.isPrefixOf]
  · rw [hl]
    have : "manylinux_".toList = ['m', 'a', 'n', 'y', 'l', 'i', 'n', 'u', 'x', '_'] := by decide
    simp [familyRe, dropPrefix?, this, List.isPrefixOf]

theorem musllinux_roundtrip (a b : Nat) (ar : Arch) :
    parsePlatform (Platform.str ⟨.musllinux a b, ar⟩) = .ok ⟨.musllinux a b, ar⟩ := by
  have hstr : Platform.str ⟨.musllinux a b, ar⟩ = "musllinux_" ++ toString a ++ "_" ++ toString b ++ "_" ++ ar.str := by
    cases ar <;> rfl
  have hp : "musllinux_".toList = ['m', 'u', 's', 'l', 'l', 'i', 'n', 'u', 'x', '_'] := by decide
  have hl : (Platform.str ⟨.musllinux a b, ar⟩).toList =
      ['m', 'u', 's', 'l', 'l', 'i', 'n', 'u', 'x', '_'] ++ (digs a ++ '_' :: (digs b ++ '_' :: ar.str.toList)) := by
    rw [hstr]
    simp only [String.toList_append, toList_toString]
    have h_ : "_".toList = ['_'] := by decide
    rw [hp, h_]; simp
  obtain ⟨h1, h2⟩ := parseArch_str ar
  apply parse_numbered _ .musllinux a b ar.str.toList ar h1 h2
  · obtain ⟨c1, c2, c3, c4, c5, c6⟩ := alias_chars
    refine ⟨?_, ?_, ?_, ?_, ?_, ?_⟩ <;> (apply ne_of_toList_ne; rw [hl]; simp [c1, c2, c3, c4, c5, c6])
  · rw [hl]; simp [dropPrefix?, List.isPrefixOf]
  · rw [hl]
    have hm : "manylinux_".toList = ['m', 'a', 'n', 'y', 'l', 'i', 'n', 'u', 'x', '_'] := by decide
    have hc : "macos_".toList = ['m', 'a', 'c', 'o', 's', '_'] := by decide
    simp [familyRe, dropPrefix?, hp, hm, hc, List.isPrefixOf]

/-- macOS: `aarch64` is spelled `arm64` -/
theorem macos_roundtrip (a b : Nat) (ar : Arch) :
    parsePlatform (Platform.str ⟨.macos a b, ar⟩) = .ok ⟨.macos a b, ar⟩ := by
  have hc : "macos_".toList = ['m', 'a', 'c', 'o', 's', '_'] := by decide
  have hm : "manylinux_".toList = ['m', 'a', 'n', 'y', 'l', 'i', 'n', 'u', 'x', '_'] := by decide
  have h_ : "_".toList = ['_'] := by decide
  -- the architecture text and what it parses to
  obtain ⟨archText, hstr, h1, h2⟩ : ∃ archText : String,
      Platform.str ⟨.macos a b, ar⟩ = "macos_" ++ toString a ++ "_" ++ toString b ++ "_" ++ archText ∧
      archChars archText.toList = true ∧ parseArch archText.toList = .ok ar := by
    by_cases har : ar = .aarch64
    · subst har
      exact ⟨"arm64", by
        show "macos_" ++ toString a ++ "_" ++ toString b ++ "_arm64" = _
        simp [String.append_assoc], by decide, by simp [parseArch, Arch.parse?]⟩
    · refine ⟨ar.str, ?_, (parseArch_str ar).1, (parseArch_str ar).2⟩
      cases ar <;> first | exact absurd rfl har | rfl
  have hl : (Platform.str ⟨.macos a b, ar⟩).toList =
      ['m', 'a', 'c', 'o', 's', '_'] ++ (digs a ++ '_' :: (digs b ++ '_' :: archText.toList)) := by
    rw [hstr]
    simp only [String.toList_append, toList_toString]
    rw [hc, h_]; simp
  obtain ⟨x, xs, hx, hxd⟩ : ∃ x xs, digs a = x :: xs ∧ x.isDigit = true := by
    cases hd : digs a with
    | nil => exact absurd hd (digs_ne_nil a)
    | cons x xs => exact ⟨x, xs, rfl, digs_isDigit a x (by rw [hd]; simp)⟩
  have hxa : x ≠ 'a' := by intro e; subst e; revert hxd; decide
  have hxx : x ≠ 'x' := by intro e; subst e; revert hxd; decide
  apply parse_numbered _ .macos a b archText.toList ar h1 h2
  · obtain ⟨c1, c2, c3, c4, c5, c6⟩ := alias_chars
    refine ⟨?_, ?_, ?_, ?_, ?_, ?_⟩ <;> (apply ne_of_toList_ne; rw [hl, hx]; simp [c1, c2, c3, c4, c5, c6, hxa, hxx])
  · rw [hl]; simp [dropPrefix?, List.isPrefixOf]
  · rw [hl]
    simp [familyRe, dropPrefix?, hm, hc, List.isPrefixOf]

/-- Windows: `x86_64` is spelled `amd64`, `aarch64` is spelled `arm64` -/
theorem windows_roundtrip (ar : Arch) :
    parsePlatform (Platform.str ⟨.windows, ar⟩) = .ok ⟨.windows, ar⟩ := by
  cases ar <;> decide

/-- the documented families of the claim (BSD / Haiku / generic names are outside it) -/
def documented : Os → Bool
  | .unordered _ _ => false
  | _ => true

/-- **`Platform.parse(str(p)) == p`** for every platform of the documented families, every `X_Y` -/
theorem platform_roundtrip (p : Platform) (hd : documented p.os = true) : parsePlatform p.str = .ok p := by
  rcases p with ⟨os, ar⟩
  cases os with
  | manylinux a b => exact manylinux_roundtrip a b ar
  | musllinux a b => exact musllinux_roundtrip a b ar
  | windows => exact windows_roundtrip ar
  | macos a b => exact macos_roundtrip a b ar
  | unordered c r => cases hd

/-- outside the documented families the round trip is false of the code: `OpenBsd` has no `__str__`, so the
    release is not printed (`openbsd_7_x86_64` prints as `openbsd_x86_64`, which does not parse back) -/
theorem openbsd_no_roundtrip :
    parsePlatform (Platform.str ⟨.unordered "openbsd" "7", .x86_64⟩) ≠ .ok ⟨.unordered "openbsd" "7", .x86_64⟩ := by
  decide

end C18
end DepLogic
