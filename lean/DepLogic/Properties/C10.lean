import DepLogic.Properties.C13
/-
  C10 — memoisation is transparent.

  Model of `functools.lru_cache(maxsize=None)`: an association list searched with the keys'
  Python equality (`M.beq`; CPython also compares hashes first, which agree for equal keys).
  A history is any sequence of calls; `runCached` threads the cache through it.
  Theorem `history_transparent`: whatever was called before, each call returns exactly what the
  un-memoised function returns – provided the keys are well-formed markers, for which Python
  equality is structural equality (C13.eq_of_beq).  That proviso is exactly the repaired defect:
  before the `fix:` commits, atoms equal as keys could carry different cached specifiers, grouped
  atoms equal as keys could differ in order, and literal-on-the-left atoms were equal to their
  mirrored spelling – see the two-step histories in known_findings.json.
-/
namespace DepLogic
namespace C10
open M

/-- an `lru_cache`: (key, stored value), most recent first -/
abbrev Cache (β : Type) := List (M × β)

def lookup {β : Type} (c : Cache β) (k : M) : Option β :=
  (c.find? fun p => M.beq k p.1).map (·.2)

/-- one memoised call -/
def call {β : Type} (f : M → β) (c : Cache β) (k : M) : β × Cache β :=
  match lookup c k with
  | some v => (v, c)
  | none => (f k, (k, f k) :: c)

/-- a history of calls, returning every answer -/
def runCached {β : Type} (f : M → β) : Cache β → List M → List β
  | _, [] => []
  | c, k :: ks => (call f c k).1 :: runCached f (call f c k).2 ks

/-- every entry was stored for a well-formed key with the function's own value -/
def CacheOk {β : Type} (f : M → β) (c : Cache β) : Prop := ∀ p ∈ c, C13.AllWF p.1 ∧ p.2 = f p.1

theorem call_ok {β : Type} (f : M → β) (c : Cache β) (k : M) (hc : CacheOk f c) (hk : C13.AllWF k) :
    (call f c k).1 = f k ∧ CacheOk f (call f c k).2 := by
  unfold call lookup
  cases hf : c.find? (fun p => M.beq k p.1) with
  | none =>
    simp only [Option.map_none]
    refine ⟨by simp, ?_⟩
    intro p hp
    simp only [List.mem_cons] at hp
    rcases hp with hp | hp
    · subst hp
      exact ⟨hk, rfl⟩
    · exact hc p hp
  | some p =>
    simp only [Option.map_some]
    have hmem := List.mem_of_find?_eq_some hf
    have hb : M.beq k p.1 = true := by simpa using List.find?_some hf
    obtain ⟨hw, hv⟩ := hc p hmem
    refine ⟨?_, hc⟩
    rw [hv, C13.eq_of_beq k p.1 hk hw hb]

/-- **transparency**: a memoised function answers every call of every history exactly as the
    plain function would, so the probe's result does not depend on what came before -/
theorem history_transparent {β : Type} (f : M → β) : ∀ (hist : List M) (c : Cache β), CacheOk f c →
    (∀ k ∈ hist, C13.AllWF k) → runCached f c hist = hist.map f := by
  intro hist
  induction hist with
  | nil => intro _ _ _; rfl
  | cons k ks ih =>
    intro c hc hk
    obtain ⟨h1, h2⟩ := call_ok f c k hc (hk k (by simp))
    simp only [runCached, List.map_cons, h1]
    rw [ih _ h2 (fun k' hk' => hk k' (by simp [hk']))]

/-- in particular: probe after any history = probe first in a fresh interpreter -/
theorem probe_independent {β : Type} (f : M → β) (hist : List M) (probe : M)
    (hk : ∀ k ∈ hist ++ [probe], C13.AllWF k) :
    (runCached f [] (hist ++ [probe])).getLast? = (runCached f [] [probe]).getLast? := by
  rw [history_transparent f _ [] (by intro p hp; simp at hp) hk,
      history_transparent f [probe] [] (by intro p hp; simp at hp) (fun k hk' => hk k (by simp at hk' ⊢; exact Or.inr hk'))]
  simp

/-- the defect, as a statement about the model: with keys that are equal but not identical the
    cache IS observable (the hypothesis `AllWF` cannot be dropped) -/
theorem not_transparent_without_wf :
    ∃ (f : M → String) (a b : M), M.beq a b = true ∧ runCached f [] [a, b] ≠ [a, b].map f := by
  refine ⟨fun m => match m with | .expr x => (match x.spec with | .gen _ => "gen" | .ver _ => "ver") | _ => "",
    .expr ⟨"os_name", .eq, "x", false, .gen ⟨.eq, "x"⟩⟩, .expr ⟨"os_name", .eq, "x", false, .ver .any⟩, by decide, by decide⟩

/-! ### functions of several markers

`_merge_single_markers(a, b, cls)`, `cnf(m)`, `dnf(m)`, `intersection(*ms)` and `union(*ms)` are memoised on
the TUPLE of their arguments; CPython compares the tuples member by member with `==` (`M.beqList`; the class
argument and keyword-free calls add nothing to compare). The same theorem for such keys. -/

abbrev CacheN (β : Type) := List (List M × β)

def lookupN {β : Type} (c : CacheN β) (k : List M) : Option β :=
  (c.find? fun p => M.beqList k p.1).map (·.2)

def callN {β : Type} (f : List M → β) (c : CacheN β) (k : List M) : β × CacheN β :=
  match lookupN c k with
  | some v => (v, c)
  | none => (f k, (k, f k) :: c)

def runCachedN {β : Type} (f : List M → β) : CacheN β → List (List M) → List β
  | _, [] => []
  | c, k :: ks => (callN f c k).1 :: runCachedN f (callN f c k).2 ks

def CacheOkN {β : Type} (f : List M → β) (c : CacheN β) : Prop := ∀ p ∈ c, C13.AllWFL p.1 ∧ p.2 = f p.1

theorem callN_ok {β : Type} (f : List M → β) (c : CacheN β) (k : List M) (hc : CacheOkN f c) (hk : C13.AllWFL k) :
    (callN f c k).1 = f k ∧ CacheOkN f (callN f c k).2 := by
  unfold callN lookupN
  cases hf : c.find? (fun p => M.beqList k p.1) with
  | none =>
    simp only [Option.map_none]
    refine ⟨by simp, ?_⟩
    intro p hp
    simp only [List.mem_cons] at hp
    rcases hp with hp | hp
    · subst hp
      exact ⟨hk, rfl⟩
    · exact hc p hp
  | some p =>
    simp only [Option.map_some]
    have hmem := List.mem_of_find?_eq_some hf
    have hb : M.beqList k p.1 = true := by simpa using List.find?_some hf
    obtain ⟨hw, hv⟩ := hc p hmem
    refine ⟨?_, hc⟩
    rw [hv, C13.eqList_of_beq k p.1 hk hw hb]

/-- **transparency for memoised functions of several markers** -/
theorem history_transparent_tuple {β : Type} (f : List M → β) : ∀ (hist : List (List M)) (c : CacheN β), CacheOkN f c →
    (∀ k ∈ hist, C13.AllWFL k) → runCachedN f c hist = hist.map f := by
  intro hist
  induction hist with
  | nil => intro _ _ _; rfl
  | cons k ks ih =>
    intro c hc hk
    obtain ⟨h1, h2⟩ := callN_ok f c k hc (hk k (by simp))
    simp only [runCachedN, List.map_cons, h1]
    rw [ih _ h2 (fun k' hk' => hk k' (by simp [hk']))]

example : C13.AllWFL [M.any, M.empty] := by simp [C13.AllWFL, C13.AllWF]

end C10
end DepLogic
