import DepLogic.Model.Quote
/-
  C07, the literal step — for EVERY string value `v` (every Lean `String`: all Unicode scalar values, control
  characters, NUL, both quote characters, backslashes), the text `_quote` writes for it is read back by packaging
  as exactly `v`:

  `quote_token`     : the written text is one QUOTED_STRING token, whatever follows it;
  `quote_roundtrip` : evaluating that token as a Python string literal gives `v` back;
  `read_quote`      : both, as `readLiteral (quoteL v ++ rest) = some (v, rest)`.

  This is the step fixed defects D27 (quotes, backslashes) and D36 (NUL) and seed C07g (both quotes) live in.
  Lone surrogates are not Lean characters: that part of D36 is covered differentially only.
-/
namespace DepLogic
namespace C07
open Quote

/-- the characters `_quote` writes besides the value's own -/
def escAlphabet : List Char := ['\\', 'n', 'r', 'u', '0', 'x', '2']

theorem escChar_mem (dq : Bool) (c x : Char) (hx : x ∈ escChar dq c) :
    (x = c ∧ ¬ (dq = true ∧ c = '"')) ∨ x ∈ escAlphabet := by
  unfold escChar at hx
  by_cases h1 : c = '\\'
  · rw [if_pos h1] at hx
    exact Or.inr ((by decide : ∀ y ∈ ['\\', '\\'], y ∈ escAlphabet) x hx)
  rw [if_neg h1] at hx
  by_cases h2 : c = '\n'
  · rw [if_pos h2] at hx
    exact Or.inr ((by decide : ∀ y ∈ ['\\', 'n'], y ∈ escAlphabet) x hx)
  rw [if_neg h2] at hx
  by_cases h3 : c = '\r'
  · rw [if_pos h3] at hx
    exact Or.inr ((by decide : ∀ y ∈ ['\\', 'r'], y ∈ escAlphabet) x hx)
  rw [if_neg h3] at hx
  by_cases h4 : c = nul
  · rw [if_pos h4] at hx
    exact Or.inr ((by decide : ∀ y ∈ ['\\', 'u', '0', '0', '0', '0'], y ∈ escAlphabet) x hx)
  rw [if_neg h4] at hx
  by_cases h5 : (dq && decide (c = '"')) = true
  · rw [if_pos h5] at hx
    exact Or.inr ((by decide : ∀ y ∈ ['\\', 'x', '2', '2'], y ∈ escAlphabet) x hx)
  · rw [if_neg h5] at hx
    left
    refine ⟨by simpa using hx, ?_⟩
    rintro ⟨hd, hc⟩
    exact h5 (by simp [hd, hc])

theorem escChar_no_dquote (c x : Char) (hx : x ∈ escChar true c) : x ≠ '"' := by
  rcases escChar_mem true c x hx with ⟨rfl, h⟩ | h
  · intro e; exact h ⟨rfl, e⟩
  · exact (by decide : ∀ y ∈ escAlphabet, y ≠ '"') x h

theorem escChar_squote (c x : Char) (hx : x ∈ escChar false c) (hq : x = '\'') : c = '\'' := by
  rcases escChar_mem false c x hx with ⟨rfl, _⟩ | h
  · exact hq
  · exact absurd hq ((by decide : ∀ y ∈ escAlphabet, y ≠ '\'') x h)

theorem scan_body (q : Char) (body rest : List Char) (hq : q = '"' ∨ q = '\'') (hb : q ∉ body) :
    scanQuoted (q :: body ++ q :: rest) = some (q, body, rest) := by
  have htake : ∀ (b : List Char), q ∉ b → (b ++ q :: rest).takeWhile (· != q) = b ∧
      (b ++ q :: rest).dropWhile (· != q) = q :: rest := by
    intro b
    induction b with
    | nil => intro _; simp
    | cons x xs ih =>
      intro h
      have hx : x ≠ q := fun e => h (by simp [e])
      have hxs : q ∉ xs := fun e => h (by simp [e])
      have := ih hxs
      simp [hx, this.1, this.2]
  obtain ⟨h1, h2⟩ := htake body hb
  unfold scanQuoted
  have hq' : (decide (q = '"') || decide (q = '\'')) = true := by rcases hq with rfl | rfl <;> decide
  simp only [List.cons_append, h2, h1]
  rw [if_pos hq']

theorem run_cons (q : Char) (st : St) (c : Char) (r : List Char) :
    run q st (c :: r) =
      match step q st c with
      | none => none
      | some (st', some o) => consO o (run q st' r)
      | some (st', none) => run q st' r := rfl

theorem run_emit (q : Char) (st st' : St) (c o : Char) (r : List Char) (h : step q st c = some (st', some o)) :
    run q st (c :: r) = consO o (run q st' r) := by rw [run_cons, h]

theorem run_skip (q : Char) (st st' : St) (c : Char) (r : List Char) (h : step q st c = some (st', none)) :
    run q st (c :: r) = run q st' r := by rw [run_cons, h]

theorem step_backslash (q : Char) : step q .normal '\\' = some (.esc, none) := by simp [step]

/-- one written character is read back as itself -/
theorem unescape_esc (dq : Bool) (q c : Char) (r : List Char)
    (h : (dq = true ∧ q = '"') ∨ (dq = false ∧ q = '\'' ∧ c ≠ '\'')) :
    run q .normal (escChar dq c ++ r) = consO c (run q .normal r) := by
  unfold escChar
  by_cases h1 : c = '\\'
  · subst h1
    rw [if_pos rfl]
    show run q .normal ('\\' :: '\\' :: r) = _
    rw [run_skip q _ _ _ _ (step_backslash q), run_emit q .esc .normal '\\' '\\' r (by simp [step])]
  rw [if_neg h1]
  by_cases h2 : c = '\n'
  · subst h2
    rw [if_pos rfl]
    show run q .normal ('\\' :: 'n' :: r) = _
    rw [run_skip q _ _ _ _ (step_backslash q), run_emit q .esc .normal 'n' '\n' r (by rfl)]
  rw [if_neg h2]
  by_cases h3 : c = '\r'
  · subst h3
    rw [if_pos rfl]
    show run q .normal ('\\' :: 'r' :: r) = _
    rw [run_skip q _ _ _ _ (step_backslash q), run_emit q .esc .normal 'r' '\r' r (by rfl)]
  rw [if_neg h3]
  by_cases h4 : c = nul
  · subst h4
    rw [if_pos rfl]
    show run q .normal ('\\' :: 'u' :: '0' :: '0' :: '0' :: '0' :: r) = _
    rw [run_skip q _ _ _ _ (step_backslash q), run_skip q .esc (.hex 4 0) 'u' _ (by rfl),
      run_skip q (.hex 4 0) (.hex 3 0) '0' _ (by rfl), run_skip q (.hex 3 0) (.hex 2 0) '0' _ (by rfl),
      run_skip q (.hex 2 0) (.hex 1 0) '0' _ (by rfl), run_emit q (.hex 1 0) .normal '0' nul r (by rfl)]
  rw [if_neg h4]
  by_cases h5 : (dq && decide (c = '"')) = true
  · rw [if_pos h5]
    simp only [Bool.and_eq_true, decide_eq_true_eq] at h5
    obtain ⟨_, hc⟩ := h5
    subst hc
    show run q .normal ('\\' :: 'x' :: '2' :: '2' :: r) = _
    rw [run_skip q _ _ _ _ (step_backslash q), run_skip q .esc (.hex 2 0) 'x' _ (by rfl),
      run_skip q (.hex 2 0) (.hex 1 2) '2' _ (by rfl), run_emit q (.hex 1 2) .normal '2' '"' r (by rfl)]
  · rw [if_neg h5]
    have hcq : c ≠ q := by
      rcases h with ⟨hd, hq⟩ | ⟨_, hq, hc⟩
      · subst hq
        intro e
        apply h5
        simp [hd, e]
      · subst hq; exact hc
    show run q .normal (c :: r) = _
    rw [run_emit q .normal .normal c c r (by simp [step, h1, h2, h3, h4, hcq])]

theorem unescape_flatMap (dq : Bool) (q : Char) (v : List Char)
    (h : (dq = true ∧ q = '"') ∨ (dq = false ∧ q = '\'' ∧ '\'' ∉ v)) :
    pyUnescape q (v.flatMap (escChar dq)) = some v := by
  unfold pyUnescape
  induction v with
  | nil => simp [run]
  | cons c cs ih =>
    have h' : (dq = true ∧ q = '"') ∨ (dq = false ∧ q = '\'' ∧ '\'' ∉ cs) := by
      rcases h with h | ⟨a, b, c'⟩
      · exact Or.inl h
      · exact Or.inr ⟨a, b, fun e => c' (by simp [e])⟩
    have hc : (dq = true ∧ q = '"') ∨ (dq = false ∧ q = '\'' ∧ c ≠ '\'') := by
      rcases h with h | ⟨a, b, c'⟩
      · exact Or.inl h
      · exact Or.inr ⟨a, b, fun e => c' (by simp [e])⟩
    rw [List.flatMap_cons, unescape_esc dq q c _ hc, ih h']
    rfl

/-- the text written for `v` is `q body q` with the delimiter nowhere inside -/
theorem quote_shape (v : List Char) :
    ∃ q body, quoteL v = q :: body ++ [q] ∧ (q = '"' ∨ q = '\'') ∧ q ∉ body ∧ pyUnescape q body = some v := by
  unfold quoteL
  by_cases hs : (v.contains '"' && !v.contains '\'') = true
  · rw [if_pos hs]
    simp only [Bool.and_eq_true, Bool.not_eq_true', List.contains_eq_mem, decide_eq_true_eq, decide_eq_false_iff_not] at hs
    refine ⟨'\'', v.flatMap (escChar false), rfl, Or.inr rfl, ?_, unescape_flatMap false '\'' v (Or.inr ⟨rfl, rfl, hs.2⟩)⟩
    intro hmem
    obtain ⟨c, hc, hx⟩ := List.mem_flatMap.1 hmem
    have := escChar_squote c '\'' hx rfl
    exact hs.2 (this ▸ hc)
  · rw [if_neg hs]
    refine ⟨'"', v.flatMap (escChar true), rfl, Or.inl rfl, ?_, unescape_flatMap true '"' v (Or.inl ⟨rfl, rfl⟩)⟩
    intro hmem
    obtain ⟨c, _, hx⟩ := List.mem_flatMap.1 hmem
    exact escChar_no_dquote c '"' hx rfl

/-- **the literal round trip**: whatever follows the literal in the marker text, packaging's tokenizer cuts
    exactly the written literal and `ast.literal_eval` reads the value back -/
theorem read_quote (v rest : List Char) : readLiteral (quoteL v ++ rest) = some (v, rest) := by
  obtain ⟨q, body, hshape, hq, hnot, hun⟩ := quote_shape v
  unfold readLiteral
  rw [hshape]
  have : q :: body ++ [q] ++ rest = q :: body ++ q :: rest := by simp
  rw [this, scan_body q body rest hq hnot]
  simp [hun]

theorem quote_roundtrip (v : List Char) : readLiteral (quoteL v) = some (v, []) := by
  simpa using read_quote v []

/-! kernel-checked instances, the inputs of D27 / D36 / seed C07g (character lists: `String.toList` of a literal
    does not reduce cheaply) -/
example : quoteL ['s', 'a', 'y', ' ', '"', 'h', 'i', '"'] = ['\'', 's', 'a', 'y', ' ', '"', 'h', 'i', '"', '\''] := by decide
example : quoteL ['\'', ' ', '"'] = ['"', '\'', ' ', '\\', 'x', '2', '2', '"'] := by decide
example : quoteL ['a', nul, 'b'] = ['"', 'a', '\\', 'u', '0', '0', '0', '0', 'b', '"'] := by decide
example : readLiteral ['"', 'a', '\\', 'u', '0', '0', '0', '0', 'b', '"', ' ', 'o', 'r'] = some (['a', nul, 'b'], [' ', 'o', 'r']) := by
  decide
/-- seed C07g's rendering (`'it's "ok"'`) is not read back -/
example : readLiteral (['\'', 'i', 't', '\'', 's', ' ', '"', 'o', 'k', '"', '\'']) ≠ some (['i', 't', '\'', 's', ' ', '"', 'o', 'k', '"'], []) := by
  decide

end C07
end DepLogic
