import DepLogic.Model.Generic
/-
  C19 — String-atom specifier algebra is exact wherever it is defined.
-/
namespace DepLogic
namespace C19

/-- `a & b` either raises `NotImplementedError` or returns a specifier satisfied by exactly
    the strings satisfying both – for every operator pair, every literal, every candidate,
    and every meaning of `in`. -/
theorem and_exact (sub : String → String → Bool) (a b : GSpec) (r : GRes)
    (h : GSpec.andWith sub a b = some r) (s : String) :
    r.containsWith sub s = (a.containsWith sub s && b.containsWith sub s) := by
  rcases a with ⟨ao, av⟩
  rcases b with ⟨bo, bv⟩
  cases ao <;> cases bo <;>
    simp [GSpec.andWith, GSpec.sort2, GOp.order] at h <;>
    (try split at h) <;> (try split at h) <;>
    simp_all [GRes.containsWith, GSpec.containsWith] <;>
    grind

theorem or_exact (sub : String → String → Bool) (a b : GSpec) (r : GRes)
    (h : GSpec.orWith sub a b = some r) (s : String) :
    r.containsWith sub s = (a.containsWith sub s || b.containsWith sub s) := by
  rcases a with ⟨ao, av⟩
  rcases b with ⟨bo, bv⟩
  cases ao <;> cases bo <;>
    simp [GSpec.orWith, GSpec.sort2, GOp.order] at h <;>
    (try split at h) <;> (try split at h) <;>
    simp_all [GRes.containsWith, GSpec.containsWith] <;>
    grind

/-- `~a` is satisfied exactly by the strings that do not satisfy `a` (all eight operators). -/
theorem invert_exact (sub : String → String → Bool) (a : GSpec) (s : String) :
    a.invert.containsWith sub s = !a.containsWith sub s := by
  rcases a with ⟨ao, av⟩
  have dec_le : ∀ a b : String, decide (a ≤ b) = !decide (b < a) := by
    intro a b
    by_cases h : b < a
    · simp [h, String.not_le.2 h]
    · simp [h, String.not_lt.1 h]
  cases ao <;> simp [GSpec.invert, GOp.invert, GSpec.containsWith, bne, dec_le] <;> rfl

/-- instantiated at Python's substring test -/
theorem and_exact' (a b : GSpec) (r : GRes) (h : a.and b = some r) (s : String) :
    r.contains s = (a.contains s && b.contains s) := and_exact strIn a b r h s
theorem or_exact' (a b : GSpec) (r : GRes) (h : a.or b = some r) (s : String) :
    r.contains s = (a.contains s || b.contains s) := or_exact strIn a b r h s

/-! non-vacuity: the table is defined on non-trivial inputs -/
example : (GSpec.mk .eq "linux").and (GSpec.mk .in_ "linux darwin") = some (.spec ⟨.eq, "linux"⟩) := by
  decide
example : (GSpec.mk .ne "a").or (GSpec.mk .notIn "abc") = some (.spec ⟨.ne, "a"⟩) := by decide
example : (GSpec.mk .in_ "ab").and (GSpec.mk .in_ "bc") = none := by decide

end C19
end DepLogic
