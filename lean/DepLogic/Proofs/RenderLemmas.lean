import DepLogic.Proofs.VersionOrder
/-
  What the rendering heuristics of `RangeSpecifier._simplified_form` / `UnionSpecifier._simplified_form`
  mean for the bounds: when the `~=` form is chosen the upper bound IS the next series of the lower
  one, when the `!=X.*` form is chosen the two bounds ARE `X.0` and `(X+1).0`.
-/
namespace DepLogic
open LinPre VOrd

theorem nth0_padZeros (l : List Nat) (n i : Nat) : nth0 (padZeros l n) i = nth0 l i := by
  unfold padZeros nth0
  by_cases h : i < l.length
  · simp [List.getD_eq_getElem?_getD, List.getElem?_append_left h]
  · have h' : l.length ≤ i := Nat.le_of_not_lt h
    simp only [List.getD_eq_getElem?_getD, List.getElem?_append_right h', List.getElem?_replicate]
    rw [List.getElem?_eq_none h']
    split <;> rfl

theorem padZeros_length (l : List Nat) (n : Nat) : (padZeros l n).length = Nat.max l.length n := by
  simp only [padZeros, List.length_append, List.length_replicate, Nat.max_def]
  split <;> omega

/-- before the first different index two equally long lists agree -/
theorem fdi_prefix : ∀ (x y : List Nat), x.length = y.length → ∀ i, i < firstDifferentIndex x y → nth0 x i = nth0 y i
  | [], [], _, i, _ => rfl
  | [], _ :: _, h, _, _ => by simp at h
  | _ :: _, [], h, _, _ => by simp at h
  | a :: as, b :: bs, hl, i, hi => by
    unfold firstDifferentIndex at hi
    by_cases hab : (a != b) = true
    · simp [hab] at hi
    · simp only [hab, Bool.false_eq_true, if_false] at hi
      have heq : a = b := by simpa using hab
      cases i with
      | zero => simp [nth0, heq]
      | succ j =>
        have hl' : as.length = bs.length := by simpa using hl
        have : j < firstDifferentIndex as bs := by
          cases as with
          | nil => simp at hi
          | cons a' as' =>
            cases bs with
            | nil => simp at hl'
            | cons b' bs' => simp only at hi; omega
        have ih := fdi_prefix as bs hl' j this
        simpa [nth0] using ih

/-- final releases with the same epoch and the same zero-padded release compare equal -/
theorem eqv_of_final_seq (a b : Ver) (ha : a.isFinal = true) (hb : b.isFinal = true) (he : a.epoch = b.epoch)
    (hs : ∀ i, nth0 a.release i = nth0 b.release i) : eqv a b := by
  have h1 : ¬ lt a b := by
    rw [lt_final a b ha hb]
    rintro (h | ⟨_, k, _, hk⟩)
    · omega
    · rw [hs k] at hk; omega
  have h2 : ¬ lt b a := by
    rw [lt_final b a hb ha]
    rintro (h | ⟨_, k, _, hk⟩)
    · omega
    · rw [hs k] at hk; omega
  exact ⟨(le_iff_not_lt a b).2 h2, (le_iff_not_lt b a).2 h1⟩

theorem nth0_cons_succ (a : Nat) (l : List Nat) (i : Nat) : nth0 (a :: l) (i + 1) = nth0 l i := by
  simp [nth0]

theorem nth0_of_drop_all_zero (l : List Nat) (k : Nat) (h : (l.drop k).all (· == 0) = true) (i : Nat) (hi : k ≤ i) :
    nth0 l i = 0 := by
  unfold nth0
  by_cases hl : i < l.length
  · rw [List.getD_eq_getElem?_getD, List.getElem?_eq_getElem hl]
    simp only [Option.getD_some]
    rw [List.all_eq_true] at h
    have hm : l[i] ∈ l.drop k := by
      rw [List.mem_drop_iff_getElem]
      exact ⟨i - k, by omega, by simp [Nat.add_sub_cancel' hi]⟩
    simpa using h _ hm
  · rw [List.getD_eq_getElem?_getD, List.getElem?_eq_none (Nat.le_of_not_lt hl)]; rfl

theorem nth0_take (l : List Nat) (n i : Nat) (h : i < n) : nth0 (l.take n) i = nth0 l i := by
  unfold nth0
  simp [List.getD_eq_getElem?_getD, List.getElem?_take, h]

/-- when `_simplified_form` chooses `~=mn` for `[mn, mx)` and `mx` is a final release,
    `mx` is (a spelling of) the next series of `mn` -/
theorem compat_render (mn mx : Ver) (h : compatForm mn mx = true) (hpost : mx.post = none) :
    ∃ nx, mn.nextSeries (mn.release.length - 1) = some nx ∧ eqv nx mx := by
  simp only [compatForm] at h
  -- abbreviations
  generalize hL : Nat.max (mn.epoch :: mn.release).length (mx.epoch :: mx.release).length = L at h
  generalize hfd : firstDifferentIndex (padZeros (mn.epoch :: mn.release) L) (padZeros (mx.epoch :: mx.release) L) = fd at h
  have hlen : (padZeros (mn.epoch :: mn.release) L).length = (padZeros (mx.epoch :: mx.release) L).length := by
    have h1 : (mn.epoch :: mn.release).length ≤ L := by rw [← hL]; exact Nat.le_max_left _ _
    have h2 : (mx.epoch :: mx.release).length ≤ L := by rw [← hL]; exact Nat.le_max_right _ _
    rw [padZeros_length, padZeros_length]; simp only [Nat.max_def, if_pos h1, if_pos h2]
  split at h
  · cases h
  · rename_i c1
    split at h
    · cases h
    · rename_i c2
      simp only [Bool.and_eq_true, Bool.not_eq_true', beq_iff_eq] at h
      obtain ⟨⟨hzero, hpre⟩, hlenfd⟩ := h
      simp only [Bool.or_eq_true, decide_eq_true_eq, beq_iff_eq, not_or] at c1
      have hfd0 : 0 < fd := by omega
      have hB : nth0 (mx.epoch :: mx.release) fd = nth0 (mn.epoch :: mn.release) fd + 1 := by
        have : ¬ ((padZeros (mx.epoch :: mx.release) L).getD fd 0 != (padZeros (mn.epoch :: mn.release) L).getD fd 0 + 1) = true := c2
        have h' : nth0 (padZeros (mx.epoch :: mx.release) L) fd = nth0 (padZeros (mn.epoch :: mn.release) L) fd + 1 := by
          simpa [nth0] using this
        rwa [nth0_padZeros, nth0_padZeros] at h'
      have hA : ∀ i, i < fd → nth0 (mn.epoch :: mn.release) i = nth0 (mx.epoch :: mx.release) i := by
        intro i hi
        have := fdi_prefix _ _ hlen i (by rw [hfd]; exact hi)
        rwa [nth0_padZeros, nth0_padZeros] at this
      have hC : ∀ i, fd < i → nth0 (mx.epoch :: mx.release) i = 0 := by
        intro i hi
        have := nth0_of_drop_all_zero _ _ hzero i (by omega)
        rwa [nth0_padZeros] at this
      have hep : mn.epoch = mx.epoch := by simpa [nth0] using hA 0 hfd0
      -- the next series exists
      have hn : mn.release.length - 1 = fd := by omega
      rw [hn]
      have htake : (mn.release.take fd).length = fd := by
        rw [List.length_take, Nat.min_def]; split <;> omega
      cases hns : mn.nextSeries fd with
      | none =>
        exfalso
        unfold Ver.nextSeries at hns
        cases hr : (mn.release.take fd).reverse with
        | nil =>
          have := congrArg List.length hr
          rw [List.length_reverse, htake] at this
          simp at this; omega
        | cons _ _ => simp [hr] at hns
      | some nx =>
        refine ⟨nx, rfl, ?_⟩
        obtain ⟨init, last, hil, hnx⟩ := nextSeries_eq mn fd nx hns
        have hinit : init.length = fd - 1 := by
          have := congrArg List.length hil
          simp at this; omega
        have hfin : mx.isFinal = true := by
          have hp : mx.isPrerelease = false := hpre
          simp only [Ver.isPrerelease, Bool.or_eq_false_iff] at hp
          rcases mx with ⟨e, r, pre, post, dev⟩
          cases pre <;> cases dev <;> simp_all [Ver.isFinal]
        subst hnx
        apply eqv_of_final_seq _ _ (by simp [Ver.releaseVersion, Ver.isFinal]) hfin (by simpa [Ver.releaseVersion] using hep)
        intro i
        simp only [Ver.releaseVersion]
        -- release of nx is init ++ [last + 1] ++ [0]
        have hrel : ∀ j, j < fd → nth0 mn.release j = nth0 (init ++ [last]) j := by
          intro j hj; rw [← hil, nth0_take _ _ _ hj]
        by_cases h1 : i < fd - 1
        · -- inside init
          have e1 : nth0 (init ++ [last + 1] ++ [0]) i = nth0 init i := by
            rw [List.append_assoc, nth0_append_left _ _ _ (by omega)]
          have e2 : nth0 init i = nth0 mn.release i := by
            rw [hrel i (by omega), nth0_append_left _ _ _ (by omega)]
          have e3 := hA (i + 1) (by omega)
          rw [nth0_cons_succ, nth0_cons_succ] at e3
          rw [e1, e2, e3]
        · by_cases h2 : i = fd - 1
          · have e1 : nth0 (init ++ [last + 1] ++ [0]) i = last + 1 := by
              rw [nth0_append_zero, h2, ← hinit, nth0_append_at]
            have e2 : last = nth0 mn.release (fd - 1) := by
              rw [hrel (fd - 1) (by omega), ← hinit, nth0_append_at]
            have e3 := hB
            have : fd = (fd - 1) + 1 := by omega
            rw [this, nth0_cons_succ, nth0_cons_succ] at e3
            rw [e1, e2, h2, e3]
          · have e1 : nth0 (init ++ [last + 1] ++ [0]) i = 0 := by
              rw [nth0_append_zero]; apply nth0_beyond; simp; omega
            have e3 := hC (i + 1) (by omega)
            rw [nth0_cons_succ] at e3
            rw [e1, e3]

theorem nth0_drop (l : List Nat) (k i : Nat) : nth0 (l.drop k) i = nth0 l (k + i) := by
  simp [nth0, List.getD_eq_getElem?_getD]

theorem nextSeries_isSome (p : Ver) (n : Nat) (hn : 0 < n) (hl : 0 < p.release.length) :
    ∃ nx, p.nextSeries n = some nx := by
  unfold Ver.nextSeries
  cases hr : (p.release.take n).reverse with
  | nil =>
    have := congrArg List.length hr
    rw [List.length_reverse, List.length_take, Nat.min_def] at this
    simp at this; split at this <;> omega
  | cons last init => exact ⟨_, rfl⟩

/-- when `!=p.*` is chosen for `(-inf, lm) ∪ [rm, +inf)` (both final), `lm` is `p.0` and `rm` is the
    next series of `p` -/
theorem wild_render (lm rm p : Ver) (h : wildForm lm rm = some p) (hl : lm.isFinal = true) (hr : rm.isFinal = true) :
    eqv (Ver.releaseVersion p.epoch p.release) lm ∧
    ∃ nx, p.nextSeries p.release.length = some nx ∧ eqv nx rm := by
  simp only [wildForm] at h
  generalize hL : Nat.max (lm.epoch :: lm.release).length (rm.epoch :: rm.release).length = L at h
  generalize hfd : firstDifferentIndex (padZeros (lm.epoch :: lm.release) L) (padZeros (rm.epoch :: rm.release) L) = fd at h
  have h1 : (lm.epoch :: lm.release).length ≤ L := by rw [← hL]; exact Nat.le_max_left _ _
  have h2 : (rm.epoch :: rm.release).length ≤ L := by rw [← hL]; exact Nat.le_max_right _ _
  have hlen : (padZeros (lm.epoch :: lm.release) L).length = (padZeros (rm.epoch :: rm.release) L).length := by
    rw [padZeros_length, padZeros_length]; simp only [Nat.max_def, if_pos h1, if_pos h2]
  have hlenL : (padZeros (lm.epoch :: lm.release) L).length = L := by
    rw [padZeros_length]; simp only [Nat.max_def, if_pos h1]
  split at h
  · rename_i c
    simp only [Bool.and_eq_true, decide_eq_true_eq, beq_iff_eq, List.all_append, Bool.not_eq_true'] at c
    obtain ⟨⟨⟨⟨hfd0, hfdL⟩, hB'⟩, hz1, hz2⟩, _⟩ := c
    simp only [Option.some.injEq] at h
    subst h
    have hB : nth0 (rm.epoch :: rm.release) fd = nth0 (lm.epoch :: lm.release) fd + 1 := by
      have h' : nth0 (padZeros (rm.epoch :: rm.release) L) fd = nth0 (padZeros (lm.epoch :: lm.release) L) fd + 1 := hB'
      rwa [nth0_padZeros, nth0_padZeros] at h'
    have hA : ∀ i, i < fd → nth0 (lm.epoch :: lm.release) i = nth0 (rm.epoch :: rm.release) i := by
      intro i hi
      have := fdi_prefix _ _ hlen i (by rw [hfd]; exact hi)
      rwa [nth0_padZeros, nth0_padZeros] at this
    have hCl : ∀ i, fd < i → nth0 (lm.epoch :: lm.release) i = 0 := by
      intro i hi
      have := nth0_of_drop_all_zero _ _ hz1 i (by omega)
      rwa [nth0_padZeros] at this
    have hCr : ∀ i, fd < i → nth0 (rm.epoch :: rm.release) i = 0 := by
      intro i hi
      have := nth0_of_drop_all_zero _ _ hz2 i (by omega)
      rwa [nth0_padZeros] at this
    have hep : lm.epoch = rm.epoch := by simpa [nth0] using hA 0 hfd0
    -- the prefix
    have hplen : ((padZeros (lm.epoch :: lm.release) L).drop 1 |>.take fd).length = fd := by
      rw [List.length_take, List.length_drop, hlenL, Nat.min_def]; split <;> omega
    have hp : ∀ i, i < fd → nth0 ((padZeros (lm.epoch :: lm.release) L).drop 1 |>.take fd) i = nth0 lm.release i := by
      intro i hi
      rw [nth0_take _ _ _ hi, nth0_drop, nth0_padZeros, Nat.add_comm, nth0_cons_succ]
    simp only
    constructor
    · apply eqv_of_final_seq _ _ (by simp [Ver.releaseVersion, Ver.isFinal]) hl (by simp [Ver.releaseVersion])
      intro i
      simp only [Ver.releaseVersion]
      rw [nth0_append_zero]
      by_cases hi : i < fd
      · exact hp i hi
      · rw [nth0_beyond _ _ (by rw [hplen]; omega)]
        have := hCl (i + 1) (by omega)
        rw [nth0_cons_succ] at this
        exact this.symm
    · obtain ⟨nx, hns⟩ := nextSeries_isSome
        { epoch := lm.epoch, release := (padZeros (lm.epoch :: lm.release) L).drop 1 |>.take fd } fd hfd0
        (by simp only; rw [hplen]; exact hfd0)
      ·
        rw [hplen]
        refine ⟨nx, hns, ?_⟩
        obtain ⟨init, last, hil, hnx⟩ := nextSeries_eq _ fd nx hns
        simp only at hil hnx
        rw [List.take_of_length_le (by rw [hplen]; exact Nat.le_refl _)] at hil
        have hinit : init.length = fd - 1 := by
          have := congrArg List.length hil
          rw [hplen] at this
          simp at this; omega
        subst hnx
        apply eqv_of_final_seq _ _ (by simp [Ver.releaseVersion, Ver.isFinal]) hr (by simpa [Ver.releaseVersion] using hep)
        intro i
        simp only [Ver.releaseVersion]
        have hrel : ∀ j, j < fd → nth0 lm.release j = nth0 (init ++ [last]) j := by
          intro j hj; rw [← hil, hp j hj]
        by_cases c1 : i < fd - 1
        · have e1 : nth0 (init ++ [last + 1] ++ [0]) i = nth0 init i := by
            rw [List.append_assoc, nth0_append_left _ _ _ (by omega)]
          have e2 : nth0 init i = nth0 lm.release i := by
            rw [hrel i (by omega), nth0_append_left _ _ _ (by omega)]
          have e3 := hA (i + 1) (by omega)
          rw [nth0_cons_succ, nth0_cons_succ] at e3
          rw [e1, e2, e3]
        · by_cases c2 : i = fd - 1
          · have e1 : nth0 (init ++ [last + 1] ++ [0]) i = last + 1 := by
              rw [nth0_append_zero, c2, ← hinit, nth0_append_at]
            have e2 : last = nth0 lm.release (fd - 1) := by
              rw [hrel (fd - 1) (by omega), ← hinit, nth0_append_at]
            have e3 := hB
            have : fd = (fd - 1) + 1 := by omega
            rw [this, nth0_cons_succ, nth0_cons_succ] at e3
            rw [e1, e2, c2, e3]
          · have e1 : nth0 (init ++ [last + 1] ++ [0]) i = 0 := by
              rw [nth0_append_zero]; apply nth0_beyond; simp; omega
            have e3 := hCr (i + 1) (by omega)
            rw [nth0_cons_succ] at e3
            rw [e1, e3]
  · cases h

end DepLogic
