import DepLogic.Proofs.VersionOrder
import DepLogic.Model.Pep440
/-
  `python_version` atoms versus `python_full_version`: the structured content of
  `_normalize_python_version_specifier`.

  An interpreter has `python_full_version = X.Y.Z…` (final) and `python_version = X.Y`.
  `pyNorm_sem`: a clause `op A.B` (or `op A`) evaluated on `X.Y` holds exactly when the normalised
  clause of single.py — `==`/`!=` ↦ `A.B.*`, `>` ↦ `>= A.(B+1)`, `<=` ↦ `< A.(B+1)`, `>=`/`<`/`~=`
  unchanged, a lone `A` read as `A.0` — holds on `X.Y.Z…`.
-/
namespace DepLogic
open LinPre VOrd

/-- the final release with these components (epoch 0) -/
def fin (r : List Nat) : Ver := { release := r }

theorem fin_final (r : List Nat) : (fin r).isFinal = true := rfl

theorem seqLt_nil_right (x : List Nat) : ¬ seqLt x [] := by
  rintro ⟨k, _, h⟩; simp at h

theorem lt_fin (x y : List Nat) : lt (fin x) (fin y) ↔ seqLt x y := by
  rw [lt_final _ _ (fin_final x) (fin_final y)]
  simp [fin]

theorem le_fin (x y : List Nat) : le (fin x) (fin y) ↔ ¬ seqLt y x := by
  rw [le_iff_not_lt, lt_fin]

/-- two components against two components -/
theorem seqLt22 (A B X Y : Nat) : seqLt [A, B] [X, Y] ↔ (A < X ∨ (A = X ∧ B < Y)) := by
  rw [seqLt_cons, seqLt_cons]
  have : ¬ seqLt ([] : List Nat) [] := seqLt_nil_right []
  constructor
  · rintro (h | ⟨h, h' | ⟨_, h'⟩⟩)
    · exact Or.inl h
    · exact Or.inr ⟨h, h'⟩
    · exact absurd h' this
  · rintro (h | ⟨h, h'⟩)
    · exact Or.inl h
    · exact Or.inr ⟨h, Or.inl h'⟩

/-- a full version below a two-component bound -/
theorem seqLt_full_two (A B X Y : Nat) (zs : List Nat) : seqLt (X :: Y :: zs) [A, B] ↔ (X < A ∨ (X = A ∧ Y < B)) := by
  rw [seqLt_cons, seqLt_cons]
  have : ¬ seqLt zs [] := seqLt_nil_right zs
  constructor
  · rintro (h | ⟨h, h' | ⟨_, h'⟩⟩)
    · exact Or.inl h
    · exact Or.inr ⟨h, h'⟩
    · exact absurd h' this
  · rintro (h | ⟨h, h'⟩)
    · exact Or.inl h
    · exact Or.inr ⟨h, Or.inl h'⟩

/-- a two-component bound strictly below a full version -/
theorem seqLt_two_full (A B X Y : Nat) (zs : List Nat) :
    seqLt [A, B] (X :: Y :: zs) ↔ (A < X ∨ (A = X ∧ (B < Y ∨ (B = Y ∧ seqLt [] zs)))) := by
  rw [seqLt_cons, seqLt_cons]

theorem wild2 (A B X Y : Nat) (zs : List Nat) :
    Pep440.wildMatch (fin [A, B]) (fin (X :: Y :: zs)) = true ↔ (A = X ∧ B = Y) := by
  simp only [Pep440.wildMatch, fin, beq_self_eq_true, Bool.true_and, prefixMatch_iff, agrees]
  constructor
  · intro h
    have h0 := h 0 (by simp)
    have h1 := h 1 (by simp)
    simp at h0 h1
    exact ⟨h0.symm, h1.symm⟩
  · rintro ⟨rfl, rfl⟩ i hi
    simp at hi
    match i, hi with
    | 0, _ => simp
    | 1, _ => simp

theorem wild1 (A X Y : Nat) (zs : List Nat) :
    Pep440.wildMatch (fin [A]) (fin (X :: Y :: zs)) = true ↔ A = X := by
  simp only [Pep440.wildMatch, fin, beq_self_eq_true, Bool.true_and, prefixMatch_iff, agrees]
  constructor
  · intro h
    have h0 := h 0 (by simp)
    simp at h0
    exact h0.symm
  · rintro rfl i hi
    simp at hi
    subst hi; simp

theorem dec_eq {p q : Prop} [Decidable p] [Decidable q] (h : p ↔ q) : decide p = decide q :=
  decide_eq_decide.2 h

/-- the structured normalisation: what the string surgery of `_normalize_python_version_specifier`
    does to a clause whose version has two components -/
def normClause2 (op : COp) (A B : Nat) : Clause Ver :=
  match op with
  | .eq => ⟨.eq, fin [A, B], true⟩
  | .ne => ⟨.ne, fin [A, B], true⟩
  | .gt => ⟨.ge, fin [A, B + 1], false⟩
  | .le => ⟨.lt, fin [A, B + 1], false⟩
  | o => ⟨o, fin [A, B], false⟩

/-- **python_version op "A.B"  ⇔  the normalised clause on python_full_version** -/
theorem pyNorm_sem (op : COp) (A B X Y : Nat) (zs : List Nat) :
    Pep440.matchesFinal ⟨op, fin [A, B], false⟩ (fin [X, Y]) =
      Pep440.matchesFinal (normClause2 op A B) (fin (X :: Y :: zs)) := by
  have hnil : ¬ seqLt ([] : List Nat) [] := seqLt_nil_right []
  have hz : ¬ seqLt zs [] := seqLt_nil_right zs
  cases op
  case gt =>
    show some (decide (lt (fin [A, B]) (fin [X, Y]))) = some (decide (le (fin [A, B + 1]) (fin (X :: Y :: zs))))
    congr 1; apply dec_eq; rw [lt_fin, le_fin, seqLt22, seqLt_full_two]; omega
  case ge =>
    show some (decide (le (fin [A, B]) (fin [X, Y]))) = some (decide (le (fin [A, B]) (fin (X :: Y :: zs))))
    congr 1; apply dec_eq; rw [le_fin, le_fin, seqLt22, seqLt_full_two]
  case lt =>
    show some (decide (lt (fin [X, Y]) (fin [A, B]))) = some (decide (lt (fin (X :: Y :: zs)) (fin [A, B])))
    congr 1; apply dec_eq; rw [lt_fin, lt_fin, seqLt22, seqLt_full_two]
  case le =>
    show some (decide (le (fin [X, Y]) (fin [A, B]))) = some (decide (lt (fin (X :: Y :: zs)) (fin [A, B + 1])))
    congr 1; apply dec_eq; rw [le_fin, lt_fin, seqLt22, seqLt_full_two]; omega
  case eq =>
    show some (decide (eqv (fin [A, B]) (fin [X, Y]))) = some (Pep440.wildMatch (fin [A, B]) (fin (X :: Y :: zs)))
    congr 1
    rw [Bool.eq_iff_iff, wild2, decide_eq_true_iff]
    simp only [eqv, le_fin, seqLt22]; omega
  case ne =>
    show some (!decide (eqv (fin [A, B]) (fin [X, Y]))) = some (!Pep440.wildMatch (fin [A, B]) (fin (X :: Y :: zs)))
    congr 2
    rw [Bool.eq_iff_iff, wild2, decide_eq_true_iff]
    simp only [eqv, le_fin, seqLt22]; omega
  case compat =>
    show (if (fin [A, B]).release.length < 2 then none
          else some (decide (le (fin [A, B]) (fin [X, Y])) &&
                     Pep440.wildMatch { epoch := (fin [A, B]).epoch, release := (fin [A, B]).release.dropLast } (fin [X, Y]))) =
         (if (fin [A, B]).release.length < 2 then none
          else some (decide (le (fin [A, B]) (fin (X :: Y :: zs))) &&
                     Pep440.wildMatch { epoch := (fin [A, B]).epoch, release := (fin [A, B]).release.dropLast } (fin (X :: Y :: zs))))
    have hlen : ¬ ((fin [A, B]).release.length < 2) := by simp [fin]
    rw [if_neg hlen, if_neg hlen]
    congr 1
    have hd : ({ epoch := (fin [A, B]).epoch, release := (fin [A, B]).release.dropLast } : Ver) = fin [A] := by
      simp [fin, List.dropLast]
    rw [hd, Bool.eq_iff_iff, Bool.and_eq_true, Bool.and_eq_true, decide_eq_true_iff, decide_eq_true_iff,
      wild1 A X Y zs, le_fin, le_fin, seqLt22, seqLt_full_two]
    have w1' := wild1 A X Y []
    rw [w1']

/-- a lone major `A` is read as `A.0` (for every operator but `~=`, which is invalid on one component) -/
theorem pad_one (op : COp) (h : op ≠ .compat) (A : Nat) (v : Ver) (hv : v.isFinal = true) :
    Pep440.matchesFinal ⟨op, fin [A], false⟩ v = Pep440.matchesFinal ⟨op, fin [A, 0], false⟩ v := by
  have e : eqv (fin [A]) (fin [A, 0]) := by
    constructor <;> (rw [le_fin]; rintro ⟨k, h1, h2⟩; match k with
      | 0 => simp at h2
      | 1 => simp at h2
      | k + 2 => simp at h2)
  have tr := @LinPre.le_trans Ver _
  have tot := @LinPre.le_total Ver _
  cases op <;> first | exact absurd rfl h | (simp only [Pep440.matchesFinal, Option.some.injEq, decide_eq_decide, lt, eqv] at e ⊢; grind)

end DepLogic
