import DepLogic.Model.Spec
/-
  Per-range lemmas: exactness of `&`, `|`, `~` on single ranges, preservation of
  non-degeneracy, and what `can_combine` / `is_strictly_lower` mean.
-/
namespace DepLogic
open LinPre
namespace Range
variable {α : Type} [LinPre α]

/-- unfold everything about two ranges and let `grind` do the order reasoning -/
macro "range_tac" : tactic => `(tactic|
  (have tot := @LinPre.le_total _ ‹LinPre _›
   have tr := @LinPre.le_trans _ ‹LinPre _›
   have rf := @LinPre.le_refl _ ‹LinPre _›
   simp [Range.and, Range.or, Range.mem, Range.WF, Range.ctorOk, Range.isSuperset, Range.allowsLower,
     Range.allowsHigher, Range.isStrictlyLower, Range.isAdjacentTo, Range.canCombine, Range.isAny,
     Range.beq, Spec.sep] <;>
   grind (splits := 80)))

theorem and_mem (s o : Range α) (v : α) :
    (match s.and o with | none => False | some r => r.mem v) ↔ (s.mem v ∧ o.mem v) := by
  rcases s with ⟨smin, smax, si, sa, st⟩
  rcases o with ⟨omin, omax, oi, oa, ot⟩
  cases smin <;> cases smax <;> cases omin <;> cases omax <;> range_tac

theorem and_WF (s o : Range α) (hs : s.WF) (ho : o.WF) :
    match s.and o with | none => True | some r => r.WF := by
  rcases s with ⟨smin, smax, si, sa, st⟩
  rcases o with ⟨omin, omax, oi, oa, ot⟩
  cases smin <;> cases smax <;> cases omin <;> cases omax <;> revert hs ho <;> range_tac

theorem or_mem (s o : Range α) (hs : s.WF) (ho : o.WF) (v : α) :
    (match s.or o with | .one r => r.mem v | .two a b => a.mem v ∨ b.mem v) ↔ (s.mem v ∨ o.mem v) := by
  rcases s with ⟨smin, smax, si, sa, st⟩
  rcases o with ⟨omin, omax, oi, oa, ot⟩
  cases smin <;> cases smax <;> cases omin <;> cases omax <;> revert hs ho <;> range_tac

theorem or_WF (s o : Range α) (hs : s.WF) (ho : o.WF) :
    match s.or o with
    | .one r => r.WF
    | .two a b => a.WF ∧ b.WF ∧ Spec.sep a b := by
  rcases s with ⟨smin, smax, si, sa, st⟩
  rcases o with ⟨omin, omax, oi, oa, ot⟩
  cases smin <;> cases smax <;> cases omin <;> cases omax <;> revert hs ho <;> range_tac

end Range
end DepLogic

namespace DepLogic
open LinPre
namespace Range
variable {α : Type} [LinPre α]

macro "three_ranges" s:ident o:ident c:ident : tactic => `(tactic|
  (rcases $s:ident with ⟨smin, smax, si, sa, st⟩
   rcases $o:ident with ⟨omin, omax, oi, oa, ot⟩
   rcases $c:ident with ⟨cmin, cmax, ci, ca, ct⟩
   cases smin <;> cases smax <;> cases omin <;> cases omax <;> cases cmin <;> cases cmax))

/-- an intersection stays below whatever either operand is below -/
theorem and_sep_right (s o c : Range α) (h : Spec.sep s c ∨ Spec.sep o c) :
    match s.and o with | none => True | some r => Spec.sep r c := by
  three_ranges s o c <;> revert h <;> range_tac

theorem and_sep_left (s o c : Range α) (h : Spec.sep c s ∨ Spec.sep c o) :
    match s.and o with | none => True | some r => Spec.sep c r := by
  three_ranges s o c <;> revert h <;> range_tac

theorem sep_trans (a b c : Range α) (hb : b.WF) (h1 : Spec.sep a b) (h2 : Spec.sep b c) :
    Spec.sep a c := by
  three_ranges a b c <;> revert hb h1 h2 <;> range_tac

theorem sep_not_mem (a b : Range α) (h : Spec.sep a b) (v : α) : ¬ (a.mem v ∧ b.mem v) := by
  rcases a with ⟨smin, smax, si, sa, st⟩
  rcases b with ⟨omin, omax, oi, oa, ot⟩
  cases smin <;> cases smax <;> cases omin <;> cases omax <;> revert h <;> range_tac

/-- `can_combine` ⇒ `|` gives one range -/
theorem or_one_of_canCombine (s o : Range α) (hs : s.WF) (ho : o.WF) (h : o.canCombine s = true) :
    match s.or o with | .one _ => True | .two _ _ => False := by
  rcases s with ⟨smin, smax, si, sa, st⟩
  rcases o with ⟨omin, omax, oi, oa, ot⟩
  cases smin <;> cases smax <;> cases omin <;> cases omax <;> revert hs ho h <;> range_tac

/-- not combinable and `other.allows_lower(range)`: `other` is separated below `range` -/
theorem sep_of_not_canCombine_lower (r o : Range α) (hr : r.WF) (ho : o.WF)
    (h : r.canCombine o = false) (hl : o.allowsLower r = true) : Spec.sep o r := by
  rcases r with ⟨smin, smax, si, sa, st⟩
  rcases o with ⟨omin, omax, oi, oa, ot⟩
  cases smin <;> cases smax <;> cases omin <;> cases omax <;> revert hr ho h hl <;> range_tac

theorem sep_of_not_canCombine_not_lower (r o : Range α) (hr : r.WF) (ho : o.WF)
    (h : r.canCombine o = false) (hl : o.allowsLower r = false) : Spec.sep r o := by
  rcases r with ⟨smin, smax, si, sa, st⟩
  rcases o with ⟨omin, omax, oi, oa, ot⟩
  cases smin <;> cases smax <;> cases omin <;> cases omax <;> revert hr ho h hl <;> range_tac

/-- a merged range stays above whatever both operands are above -/
theorem or_one_sep_left (s o c : Range α) (h1 : Spec.sep c s) (h2 : Spec.sep c o) :
    match s.or o with | .one r => Spec.sep c r | .two _ _ => True := by
  three_ranges s o c <;> revert h1 h2 <;> range_tac

end Range
end DepLogic
