import DepLogic.Proofs.SpecLemmas
/-
  `~` : `RangeSpecifier.__invert__` and the gap walk of `UnionSpecifier.__invert__`.
-/
namespace DepLogic
open LinPre
namespace Spec
variable {α : Type} [LinPre α]

/-- `v` lies above the whole range -/
def above (a : Range α) (v : α) : Prop :=
  match a.max with
  | none => False
  | some m => lt m v ∨ (eqv m v ∧ a.incMax = false)

/-- `v` lies below the whole range -/
def below (b : Range α) (v : α) : Prop :=
  match b.min with
  | none => False
  | some m => lt v m ∨ (eqv v m ∧ b.incMin = false)

def gapR (a b : Range α) : Range α :=
  { min := a.max, incMin := !a.incMax, max := b.min, incMax := !b.incMin }

macro "inv_tac" : tactic => `(tactic|
  (have tot := @LinPre.le_total _ ‹LinPre _›
   have tr := @LinPre.le_trans _ ‹LinPre _›
   have rf := @LinPre.le_refl _ ‹LinPre _›
   simp [Range.mem, Range.WF, Range.ctorOk, Spec.sep, above, below, gapR, Range.isAny] <;>
   grind (splits := 80)))

theorem not_mem_iff (b : Range α) (v : α) : ¬ b.mem v ↔ (below b v ∨ above b v) := by
  have tot := @LinPre.le_total α _
  rcases b with ⟨bmin, bmax, bi, ba, bt⟩
  cases bmin <;> cases bmax <;> simp only [Range.mem, above, below] <;> grind (splits := 80)

theorem gapR_mem (a b : Range α) (h : sep a b) (v : α) :
    (gapR a b).mem v ↔ (above a v ∧ below b v) := by
  rcases a with ⟨amin, amax, ai, aa, at'⟩
  rcases b with ⟨bmin, bmax, bi, ba, bt⟩
  cases amax <;> cases bmin <;> revert h <;> inv_tac

theorem gapR_WF (a b : Range α) (h : sep a b) : (gapR a b).WF := by
  rcases a with ⟨amin, amax, ai, aa, at'⟩
  rcases b with ⟨bmin, bmax, bi, ba, bt⟩
  cases amax <;> cases bmin <;> revert h <;> inv_tac

theorem above_of_sep (a b : Range α) (hb : b.WF) (h : sep a b) (v : α) (hv : above b v) :
    above a v := by
  rcases a with ⟨amin, amax, ai, aa, at'⟩
  rcases b with ⟨bmin, bmax, bi, ba, bt⟩
  cases amax <;> cases bmin <;> cases bmax <;> revert h hb hv <;> inv_tac

theorem not_mem_of_below_sep (b r : Range α) (hb : b.WF) (h : sep b r) (v : α) (hv : below b v) :
    ¬ r.mem v := by
  rcases r with ⟨amin, amax, ai, aa, at'⟩
  rcases b with ⟨bmin, bmax, bi, ba, bt⟩
  cases amin <;> cases amax <;> cases bmin <;> cases bmax <;> revert h hb hv <;> inv_tac

/-- a piece ending where `b` starts is separated from a piece starting where `b'` ends,
    for `b' = b` or `b'` above `b` -/
theorem sep_piece (b b' c g : Range α) (hb : b.WF) (hb' : b'.WF) (hbb : b' = b ∨ sep b b')
    (hc1 : c.max = b.min) (hc2 : c.incMax = !b.incMin) (hbm : b.min.isSome)
    (hg1 : g.min = b'.max) (hg2 : g.incMin = !b'.incMax) (hgm : b'.max.isSome) : sep c g := by
  rcases hbb with rfl | hbb
  · rcases b' with ⟨bmin, bmax, bi, ba, bt⟩
    rcases c with ⟨cmin, cmax, ci, ca, ct⟩
    rcases g with ⟨gmin, gmax, gi, ga, gt⟩
    simp only at hc1 hc2 hg1 hg2 hbm hgm
    subst hc1 hc2 hg1 hg2
    cases cmax <;> cases gmin <;> revert hb hbm hgm <;> inv_tac
  · rcases b with ⟨bmin, bmax, bi, ba, bt⟩
    rcases b' with ⟨bmin', bmax', bi', ba', bt'⟩
    rcases c with ⟨cmin, cmax, ci, ca, ct⟩
    rcases g with ⟨gmin, gmax, gi, ga, gt⟩
    simp only at hc1 hc2 hg1 hg2 hbm hgm
    subst hc1 hc2 hg1 hg2
    cases cmax <;> cases bmax <;> cases bmin' <;> cases gmin <;>
      revert hb hb' hbb hbm hgm <;> inv_tac

theorem sep_max_isSome (a b : Range α) (h : sep a b) : a.max.isSome ∧ b.min.isSome := by
  unfold sep at h
  cases ha : a.max <;> cases hb : b.min <;> simp [ha, hb] at h ⊢

theorem gaps_min (l : List (Range α)) (hl : l.Pairwise sep) : ∀ g ∈ gaps l,
    ∃ b' ∈ l, b'.max.isSome ∧ g.min = b'.max ∧ g.incMin = !b'.incMax := by
  match l with
  | [] => simp [gaps]
  | [x] =>
    intro g hg
    unfold gaps at hg
    cases hx : x.max with
    | none => simp [hx] at hg
    | some m =>
      simp [hx] at hg
      subst hg
      exact ⟨x, by simp, by simp [hx], by simp [hx], rfl⟩
  | a :: b :: rest =>
    intro g hg
    unfold gaps at hg
    simp only [List.mem_cons] at hg
    have hp := List.pairwise_cons.1 hl
    rcases hg with rfl | hg
    · exact ⟨a, by simp, (sep_max_isSome a b (hp.1 b (by simp))).1, rfl, rfl⟩
    · obtain ⟨b', hb', h⟩ := gaps_min (b :: rest) hp.2 g hg
      exact ⟨b', by simp at hb' ⊢; exact Or.inr hb', h⟩

theorem gaps_WF (l : List (Range α)) (hl : l.Pairwise sep) : ∀ g ∈ gaps l, g.WF := by
  match l with
  | [] => simp [gaps]
  | [x] =>
    intro g hg
    unfold gaps at hg
    cases hx : x.max with
    | none => simp [hx] at hg
    | some m =>
      simp [hx] at hg
      subst hg
      simp [Range.WF, Range.ctorOk]
  | a :: b :: rest =>
    intro g hg
    unfold gaps at hg
    simp only [List.mem_cons] at hg
    have hp := List.pairwise_cons.1 hl
    rcases hg with rfl | hg
    · exact gapR_WF a b (hp.1 b (by simp))
    · exact gaps_WF (b :: rest) hp.2 g hg

theorem gaps_pairwise (l : List (Range α)) (hl : Good l) : (gaps l).Pairwise sep := by
  match l with
  | [] => simp [gaps]
  | [x] =>
    unfold gaps
    cases hx : x.max <;> simp
  | a :: b :: rest =>
    unfold gaps
    have hp := List.pairwise_cons.1 hl.2
    have hgood : Good (b :: rest) := ⟨fun r hr => hl.1 r (by simp [hr]), hp.2⟩
    rw [List.pairwise_cons]
    refine ⟨?_, gaps_pairwise (b :: rest) hgood⟩
    intro g hg
    obtain ⟨b', hb', hsome, hmin, hinc⟩ := gaps_min (b :: rest) hp.2 g hg
    have hab := hp.1 b (by simp)
    have hbb : b' = b ∨ sep b b' := by
      simp only [List.mem_cons] at hb'
      rcases hb' with h | h
      · exact Or.inl h
      · exact Or.inr ((List.pairwise_cons.1 hp.2).1 b' h)
    exact sep_piece b b' _ g (hl.1 b (by simp)) (hl.1 b' (by simp [hb'])) hbb rfl rfl
      (sep_max_isSome a b hab).2 hmin hinc hsome

theorem gaps_mem (a : Range α) (rest : List (Range α)) (hl : Good (a :: rest)) (v : α) :
    LMem (gaps (a :: rest)) v ↔ (above a v ∧ ∀ r ∈ rest, ¬ r.mem v) := by
  match rest with
  | [] =>
    unfold gaps LMem
    cases hx : a.max with
    | none => simp [above, hx]
    | some m =>
      have tot := @LinPre.le_total α _
      simp [above, hx, Range.mem]
  | b :: rest' =>
    have hp := List.pairwise_cons.1 hl.2
    have hgood : Good (b :: rest') := ⟨fun r hr => hl.1 r (by simp [hr]), hp.2⟩
    have hab := hp.1 b (by simp)
    have hbWF := hl.1 b (by simp)
    have ih := gaps_mem b rest' hgood v
    have hg := gapR_mem a b hab v
    have hp2 := List.pairwise_cons.1 hp.2
    unfold gaps
    simp only [LMem, List.mem_cons, exists_eq_or_imp, forall_eq_or_imp] at ih ⊢
    change ((gapR a b).mem v ∨ _) ↔ _
    rw [hg]
    have ih' : (∃ r, r ∈ gaps (b :: rest') ∧ r.mem v) ↔ (above b v ∧ ∀ r ∈ rest', ¬ r.mem v) := ih
    rw [ih']
    constructor
    · rintro (⟨h1, h2⟩ | ⟨h1, h2⟩)
      · refine ⟨h1, (not_mem_iff b v).2 (Or.inl h2), ?_⟩
        intro r hr
        exact not_mem_of_below_sep b r hbWF (hp2.1 r hr) v h2
      · exact ⟨above_of_sep a b hbWF hab v h1, (not_mem_iff b v).2 (Or.inr h1), h2⟩
    · rintro ⟨h1, h2, h3⟩
      rcases (not_mem_iff b v).1 h2 with h | h
      · exact Or.inl ⟨h1, h⟩
      · exact Or.inr ⟨h, h3⟩

end Spec
end DepLogic
