import DepLogic.Proofs.CutMap
/-
  Canonical forms are unique — over the CUT extension of the bound type.

  A specifier object over bounds `α` is read as a set of *cuts* `(x, side)`: `side = 1` is the
  point `x` itself, `side = 0` / `side = 2` are the positions immediately below / above `x`.
  Over cuts, every structurally non-empty range has a member and two canonical objects with the
  same members are `==` (`canon_unique`) — for ANY linear preorder `α`, dense or not.  Because
  the operators commute with the embedding `x ↦ (x, 1)` (Proofs/CutMap.lean), the exactness
  theorems of C01 hold for cut membership too, and laws about sets become laws about objects.
-/
namespace DepLogic
open LinPre

structure Cut (α : Type) where
  pt : α
  side : Nat

namespace Cut
variable {α : Type} [LinPre α]

instance : LinPre (Cut α) where
  le a b := lt a.pt b.pt ∨ (eqv a.pt b.pt ∧ a.side ≤ b.side)
  decLe := fun a b => inferInstanceAs (Decidable (lt a.pt b.pt ∨ (eqv a.pt b.pt ∧ a.side ≤ b.side)))
  le_refl := fun a => Or.inr ⟨⟨LinPre.le_refl _, LinPre.le_refl _⟩, Nat.le_refl _⟩
  le_trans := by
    intro a b c h1 h2
    have t1 := @LinPre.le_trans α _
    have t2 := @LinPre.le_total α _
    simp only [lt, eqv] at *
    grind
  le_total := by
    intro a b
    have t2 := @LinPre.le_total α _
    simp only [lt, eqv] at *
    grind

theorem le_def (a b : Cut α) : le a b ↔ (lt a.pt b.pt ∨ (eqv a.pt b.pt ∧ a.side ≤ b.side)) := Iff.rfl

/-- the point itself -/
def ι : Emb α (Cut α) where
  f := fun a => ⟨a, 1⟩
  le_iff := by
    intro a b
    have t2 := @LinPre.le_total α _
    simp only [le_def, lt, eqv]
    grind

end Cut

namespace Range
variable {α : Type} [LinPre α]

def lowOK (r : Range α) (x : α) (s : Nat) : Prop :=
  match r.min with
  | none => True
  | some m => lt m x ∨ (eqv m x ∧ (1 < s ∨ (s = 1 ∧ r.incMin = true)))

def upOK (r : Range α) (x : α) (s : Nat) : Prop :=
  match r.max with
  | none => True
  | some M => lt x M ∨ (eqv x M ∧ (s < 1 ∨ (s = 1 ∧ r.incMax = true)))

/-- membership of the cut `(x, s)` -/
def memC (r : Range α) (x : α) (s : Nat) : Prop := r.lowOK x s ∧ r.upOK x s

theorem mem_cut (r : Range α) (x : α) (s : Nat) : (r.map Cut.ι.f).mem ⟨x, s⟩ ↔ r.memC x s := by
  have t1 := @LinPre.le_trans α _
  have t2 := @LinPre.le_total α _
  rcases r with ⟨m, M, i, j, t⟩
  cases m <;> cases M <;>
    simp only [mem, map, memC, lowOK, upOK, Cut.ι, Option.map_none, Option.map_some, lt, eqv, Cut.le_def, true_and, and_true] <;>
    grind

end Range

namespace Spec
variable {α : Type} [LinPre α]

/-- membership of the cut `(x, s)` in a specifier object -/
def memC (a : Spec α) (x : α) (s : Nat) : Prop := (a.map Cut.ι.f).mem ⟨x, s⟩

theorem memC_union (rs : List (Range α)) (t : Option (Clause α)) (x : α) (s : Nat) :
    (Spec.union rs t).memC x s ↔ ∃ r ∈ rs, r.memC x s := by
  simp only [memC, map_union, mem, List.mem_map]
  constructor
  · rintro ⟨_, ⟨a, ha, rfl⟩, hm⟩; exact ⟨a, ha, (Range.mem_cut a x s).1 hm⟩
  · rintro ⟨a, ha, hm⟩; exact ⟨_, ⟨a, ha, rfl⟩, (Range.mem_cut a x s).2 hm⟩

theorem memC_range (r : Range α) (x : α) (s : Nat) : (Spec.range r).memC x s ↔ r.memC x s :=
  Range.mem_cut r x s

/-- a point of the bound type is the cut at side 1 -/
theorem memC_point (a : Spec α) (v : α) : a.memC v 1 ↔ a.mem v := map_mem Cut.ι a v

end Spec

/-! ### witnesses -/
namespace Range
variable {α : Type} [LinPre α]

theorem wf_has_cut (r : Range α) (h : r.WF) (a0 : α) : ∃ x s, r.memC x s := by
  have t1 := @LinPre.le_trans α _
  have t2 := @LinPre.le_total α _
  have t3 := @LinPre.le_refl α _
  rcases r with ⟨m, M, i, j, t⟩
  cases m with
  | none =>
    cases M with
    | none => exact ⟨a0, 1, by simp [memC, lowOK, upOK]⟩
    | some M => exact ⟨M, 0, by simp [memC, lowOK, upOK, eqv, t3]⟩
  | some m =>
    refine ⟨m, if i then 1 else 2, ?_⟩
    cases M <;> cases i <;> simp [WF, ctorOk, memC, lowOK, upOK, lt, eqv] at h ⊢ <;> grind

theorem sep_disjoint (a b : Range α) (h : Spec.sep a b) (ha : a.WF) (hb : b.WF) (x : α) (s : Nat) :
    ¬ (a.upOK x s ∧ b.lowOK x s) := by
  have t1 := @LinPre.le_trans α _
  have t2 := @LinPre.le_total α _
  rcases a with ⟨am, aM, ai, aj, at'⟩; rcases b with ⟨bm, bM, bi, bj, bt⟩
  cases aM <;> cases bm <;> simp [Spec.sep, upOK, lowOK, lt, eqv] at h ⊢
  grind

/-- a cut below the start of the first range of a canonical list is below every later start -/
theorem below_all (q b : Range α) (hq : q.WF) (hs : Spec.sep q b) (x : α) (s : Nat)
    (h : ¬ q.lowOK x s) : ¬ b.lowOK x s := by
  have t1 := @LinPre.le_trans α _
  have t2 := @LinPre.le_total α _
  rcases q with ⟨qm, qM, qi, qj, qt⟩; rcases b with ⟨bm, bM, bi, bj, bt⟩
  cases qm <;> cases qM <;> cases bm <;> simp [Spec.sep, WF, ctorOk, lowOK, lt, eqv] at hq hs h ⊢
  grind

theorem lower_witness (r q : Range α) (hr : r.WF) (h : r.allowsLower q = true) :
    ∃ x s, r.memC x s ∧ ¬ q.lowOK x s := by
  have t1 := @LinPre.le_trans α _
  have t2 := @LinPre.le_total α _
  have t3 := @LinPre.le_refl α _
  rcases r with ⟨rm, rM, ri, rj, rt⟩; rcases q with ⟨qm, qM, qi, qj, qt⟩
  cases qm with
  | none => simp [allowsLower] at h
  | some n =>
    cases rm with
    | none =>
      cases rM with
      | none => exact ⟨n, 0, by simp [memC, lowOK, upOK, lt, eqv, t3]⟩
      | some M =>
        by_cases hMn : lt M n
        · refine ⟨M, 0, ?_, ?_⟩ <;> simp [memC, lowOK, upOK, lt, eqv, t3] at hMn ⊢ <;> grind
        · refine ⟨n, 0, ?_, ?_⟩ <;> simp [memC, lowOK, upOK, lt, eqv, t3] at hMn ⊢ <;> grind
    | some m =>
      refine ⟨m, if ri then 1 else 2, ?_, ?_⟩ <;>
        (cases rM <;> cases ri <;> simp [WF, ctorOk, allowsLower, memC, lowOK, upOK, lt, eqv] at hr h ⊢ <;> grind)

/-- same lower end -/
def sameStart (r q : Range α) : Prop :=
  match r.min, q.min with
  | none, none => True
  | some m, some n => eqv m n ∧ r.incMin = q.incMin
  | _, _ => False

def sameEnd (r q : Range α) : Prop :=
  match r.max, q.max with
  | none, none => True
  | some m, some n => eqv m n ∧ r.incMax = q.incMax
  | _, _ => False

theorem sameStart_of (r q : Range α) (hr : r.WF) (hq : q.WF) (h1 : r.allowsLower q = false) (h2 : q.allowsLower r = false) :
    sameStart r q := by
  have t2 := @LinPre.le_total α _
  rcases r with ⟨rm, rM, ri, rj, rt⟩; rcases q with ⟨qm, qM, qi, qj, qt⟩
  cases rm <;> cases qm <;> cases ri <;> cases qi <;>
    simp [allowsLower, sameStart, WF, ctorOk, lt, eqv] at hr hq h1 h2 ⊢ <;> grind

theorem sameEnd_of (r q : Range α) (hr : r.WF) (hq : q.WF) (h1 : r.allowsHigher q = false) (h2 : q.allowsHigher r = false) :
    sameEnd r q := by
  have t2 := @LinPre.le_total α _
  rcases r with ⟨rm, rM, ri, rj, rt⟩; rcases q with ⟨qm, qM, qi, qj, qt⟩
  cases rM <;> cases qM <;> cases rj <;> cases qj <;>
    simp [allowsHigher, sameEnd, WF, ctorOk, lt, eqv] at hr hq h1 h2 ⊢ <;> grind

/-- `q` reaches higher than `r`: a cut of `q` above `r` and below everything separated from `r` -/
theorem upper_witness (r q : Range α) (hr : r.WF) (hq : q.WF) (hs : sameStart r q) (h : q.allowsHigher r = true) :
    ∃ x s, q.memC x s ∧ ¬ r.upOK x s ∧ ∀ a : Range α, Spec.sep r a → ¬ a.lowOK x s := by
  have t1 := @LinPre.le_trans α _
  have t2 := @LinPre.le_total α _
  have t3 := @LinPre.le_refl α _
  rcases r with ⟨rm, rM, ri, rj, rt⟩; rcases q with ⟨qm, qM, qi, qj, qt⟩
  cases rM with
  | none => simp [allowsHigher] at h
  | some M =>
    refine ⟨M, if rj then 2 else 1, ?_, ?_, ?_⟩
    · cases rm <;> cases qm <;> cases qM <;> cases rj <;>
        simp [WF, ctorOk, allowsHigher, sameStart, memC, lowOK, upOK, lt, eqv] at hr hq hs h ⊢ <;> grind
    · cases rj <;> simp [upOK, lt, eqv, t3]
    · intro a hsep
      rcases a with ⟨am, aM, ai, aj, at'⟩
      cases am <;> cases rj <;> simp [Spec.sep, lowOK, lt, eqv] at hsep ⊢ <;> grind

theorem beq_of_same (r q : Range α) (hr : r.WF) (hq : q.WF) (h1 : sameStart r q) (h2 : sameEnd r q) : r.beq q = true := by
  rcases r with ⟨rm, rM, ri, rj, rt⟩; rcases q with ⟨qm, qM, qi, qj, qt⟩
  cases rm <;> cases qm <;> cases rM <;> cases qM <;> cases ri <;> cases qi <;> cases rj <;> cases qj <;>
    simp [sameStart, sameEnd, Range.beq, WF, ctorOk] at hr hq h1 h2 ⊢ <;> grind

theorem memC_of_beq (r q : Range α) (h : r.beq q = true) (x : α) (s : Nat) : r.memC x s ↔ q.memC x s := by
  have t1 := @LinPre.le_trans α _
  have t2 := @LinPre.le_total α _
  rcases r with ⟨rm, rM, ri, rj, rt⟩; rcases q with ⟨qm, qM, qi, qj, qt⟩
  cases rm <;> cases qm <;> cases rM <;> cases qM <;> simp [Range.beq, memC, lowOK, upOK, lt, eqv] at h ⊢ <;> grind

end Range

/-! ### lists of separated ranges -/
namespace Spec
variable {α : Type} [LinPre α]
open Range

def memCL (rs : List (Range α)) (x : α) (s : Nat) : Prop := ∃ r ∈ rs, r.memC x s

def CanonL (rs : List (Range α)) : Prop := (∀ r ∈ rs, r.WF) ∧ rs.Pairwise sep

def beqL (xs ys : List (Range α)) : Bool := xs.length == ys.length && (xs.zip ys).all fun p => p.1.beq p.2

theorem canonL_tail {r : Range α} {rs : List (Range α)} (h : CanonL (r :: rs)) : CanonL rs :=
  ⟨fun x hx => h.1 x (by simp [hx]), (List.pairwise_cons.1 h.2).2⟩

theorem sameStart_symm (r q : Range α) (h : sameStart r q) : sameStart q r := by
  rcases r with ⟨rm, rM, ri, rj, rt⟩; rcases q with ⟨qm, qM, qi, qj, qt⟩
  cases rm <;> cases qm <;> simp [sameStart, eqv] at h ⊢
  grind

theorem heads (r q : Range α) (as bs : List (Range α)) (hA : CanonL (r :: as)) (hB : CanonL (q :: bs))
    (h : ∀ x s, memCL (r :: as) x s ↔ memCL (q :: bs) x s) :
    r.beq q = true ∧ ∀ x s, memCL as x s ↔ memCL bs x s := by
  have hr : r.WF := hA.1 r (by simp)
  have hq : q.WF := hB.1 q (by simp)
  have sepA : ∀ a ∈ as, sep r a := (List.pairwise_cons.1 hA.2).1
  have sepB : ∀ b ∈ bs, sep q b := (List.pairwise_cons.1 hB.2).1
  -- neither starts lower
  have low : ∀ (r q : Range α) (as bs : List (Range α)), r.WF → q.WF → (∀ b ∈ bs, sep q b) →
      (∀ x s, memCL (r :: as) x s → memCL (q :: bs) x s) → r.allowsLower q = false := by
    intro r q as bs hr hq sepB h
    cases hl : r.allowsLower q
    · rfl
    · exfalso
      obtain ⟨x, s, hin, hlow⟩ := lower_witness r q hr hl
      obtain ⟨b, hb, hbm⟩ := h x s ⟨r, by simp, hin⟩
      simp only [List.mem_cons] at hb
      rcases hb with rfl | hb
      · exact hlow hbm.1
      · exact below_all q b hq (sepB b hb) x s hlow hbm.1
  have l1 := low r q as bs hr hq sepB (fun x s => (h x s).1)
  have l2 := low q r bs as hq hr sepA (fun x s => (h x s).2)
  have hs := sameStart_of r q hr hq l1 l2
  -- neither ends higher
  have high : ∀ (r q : Range α) (as bs : List (Range α)), r.WF → q.WF → sameStart r q → (∀ a ∈ as, sep r a) →
      (∀ x s, memCL (q :: bs) x s → memCL (r :: as) x s) → q.allowsHigher r = false := by
    intro r q as bs hr hq hs sepA h
    cases hl : q.allowsHigher r
    · rfl
    · exfalso
      obtain ⟨x, s, hin, hup, hlate⟩ := upper_witness r q hr hq hs hl
      obtain ⟨a, ha, ham⟩ := h x s ⟨q, by simp, hin⟩
      simp only [List.mem_cons] at ha
      rcases ha with rfl | ha
      · exact hup ham.2
      · exact hlate a (sepA a ha) ham.1
  have u1 := high r q as bs hr hq hs sepA (fun x s => (h x s).2)
  have u2 := high q r bs as hq hr (sameStart_symm r q hs) sepB (fun x s => (h x s).1)
  have he := sameEnd_of r q hr hq u2 u1
  have hb := beq_of_same r q hr hq hs he
  refine ⟨hb, ?_⟩
  have tails : ∀ (r q : Range α) (as bs : List (Range α)), r.WF → (∀ a ∈ as, a.WF) → (∀ a ∈ as, sep r a) →
      (∀ x s, q.memC x s → r.memC x s) →
      (∀ x s, memCL (r :: as) x s → memCL (q :: bs) x s) → ∀ x s, memCL as x s → memCL bs x s := by
    intro r q as bs hr hwa sepA hqr h x s ⟨a, ha, ham⟩
    obtain ⟨b, hb, hbm⟩ := h x s ⟨a, by simp [ha], ham⟩
    simp only [List.mem_cons] at hb
    rcases hb with rfl | hb
    · exact absurd ⟨(hqr x s hbm).2, ham.1⟩ (sep_disjoint r a (sepA a ha) hr (hwa a ha) x s)
    · exact ⟨b, hb, hbm⟩
  intro x s
  exact ⟨tails r q as bs hr (fun a ha => hA.1 a (by simp [ha])) sepA (fun x s => (memC_of_beq r q hb x s).2)
           (fun x s => (h x s).1) x s,
         tails q r bs as hq (fun a ha => hB.1 a (by simp [ha])) sepB (fun x s => (memC_of_beq r q hb x s).1)
           (fun x s => (h x s).2) x s⟩

/-- two canonical lists with the same cuts are the same list, up to `==` of bounds -/
theorem lists_unique (a0 : α) : ∀ (as bs : List (Range α)), CanonL as → CanonL bs →
    (∀ x s, memCL as x s ↔ memCL bs x s) → beqL as bs = true
  | [], [], _, _, _ => rfl
  | [], q :: bs, _, hB, h => by
    obtain ⟨x, s, hm⟩ := wf_has_cut q (hB.1 q (by simp)) a0
    obtain ⟨_, hr, _⟩ := (h x s).2 ⟨q, by simp, hm⟩
    simp at hr
  | r :: as, [], hA, _, h => by
    obtain ⟨x, s, hm⟩ := wf_has_cut r (hA.1 r (by simp)) a0
    obtain ⟨_, hr, _⟩ := (h x s).1 ⟨r, by simp, hm⟩
    simp at hr
  | r :: as, q :: bs, hA, hB, h => by
    obtain ⟨hb, ht⟩ := heads r q as bs hA hB h
    have ih := lists_unique a0 as bs (canonL_tail hA) (canonL_tail hB) ht
    simp only [beqL, List.length_cons, List.zip_cons_cons, List.all_cons, hb, Bool.true_and, Bool.and_eq_true,
      beq_iff_eq] at ih ⊢
    exact ⟨by omega, ih.2⟩

theorem memCL_of_beqL : ∀ (as bs : List (Range α)), beqL as bs = true → ∀ x s, memCL as x s ↔ memCL bs x s
  | [], [], _, _, _ => Iff.rfl
  | [], _ :: _, h, _, _ => by simp [beqL] at h
  | _ :: _, [], h, _, _ => by simp [beqL] at h
  | r :: as, q :: bs, h, x, s => by
    simp only [beqL, List.length_cons, List.zip_cons_cons, List.all_cons, Bool.and_eq_true, beq_iff_eq] at h
    have ih := memCL_of_beqL as bs (by simp only [beqL, Bool.and_eq_true, beq_iff_eq]; exact ⟨by omega, h.2.2⟩) x s
    have hd := memC_of_beq r q h.2.1 x s
    simp only [memCL, List.mem_cons, exists_eq_or_imp] at ih ⊢
    rw [hd]; exact or_congr Iff.rfl ih

/-- the list of ranges a specifier object denotes -/
def toL : Spec α → List (Range α)
  | .empty => []
  | .any => [{}]
  | .range r => [r]
  | .union rs _ => rs

theorem memC_toL (a : Spec α) (x : α) (s : Nat) : a.memC x s ↔ memCL (toL a) x s := by
  cases a with
  | empty => simp [memC, toL, memCL, mem]
  | any => simp [memC, toL, memCL, mem, Range.memC, lowOK, upOK]
  | range r => simp [memC_range, toL, memCL]
  | union rs t => simp [memC_union, toL, memCL]

theorem canonL_toL (a : Spec α) (h : Canon a) : CanonL (toL a) := by
  cases a with
  | empty => simp [toL, CanonL]
  | any => simp [toL, CanonL, WF, ctorOk]
  | range r => simpa [toL, CanonL, Canon] using h
  | union rs t => exact ⟨h.2.1, h.2.2⟩

/-- uniqueness of the canonical form: canonical objects with the same cuts are `==` -/
theorem canon_unique (a0 : α) (a b : Spec α) (ha : Canon a) (hb : Canon b)
    (h : ∀ x s, a.memC x s ↔ b.memC x s) : a.beq b = true := by
  have hl := lists_unique a0 (toL a) (toL b) (canonL_toL a ha) (canonL_toL b hb)
    (fun x s => by rw [← memC_toL, ← memC_toL]; exact h x s)
  have isAny_of : ∀ r : Range α, (({} : Range α).beq r = true ∨ r.beq {} = true) → r.isAny = true := by
    intro r h
    rcases r with ⟨m, M, i, j, t⟩
    cases m <;> cases M <;> simp [Range.beq, Range.isAny] at h ⊢
  cases a <;> cases b <;> simp only [toL, beqL, List.length_cons, List.length_nil] at hl <;>
    (try simp only [Spec.beq, isAny]) <;> (try simp at hl) <;> (try trivial)
  case empty.union => have := hb.1; omega
  case any.range => exact isAny_of _ (Or.inl hl)
  case any.union => have := hb.1; omega
  case range.any => exact isAny_of _ (Or.inr hl)
  case range.union => have := hb.1; omega
  case union.empty => have := ha.1; simp [hl] at this
  case union.any => have := ha.1; omega
  case union.range => have := ha.1; omega
  case union.union =>
    simp only [Bool.and_eq_true, beq_iff_eq, List.all_eq_true]
    exact ⟨hl.1, fun p hp => hl.2 p.1 p.2 hp⟩

end Spec
end DepLogic
