import DepLogic.Proofs.FromSpec
/-
  `LexNormOk` is a theorem: the string surgery of `_normalize_python_version_specifier`, applied to
  the operand text `from_specifier` writes for a clause over a plain final release, computes the
  structured normalisation `normClause2` (or returns the atom's own view).
-/
namespace DepLogic
namespace M
open LinPre VOrd Spec Lex SpecParse

/-! ### strings of digits -/

theorem toString_toList (n : Nat) : (toString n).toList = digs n := by simp [digs]

theorem ofList_digs (n : Nat) : String.ofList (digs n) = toString n := by
  rw [← toString_toList, String.ofList_toList]

theorem trimS_toString (n : Nat) : trimS (toString n) = toString n := by
  have : ' ' ∉ (toString n).toList := by rw [toString_toList]; exact not_mem_digs n ' ' (by decide)
  simp only [trimS, trimL_none _ this, String.ofList_toList]

theorem toString_ne_star (n : Nat) : toString n ≠ "*" := by
  intro h
  have := congrArg String.toList h
  rw [toString_toList] at this
  have hm : '*' ∈ digs n := by rw [this]; decide
  exact not_mem_digs n '*' (by decide) hm

theorem natOfDigits_toString' (n : Nat) : natOfDigits? (toString n).toList = some n := natOfDigits_toString n

/-! ### splitting the canonical text -/

theorem intercalate_snoc (sep : Char) : ∀ (ds : List (List Char)) (d : List Char), ds ≠ [] →
    [sep].intercalate (ds ++ [d]) = [sep].intercalate ds ++ sep :: d
  | [], _, h => absurd rfl h
  | [x], d, _ => by simp [List.intercalate, List.intersperse]
  | x :: y :: rest, d, _ => by
    have ih := intercalate_snoc sep (y :: rest) d (by simp)
    have e1 : [sep].intercalate (x :: y :: rest ++ [d]) = x ++ sep :: [sep].intercalate (y :: rest ++ [d]) := by
      simp [List.intercalate, List.intersperse]
    have e2 : [sep].intercalate (x :: y :: rest) = x ++ sep :: [sep].intercalate (y :: rest) := by
      simp [List.intercalate, List.intersperse]
    rw [show x :: y :: rest ++ [d] = x :: (y :: rest ++ [d]) from rfl] at *
    rw [e1, ih, e2]; simp

theorem splitDots_plain (s : String) (rel : List Nat) (h : rel ≠ []) (hs : s.toList = relText rel) :
    (splitDots s).map trimS = rel.map toString := by
  unfold splitDots
  rw [hs]
  have : splitOnChar '.' (relText rel) = rel.map digs := by
    apply splitOnChar_intercalate
    · simpa using h
    · intro d hd
      simp only [List.mem_map] at hd
      obtain ⟨n, _, rfl⟩ := hd
      exact not_mem_digs n '.' (by decide)
  rw [this, List.map_map, List.map_map]
  apply List.map_congr_left
  intro n _
  simp only [Function.comp, ofList_digs, trimS_toString]

theorem splitDots_wild (s : String) (rel : List Nat) (h : rel ≠ []) (hs : s.toList = relText rel ++ ['.', '*']) :
    (splitDots s).map trimS = rel.map toString ++ ["*"] := by
  unfold splitDots
  rw [hs]
  have e : relText rel ++ ['.', '*'] = ['.'].intercalate (rel.map digs ++ [['*']]) := by
    rw [intercalate_snoc '.' _ _ (by simpa using h)]; rfl
  have : splitOnChar '.' (relText rel ++ ['.', '*']) = rel.map digs ++ [['*']] := by
    rw [e]
    apply splitOnChar_intercalate
    · simp
    · intro d hd
      simp only [List.mem_append, List.mem_map, List.mem_singleton] at hd
      rcases hd with ⟨n, _, rfl⟩ | rfl
      · exact not_mem_digs n '.' (by decide)
      · decide
  rw [this, List.map_append, List.map_append, List.map_map, List.map_map]
  congr 1
  apply List.map_congr_left
  intro n _
  simp only [Function.comp, ofList_digs, trimS_toString]

theorem contains_star_false (rel : List Nat) : (rel.map toString).contains "*" = false := by
  induction rel with
  | nil => rfl
  | cons n ns ih =>
    simp only [List.map_cons, List.contains_cons, ih, Bool.or_false]
    exact beq_eq_false_iff_ne.mpr (fun e => toString_ne_star n e.symm)

/-! ### dropping trailing zero segments -/

def dropZGo : List Nat → Nat → List Nat
  | r, 0 => r
  | [], _ + 1 => []
  | x :: rest, n + 1 => if x == 0 then dropZGo rest n else x :: rest

def dropZ (l : List Nat) : List Nat := (dropZGo l.reverse (l.length - 2)).reverse

theorem go_map : ∀ (l : List Nat) (k : Nat), dropZeroSegs.go (l.map toString) k = (dropZGo l k).map toString
  | l, 0 => by cases l <;> simp [dropZeroSegs.go, dropZGo]
  | [], k + 1 => by simp [dropZeroSegs.go, dropZGo]
  | x :: rest, k + 1 => by
    simp only [List.map_cons, dropZeroSegs.go, dropZGo, natOfDigits_toString']
    by_cases hx : x = 0
    · subst hx; simp only [beq_self_eq_true, if_true]; exact go_map rest k
    · have h1 : (some x == some 0) = false := by simp [hx]
      have h2 : (x == 0) = false := by simp [hx]
      simp [h1, h2]

theorem dropZeroSegs_map (l : List Nat) : dropZeroSegs (l.map toString) = (dropZ l).map toString := by
  unfold dropZeroSegs dropZ
  rw [← List.map_reverse, List.length_map, go_map, List.map_reverse]

theorem dropZGo_spec : ∀ (r : List Nat) (k : Nat), ∃ j, dropZGo r k = r.drop j ∧ j ≤ k ∧ j ≤ r.length ∧ ∀ x ∈ r.take j, x = 0
  | r, 0 => ⟨0, by cases r <;> simp [dropZGo], Nat.le_refl _, Nat.zero_le _, by simp⟩
  | [], k + 1 => ⟨0, by simp [dropZGo], Nat.zero_le _, Nat.le_refl _, by simp⟩
  | x :: rest, k + 1 => by
    by_cases hx : x = 0
    · subst hx
      obtain ⟨j, h1, h2, h3, h4⟩ := dropZGo_spec rest k
      refine ⟨j + 1, by simp [dropZGo, h1], by omega, by simp; omega, ?_⟩
      intro y hy
      simp only [List.take_succ_cons, List.mem_cons] at hy
      rcases hy with rfl | hy
      · rfl
      · exact h4 y hy
    · have h2 : (x == 0) = false := by simp [hx]
      exact ⟨0, by simp [dropZGo, h2], Nat.zero_le _, Nat.zero_le _, by simp⟩

theorem dropZ_spec (l : List Nat) : ∃ j, dropZ l = l.take (l.length - j) ∧ j ≤ l.length - 2 ∧
    (∀ i, l.length - j ≤ i → nth0 l i = 0) := by
  obtain ⟨j, h1, h2, h3, h4⟩ := dropZGo_spec l.reverse (l.length - 2)
  refine ⟨j, ?_, h2, ?_⟩
  · unfold dropZ; rw [h1, List.reverse_drop, List.reverse_reverse, List.length_reverse]
  · intro i hi
    by_cases hlen : i < l.length
    · have hmem : l[i] ∈ l.reverse.take j := by
        rw [List.mem_take_iff_getElem]
        refine ⟨l.length - 1 - i, ?_, ?_⟩
        · simp only [List.length_reverse] at h3 ⊢; omega
        · simp [List.getElem_reverse]
          congr 1; omega
      have := h4 _ hmem
      simp [nth0, List.getD_eq_getElem?_getD, List.getElem?_eq_getElem hlen, this]
    · exact nth0_beyond l i (by omega)

theorem nth0_dropZ (l : List Nat) (i : Nat) : nth0 (dropZ l) i = nth0 l i := by
  obtain ⟨j, h1, _, h3⟩ := dropZ_spec l
  rw [h1]
  by_cases hi : i < l.length - j
  · exact nth0_take _ _ _ hi
  · rw [nth0_beyond _ _ (by simp [List.length_take]; omega), h3 i (by omega)]

theorem dropZGo_stop : ∀ (r : List Nat) (k : Nat), ∃ j, dropZGo r k = r.drop j ∧ j ≤ k ∧
    (j < k → (r.drop j).head? ≠ some 0)
  | r, 0 => ⟨0, by cases r <;> simp [dropZGo], Nat.le_refl _, fun h => absurd h (Nat.lt_irrefl _)⟩
  | [], k + 1 => ⟨0, by simp [dropZGo], Nat.zero_le _, by simp⟩
  | x :: rest, k + 1 => by
    by_cases hx : x = 0
    · subst hx
      obtain ⟨j, h1, h2, h3⟩ := dropZGo_stop rest k
      exact ⟨j + 1, by simp [dropZGo, h1], by omega, fun h => by simpa using h3 (by omega)⟩
    · have h2 : (x == 0) = false := by simp [hx]
      exact ⟨0, by simp [dropZGo, h2], Nat.zero_le _, fun _ => by simp [hx]⟩

/-- more than two segments survive only if a third-or-later component is non-zero -/
theorem dropZ_long (l : List Nat) (h : 2 < (dropZ l).length) : ∃ i, 2 ≤ i ∧ nth0 l i ≠ 0 := by
  obtain ⟨j, h1, h2, h3⟩ := dropZGo_stop l.reverse (l.length - 2)
  have hlen : (dropZ l).length = l.length - j := by
    unfold dropZ; rw [h1]; simp
  have hj : j < l.length - 2 := by omega
  have hne := h3 hj
  have hjl : j < l.reverse.length := by simp; omega
  rw [List.head?_drop, List.getElem?_eq_getElem hjl] at hne
  refine ⟨l.length - 1 - j, by omega, ?_⟩
  have hidx : l.length - 1 - j < l.length := by omega
  have : l.reverse[j] = l[l.length - 1 - j] := by
    rw [List.getElem_reverse]
  rw [this] at hne
  simp only [nth0, List.getD_eq_getElem?_getD, List.getElem?_eq_getElem hidx, Option.getD_some]
  intro h0; rw [h0] at hne; exact hne rfl

theorem dropZ_length (l : List Nat) (h : l ≠ []) : 1 ≤ (dropZ l).length := by
  obtain ⟨j, h1, h2, _⟩ := dropZ_spec l
  have : 1 ≤ l.length := List.length_pos_iff.2 h
  rw [h1, List.length_take]; omega

/-! ### reading the normalised text back -/

theorem toList_join_plain (R : List Nat) : (".".intercalate (R.map toString)).toList = relText R :=
  toList_relString R

theorem toList_join_star (R : List Nat) (hR : R ≠ []) :
    (".".intercalate (R.map toString ++ ["*"])).toList = relText R ++ ['.', '*'] := by
  rw [String.toList_intercalate]
  have : (R.map toString ++ ["*"]).map String.toList = R.map digs ++ [['*']] := by
    rw [List.map_append, List.map_map]
    congr 1
    apply List.map_congr_left; intro n _; exact toString_toList n
  rw [this]
  exact intercalate_snoc '.' _ _ (by simpa using hR)

/-- a clause text over a final release, as the specifier parser reads it -/
theorem parseSpecOpt_final (s : String) (op : COp) (R : List Nat) (hR : R ≠ []) (wild : Bool)
    (hw : wild = true → op = .eq ∨ op = .ne)
    (hs : s.toList = op.str.toList ++ (relText R ++ (if wild then ['.', '*'] else []))) :
    parseSpecOpt s = (fromClause ⟨op, { release := R }, wild⟩).map fun sn => (Spec.range {}).and sn := by
  obtain ⟨x, xs, hx, hxd⟩ := relText_head R hR
  have hclean : Clean s.toList := by
    rw [hs]
    have h1 := opChars_clean op
    have h2 := relText_clean R (if wild then ['.', '*'] else []) (by cases wild <;> simp [Clean])
    simp only [Clean, List.mem_append, not_or] at h1 h2 ⊢
    exact ⟨⟨h1.1, h2.1⟩, ⟨h1.2.1, h2.2.1⟩, ⟨h1.2.2, h2.2.2⟩⟩
  have hne : s.toList ≠ [] := by rw [hs, hx]; cases op <;> simp [COp.str]
  have hemp : s.toList ≠ "<empty>".toList := by
    rw [hs, hx]
    intro heq
    have hxe : x = 'e' := by
      cases op <;> simp [COp.str] at heq
      exact heq.1
    rw [hxe] at hxd; revert hxd; decide
  simp only [parseSpecOpt, parseSpecString]
  rw [parseAltsText_clean s hclean hne hemp, hs, parseClauseL_final op R hR wild hw]
  simp only [Option.map_some, parseAlts, List.foldl_nil, parseAlt, fromSpecifierSet, List.foldl_cons, Option.bind_some]
  cases fromClause (⟨op, { release := R }, wild⟩ : Clause Ver) <;> rfl

/-! ### the theorem -/

theorem pvBump_two (A B : Nat) : pvBump [toString A, toString B] = some [toString A, toString (B + 1)] := by
  have : [toString A, toString B].reverse = [toString B, toString A] := rfl
  unfold pvBump
  rw [this]
  simp only [natOfDigits_toString', Option.map_some]
  rfl

theorem fsText_pv (cop : COp) (rel : List Nat) (w : Bool) :
    fsText "python_version" ⟨cop, { release := rel }, w⟩ =
      ".".intercalate (rel.map toString) ++ (if w then ".*" else "") := by
  simp [fsText, fsPad, Ver.str]

theorem all_digits_map (l : List Nat) :
    (l.map toString).all (fun p => (natOfDigits? p.toList).isSome) = true := by
  rw [List.all_eq_true]
  intro p hp
  obtain ⟨n, _, rfl⟩ := List.mem_map.1 hp
  rw [natOfDigits_toString']; rfl

/-- the shape of the normalisation for any atom with these fields -/
theorem norm_shape (a : Atom) (cop : COp) (rel : List Nat) (w : Bool) (hrel : rel ≠ [])
    (hname : a.name = "python_version") (hop : a.op = MOp.ofCOp cop) (hrev : a.reversed = false)
    (hval : a.value = ".".intercalate (rel.map toString) ++ (if w then ".*" else ""))
    (hwf : a.WF) (ns : ASpec) (hns : normalizePythonVersion a = some ns) :
    NormShape a ⟨cop, { release := rel }, w⟩ ns := by
  rcases a with ⟨name, op, value, rev, spec⟩
  simp only at hname hop hrev hval
  subst hname; subst hop; subst hrev; subst hval
  have hopn : (MOp.ofCOp cop == MOp.in_ || MOp.ofCOp cop == MOp.notIn) = false := by cases cop <;> rfl
  unfold normalizePythonVersion at hns
  simp only [hopn, Bool.false_eq_true, if_false] at hns
  show (ns = spec ∧ _) ∨ _
  cases w with
  | true =>
    -- wildcard operand: returned unchanged
    left
    have hs0 : (splitDots (".".intercalate (rel.map toString) ++ ".*")).map trimS = rel.map toString ++ ["*"] :=
      splitDots_wild _ rel hrel (by rw [String.toList_append, toList_join_plain]; rfl)
    simp only [if_true, hs0] at hns
    have : (rel.map toString ++ ["*"]).contains "*" = true := by simp
    simp only [this, if_true] at hns
    split at hns
    · rename_i hlen
      simp only [Option.some.injEq] at hns
      exact ⟨hns.symm, Or.inl rfl, by simpa using hlen⟩
    · simp at hns
  | false =>
    have hs0 : (splitDots (".".intercalate (rel.map toString) ++ "")).map trimS = rel.map toString :=
      splitDots_plain _ rel hrel (by rw [String.append_empty, toList_join_plain])
    simp only [Bool.false_eq_true, if_false, hs0, contains_star_false] at hns
    by_cases hcomp : cop = .compat
    · -- `~=`: no dropping, no padding, the same text again
      subst hcomp
      left
      simp only [MOp.ofCOp, bne_self_eq_false, Bool.false_eq_true, if_false, Bool.and_false, all_digits_map,
        Bool.not_true, Bool.or_false] at hns
      split at hns
      · simp at hns
      · rename_i hlen
        refine ⟨?_, Or.inr rfl, by simpa using hlen⟩
        simp only [pvTarget, Option.bind_some] at hns
        unfold Atom.WF getSpecifier at hwf
        simp only [MOp.ofCOp] at hwf
        have hvl : versionLikeNames.contains "python_version" = true := by decide
        simp only [hvl, Bool.not_true, Bool.false_eq_true, if_false] at hwf
        have hne : (MOp.compat == MOp.in_ || MOp.compat == MOp.notIn) = false := rfl
        simp only [hne, Bool.false_eq_true, if_false, String.append_empty] at hwf
        rw [hwf] at hns
        simp only [Option.some.injEq] at hns
        exact hns.symm
    · have hb : (MOp.ofCOp cop != MOp.compat) = true := by cases cop <;> first | rfl | exact absurd rfl hcomp
      simp only [hb, if_true, dropZeroSegs_map, List.length_map, Bool.and_true, all_digits_map, Bool.not_true,
        Bool.or_false] at hns
      split at hns
      · simp at hns
      · rename_i hlen
        right
        have hlen1 := dropZ_length rel hrel
        -- the two components
        obtain ⟨A, B, hAB, hseq⟩ : ∃ A B,
            (if ((dropZ rel).length == 1) = true then (dropZ rel).map toString ++ ["0"] else (dropZ rel).map toString)
              = [toString A, toString B] ∧ ∀ i, nth0 rel i = nth0 [A, B] i := by
          cases hd : dropZ rel with
          | nil => rw [hd] at hlen1; simp at hlen1
          | cons a t =>
            cases t with
            | nil =>
              refine ⟨a, 0, by simp; rfl, ?_⟩
              intro i; rw [← nth0_dropZ rel i, hd]
              match i with
              | 0 => simp
              | 1 => simp
              | i + 2 => simp
            | cons b t' =>
              cases t' with
              | nil =>
                exact ⟨a, b, by simp, fun i => by rw [← nth0_dropZ rel i, hd]⟩
              | cons _ _ => rw [hd] at hlen; simp at hlen
        rw [hAB] at hns
        refine ⟨A, B, ?_⟩
        have target : ∀ (o : COp) (R : List Nat) (wild : Bool), R ≠ [] → (wild = true → o = .eq ∨ o = .ne) →
            ∀ l : List String, (".".intercalate l).toList = relText R ++ (if wild then ['.', '*'] else []) →
            (parseSpecOpt ((MOp.ofCOp o).str ++ ".".intercalate l)).map ASpec.ver = some ns →
            ∃ sn, fromClause ⟨o, { release := R }, wild⟩ = some sn ∧ ns = .ver ((Spec.range {}).and sn) := by
          intro o R wild hR hw l hl hp
          rw [parseSpecOpt_final _ o R hR wild hw (by rw [String.toList_append, mop_str, hl])] at hp
          cases hfc : fromClause (⟨o, { release := R }, wild⟩ : Clause Ver) with
          | none => simp [hfc] at hp
          | some sn => simp only [hfc, Option.map_some, Option.some.injEq] at hp; exact ⟨sn, rfl, hp.symm⟩
        have joinAB : ∀ X Y : Nat, (".".intercalate [toString X, toString Y]).toList = relText [X, Y] ++ [] := by
          intro X Y; rw [List.append_nil]; exact toList_join_plain [X, Y]
        have joinABs : ∀ X Y : Nat, (".".intercalate ([toString X, toString Y] ++ ["*"])).toList = relText [X, Y] ++ ['.', '*'] := by
          intro X Y; exact toList_join_star [X, Y] (by simp)
        cases cop
        case compat => exact absurd rfl hcomp
        case eq =>
          simp only [MOp.ofCOp, pvTarget, Option.bind_some] at hns
          obtain ⟨sn, h1, h2⟩ := target .eq [A, B] true (by simp) (fun _ => Or.inl rfl) _ (joinABs A B) hns
          exact ⟨sn, rfl, (by intro h; cases h), rfl, rfl, hseq, h1, h2⟩
        case ne =>
          simp only [MOp.ofCOp, pvTarget, Option.bind_some] at hns
          obtain ⟨sn, h1, h2⟩ := target .ne [A, B] true (by simp) (fun _ => Or.inr rfl) _ (joinABs A B) hns
          exact ⟨sn, rfl, (by intro h; cases h), rfl, rfl, hseq, h1, h2⟩
        case gt =>
          simp only [MOp.ofCOp, pvTarget, pvBump_two, Option.map_some, Option.bind_some] at hns
          obtain ⟨sn, h1, h2⟩ := target .ge [A, B + 1] false (by simp) (fun h => by cases h) _ (joinAB A (B + 1)) hns
          exact ⟨sn, rfl, (by intro h; cases h), rfl, rfl, hseq, h1, h2⟩
        case le =>
          simp only [MOp.ofCOp, pvTarget, pvBump_two, Option.map_some, Option.bind_some] at hns
          obtain ⟨sn, h1, h2⟩ := target .lt [A, B + 1] false (by simp) (fun h => by cases h) _ (joinAB A (B + 1)) hns
          exact ⟨sn, rfl, (by intro h; cases h), rfl, rfl, hseq, h1, h2⟩
        case ge =>
          simp only [MOp.ofCOp, pvTarget, Option.bind_some] at hns
          obtain ⟨sn, h1, h2⟩ := target .ge [A, B] false (by simp) (fun h => by cases h) _ (joinAB A B) hns
          exact ⟨sn, rfl, (by intro h; cases h), rfl, rfl, hseq, h1, h2⟩
        case lt =>
          simp only [MOp.ofCOp, pvTarget, Option.bind_some] at hns
          obtain ⟨sn, h1, h2⟩ := target .lt [A, B] false (by simp) (fun h => by cases h) _ (joinAB A B) hns
          exact ⟨sn, rfl, (by intro h; cases h), rfl, rfl, hseq, h1, h2⟩

/-- **`LexNormOk` holds** -/
theorem lexNorm_final : LexNormOk := by
  intro c spec ns hv hwf hns
  rcases c with ⟨cop, v, w⟩
  obtain ⟨rel, rfl⟩ : ∃ rel, v = { release := rel } := by
    rcases v with ⟨e, r, pre, post, dev⟩
    have h1 := hv.1; have h2 := hv.2.1
    simp only at h2; subst h2
    cases pre <;> cases post <;> cases dev <;> simp [Ver.isFinal] at h1
    exact ⟨r, rfl⟩
  exact norm_shape _ cop rel w hv.2.2 rfl rfl rfl (fsText_pv cop rel w) hwf ns hns

end M
end DepLogic
