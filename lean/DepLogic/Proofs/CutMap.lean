import DepLogic.Proofs.SpecTheorems
/-
  Order embeddings commute with every specifier operation.

  `range.py`/`union.py` only ever COMPARE bounds, so the whole algebra is natural in the bound
  type: mapping all bounds through an order embedding `f` and then operating is the same as
  operating and then mapping.  Used with the embedding of a bound type into its "cut"
  extension (Proofs/CanonUnique.lean) to read specifier objects as sets over a line on which
  canonical forms are unique, whatever the bound type (PEP 440 versions are not dense).
-/
namespace DepLogic
open LinPre

/-- an order embedding between linear preorders -/
structure Emb (α β : Type) [LinPre α] [LinPre β] where
  f : α → β
  le_iff : ∀ a b, le (f a) (f b) ↔ le a b

namespace Emb
variable {α β : Type} [LinPre α] [LinPre β] (e : Emb α β)

theorem lt_iff (a b : α) : lt (e.f a) (e.f b) ↔ lt a b := not_congr (e.le_iff b a)
theorem eqv_iff (a b : α) : eqv (e.f a) (e.f b) ↔ eqv a b := and_congr (e.le_iff a b) (e.le_iff b a)
@[simp] theorem dlt (a b : α) : decide (lt (e.f a) (e.f b)) = decide (lt a b) := decide_eq_decide.2 (e.lt_iff a b)
@[simp] theorem deqv (a b : α) : decide (eqv (e.f a) (e.f b)) = decide (eqv a b) := decide_eq_decide.2 (e.eqv_iff a b)
@[simp] theorem dle (a b : α) : decide (le (e.f a) (e.f b)) = decide (le a b) := decide_eq_decide.2 (e.le_iff a b)
end Emb

def Clause.map {α β : Type} (f : α → β) (c : Clause α) : Clause β := { op := c.op, ver := f c.ver, wild := c.wild }

namespace Range
variable {α β : Type} [LinPre α] [LinPre β]

def map (f : α → β) (r : Range α) : Range β :=
  { min := r.min.map f, max := r.max.map f, incMin := r.incMin, incMax := r.incMax, text := r.text.map (Clause.map f) }

variable (e : Emb α β)

@[simp] theorem map_isAny (r : Range α) : (r.map e.f).isAny = r.isAny := by
  cases r with | mk mn mx a b t => cases mn <;> cases mx <;> rfl

@[simp] theorem map_allowsLower (s o : Range α) : (s.map e.f).allowsLower (o.map e.f) = s.allowsLower o := by
  rcases s with ⟨sm, sx, si, sj, st⟩; rcases o with ⟨om, ox, oi, oj, ot⟩
  cases sm <;> cases om <;> simp [allowsLower, map]

@[simp] theorem map_allowsHigher (s o : Range α) : (s.map e.f).allowsHigher (o.map e.f) = s.allowsHigher o := by
  rcases s with ⟨sm, sx, si, sj, st⟩; rcases o with ⟨om, ox, oi, oj, ot⟩
  cases sx <;> cases ox <;> simp [allowsHigher, map]

@[simp] theorem map_isStrictlyLower (s o : Range α) : (s.map e.f).isStrictlyLower (o.map e.f) = s.isStrictlyLower o := by
  rcases s with ⟨sm, sx, si, sj, st⟩; rcases o with ⟨om, ox, oi, oj, ot⟩
  cases sx <;> cases om <;> simp [isStrictlyLower, map]

@[simp] theorem map_isAdjacentTo (s o : Range α) : (s.map e.f).isAdjacentTo (o.map e.f) = s.isAdjacentTo o := by
  rcases s with ⟨sm, sx, si, sj, st⟩; rcases o with ⟨om, ox, oi, oj, ot⟩
  cases sx <;> cases om <;> simp [isAdjacentTo, map]

@[simp] theorem map_isSuperset (s o : Range α) : (s.map e.f).isSuperset (o.map e.f) = s.isSuperset o := by
  rcases s with ⟨sm, sx, si, sj, st⟩; rcases o with ⟨om, ox, oi, oj, ot⟩
  cases sm <;> cases om <;> cases sx <;> cases ox <;> simp [isSuperset, map]

@[simp] theorem map_canCombine (s o : Range α) : (s.map e.f).canCombine (o.map e.f) = s.canCombine o := by
  simp [canCombine]

theorem map_and (s o : Range α) : (s.map e.f).and (o.map e.f) = (s.and o).map (map e.f) := by
  simp only [Range.and, map_isSuperset, map_allowsLower, map_isStrictlyLower, map_allowsHigher]
  cases s.isSuperset o <;> cases o.isSuperset s <;> cases s.allowsLower o <;> cases s.allowsHigher o <;>
    cases s.isStrictlyLower o <;> cases o.isStrictlyLower s <;> simp [map]

def OrRes.map (f : α → β) : OrRes α → OrRes β
  | .one r => .one (r.map f)
  | .two a b => .two (a.map f) (b.map f)

theorem map_or (s o : Range α) : (s.map e.f).or (o.map e.f) = (s.or o).map e.f := by
  simp only [Range.or, map_isSuperset, map_allowsLower, map_isStrictlyLower, map_allowsHigher, map_isAdjacentTo]
  cases s.isSuperset o <;> cases o.isSuperset s <;> cases s.allowsLower o <;> cases s.allowsHigher o <;>
    cases s.isStrictlyLower o <;> cases o.isStrictlyLower s <;> cases s.isAdjacentTo o <;> cases o.isAdjacentTo s <;>
    simp [map, OrRes.map]

@[simp] theorem map_beq (a b : Range α) : (a.map e.f).beq (b.map e.f) = a.beq b := by
  rcases a with ⟨am, ax, ai, aj, at'⟩; rcases b with ⟨bm, bx, bi, bj, bt⟩
  cases am <;> cases bm <;> cases ax <;> cases bx <;> simp [Range.beq, map]

theorem map_WF (r : Range α) : (r.map e.f).WF ↔ r.WF := by
  rcases r with ⟨m, x, i, j, t⟩
  cases m <;> cases x <;> simp [WF, ctorOk, map, e.lt_iff, e.eqv_iff]

theorem map_mem (r : Range α) (v : α) : (r.map e.f).mem (e.f v) ↔ r.mem v := by
  rcases r with ⟨m, x, i, j, t⟩
  cases m <;> cases x <;> simp [mem, map, e.lt_iff, e.eqv_iff]

end Range

namespace Spec
variable {α β : Type} [LinPre α] [LinPre β]

def map (f : α → β) : Spec α → Spec β
  | .empty => .empty
  | .any => .any
  | .range r => .range (r.map f)
  | .union rs t => .union (rs.map (Range.map f)) (t.map (Clause.map f))

@[simp] theorem map_empty (f : α → β) : (Spec.empty : Spec α).map f = .empty := rfl
@[simp] theorem map_any (f : α → β) : (Spec.any : Spec α).map f = .any := rfl
@[simp] theorem map_range (f : α → β) (r : Range α) : (Spec.range r).map f = .range (r.map f) := rfl
@[simp] theorem map_union (f : α → β) (rs : List (Range α)) (t : Option (Clause α)) :
    (Spec.union rs t).map f = .union (rs.map (Range.map f)) (t.map (Clause.map f)) := rfl

variable (e : Emb α β)

theorem map_fromRanges (rs : List (Range α)) : (fromRanges rs).map e.f = fromRanges (rs.map (Range.map e.f)) := by
  match rs with
  | [] => rfl
  | [r] => rfl
  | _ :: _ :: _ => rfl

@[simp] theorem map_isAny (s : Spec α) : (s.map e.f).isAny = s.isAny := by
  cases s <;> simp [map, isAny]

@[simp] theorem map_isEmpty (s : Spec α) : (s.map e.f).isEmpty = s.isEmpty := by
  cases s <;> rfl

theorem map_andProduct (xs ys : List (Range α)) :
    andProduct (xs.map (Range.map e.f)) (ys.map (Range.map e.f)) = (andProduct xs ys).map (Range.map e.f) := by
  simp only [andProduct, List.flatMap_map, List.map_flatMap]
  congr 1; funext a
  induction ys with
  | nil => rfl
  | cons b ys ih =>
    simp only [List.map_cons, List.filterMap_cons, Range.map_and]
    cases a.and b <;> simp [ih]

theorem map_and (a b : Spec α) : (a.map e.f).and (b.map e.f) = (a.and b).map e.f := by
  cases a <;> cases b <;> simp only [map_empty, map_any, map_range, map_union, Spec.and]
  · rename_i x y
    rw [Range.map_and]; cases x.and y <;> rfl
  · rename_i x ys yt
    rw [Range.map_isAny]
    split
    · rfl
    · rw [show [x.map e.f] = [x].map (Range.map e.f) from rfl, map_andProduct, map_fromRanges]
  · rename_i xs xt o
    rw [Range.map_isAny]
    split
    · rfl
    · rw [show [o.map e.f] = [o].map (Range.map e.f) from rfl, map_andProduct, map_fromRanges]
  · rw [map_andProduct, map_fromRanges]

theorem map_invertRange (r : Range α) : invertRange (r.map e.f) = (invertRange r).map e.f := by
  rcases r with ⟨m, x, i, j, t⟩
  cases m <;> cases x <;> rfl

theorem map_gaps : ∀ rs : List (Range α), gaps (rs.map (Range.map e.f)) = (gaps rs).map (Range.map e.f)
  | [] => rfl
  | [l] => by
    rcases l with ⟨m, x, i, j, t⟩
    cases x <;> rfl
  | a :: b :: rest => by
    have ih := map_gaps (b :: rest)
    simp only [List.map_cons] at ih ⊢
    simp only [gaps, List.map_cons, ih]
    rfl

theorem map_invertUnion (rs : List (Range α)) : invertUnion (rs.map (Range.map e.f)) = (invertUnion rs).map e.f := by
  simp only [invertUnion, map_fromRanges, List.map_append, map_gaps]
  congr 2
  cases rs with
  | nil => rfl
  | cons f' _ =>
    rcases f' with ⟨m, x, i, j, t⟩
    cases m <;> rfl

theorem map_invert (a : Spec α) : (a.map e.f).invert = a.invert.map e.f := by
  cases a
  · rfl
  · rfl
  · exact map_invertRange e _
  · exact map_invertUnion e _

theorem map_orLoop (o : Range α) : ∀ rs : List (Range α),
    orLoop (o.map e.f) (rs.map (Range.map e.f)) = (orLoop o rs).map (List.map (Range.map e.f))
  | [] => rfl
  | r :: rest => by
    simp only [List.map_cons, orLoop, Range.map_canCombine, Range.map_allowsLower, Range.map_or]
    split
    · cases h : o.or r with
      | one x => simp only [Range.OrRes.map]; exact map_orLoop x rest
      | two _ _ => rfl
    · split
      · rfl
      · rw [map_orLoop o rest]; cases orLoop o rest <;> rfl

theorem map_unionOrRange (xs : List (Range α)) (o : Range α) :
    unionOrRange (xs.map (Range.map e.f)) (o.map e.f) = (unionOrRange xs o).map (map e.f) := by
  simp only [unionOrRange, Range.map_isAny]
  split
  · rfl
  · rw [map_orLoop]; cases orLoop o xs <;> simp [map_fromRanges]

theorem map_orRange (s : Spec α) (o : Range α) : orRange (s.map e.f) (o.map e.f) = (orRange s o).map (map e.f) := by
  cases s with
  | empty => rfl
  | any => rfl
  | range a =>
    simp only [map_range, orRange, Range.map_or]
    cases a.or o <;> rfl
  | union xs t => exact map_unionOrRange e xs o

theorem map_orFold (s : Spec α) : ∀ rs : List (Range α),
    orFold (s.map e.f) (rs.map (Range.map e.f)) = (orFold s rs).map (map e.f)
  | [] => rfl
  | r :: rest => by
    simp only [List.map_cons, orFold, map_orRange]
    cases h : orRange s r with
    | none => rfl
    | some s' => simp only [Option.map_some, Option.bind_some]; exact map_orFold s' rest

theorem map_or (a b : Spec α) : (a.map e.f).or (b.map e.f) = (a.or b).map (map e.f) := by
  cases a <;> cases b <;> simp only [map_empty, map_any, map_range, map_union, Spec.or, Option.map_some]
  · rename_i x y; exact map_orRange e (.range x) y
  · rename_i x ys yt; exact map_unionOrRange e ys x
  · rename_i xs xt o; exact map_unionOrRange e xs o
  · rename_i xs xt ys yt; exact map_orFold e (.union xs xt) ys

@[simp] theorem map_beq (a b : Spec α) : (a.map e.f).beq (b.map e.f) = a.beq b := by
  cases a <;> cases b <;> simp [map, Spec.beq, isAny]
  rename_i xs _ ys _
  congr 1
  induction xs generalizing ys with
  | nil => simp
  | cons x xs ih =>
    cases ys with
    | nil => simp
    | cons y ys => simp [ih]

theorem map_sep (a b : Range α) : sep (a.map e.f) (b.map e.f) ↔ sep a b := by
  rcases a with ⟨am, ax, ai, aj, at'⟩; rcases b with ⟨bm, bx, bi, bj, bt⟩
  cases ax <;> cases bm <;> simp [sep, Range.map, e.lt_iff, e.eqv_iff]

theorem map_canon (s : Spec α) : Canon (s.map e.f) ↔ Canon s := by
  cases s with
  | empty => simp [map, Canon]
  | any => simp [map, Canon]
  | range r => exact Range.map_WF e r
  | union rs t =>
    simp only [map, Canon, List.length_map, List.mem_map, forall_exists_index, and_imp,
      forall_apply_eq_imp_iff₂, Range.map_WF, List.pairwise_map, map_sep]

theorem map_mem (s : Spec α) (v : α) : (s.map e.f).mem (e.f v) ↔ s.mem v := by
  cases s with
  | empty => simp [map, mem]
  | any => simp [map, mem]
  | range r => exact Range.map_mem e r v
  | union rs t =>
    simp only [map_union, mem, List.mem_map]
    constructor
    · rintro ⟨_, ⟨a, ha, rfl⟩, hm⟩; exact ⟨a, ha, (Range.map_mem e a v).1 hm⟩
    · rintro ⟨a, ha, hm⟩; exact ⟨_, ⟨a, ha, rfl⟩, (Range.map_mem e a v).2 hm⟩

end Spec
/-! ### "every bound satisfies `P`" is preserved by the operators

A specifier all of whose bounds satisfy `P` is the image of a specifier over the subtype
`{v // P v}` under the inclusion, which is an order embedding; the operators commute with it. -/

instance subLinPre {α : Type} [LinPre α] (P : α → Prop) : LinPre {v : α // P v} where
  le a b := LinPre.le a.1 b.1
  decLe := fun a b => inferInstanceAs (Decidable (LinPre.le a.1 b.1))
  le_refl a := LinPre.le_refl a.1
  le_trans a b c := LinPre.le_trans a.1 b.1 c.1
  le_total a b := LinPre.le_total a.1 b.1

def subEmb {α : Type} [LinPre α] (P : α → Prop) : Emb {v : α // P v} α where
  f := Subtype.val
  le_iff := fun _ _ => Iff.rfl

namespace Spec
variable {α : Type} [LinPre α]

/-- every bound of the specifier satisfies `P` -/
def BoundsIn (P : α → Prop) (s : Spec α) : Prop := ∃ s' : Spec {v : α // P v}, s'.map (subEmb P).f = s

theorem and_boundsIn (P : α → Prop) (a b : Spec α) (ha : BoundsIn P a) (hb : BoundsIn P b) : BoundsIn P (a.and b) := by
  obtain ⟨a', rfl⟩ := ha
  obtain ⟨b', rfl⟩ := hb
  exact ⟨a'.and b', (map_and (subEmb P) a' b').symm⟩

theorem or_boundsIn (P : α → Prop) (a b r : Spec α) (ha : BoundsIn P a) (hb : BoundsIn P b) (h : a.or b = some r) :
    BoundsIn P r := by
  obtain ⟨a', rfl⟩ := ha
  obtain ⟨b', rfl⟩ := hb
  rw [map_or] at h
  cases hr : a'.or b' with
  | none => rw [hr] at h; cases h
  | some r' =>
    rw [hr] at h
    simp only [Option.map_some, Option.some.injEq] at h
    exact ⟨r', h⟩

theorem boundsIn_empty (P : α → Prop) : BoundsIn P (.empty : Spec α) := ⟨.empty, rfl⟩
theorem boundsIn_any (P : α → Prop) : BoundsIn P (.any : Spec α) := ⟨.any, rfl⟩

/-- what it says about a range -/
theorem boundsIn_range (P : α → Prop) (r : Range α) (h : BoundsIn P (.range r)) :
    (∀ m, r.min = some m → P m) ∧ (∀ m, r.max = some m → P m) := by
  obtain ⟨s', hs⟩ := h
  cases s' with
  | range r' =>
    simp only [map_range, Spec.range.injEq] at hs
    subst hs
    constructor
    · intro m hm
      simp only [Range.map, Option.map_eq_some_iff] at hm
      obtain ⟨x, _, rfl⟩ := hm; exact x.2
    · intro m hm
      simp only [Range.map, Option.map_eq_some_iff] at hm
      obtain ⟨x, _, rfl⟩ := hm; exact x.2
  | empty => simp at hs
  | any => simp at hs
  | union _ _ => simp at hs

theorem boundsIn_union (P : α → Prop) (rs : List (Range α)) (t : Option (Clause α)) (h : BoundsIn P (.union rs t)) :
    ∀ r ∈ rs, (∀ m, r.min = some m → P m) ∧ (∀ m, r.max = some m → P m) := by
  obtain ⟨s', hs⟩ := h
  cases s' with
  | union rs' t' =>
    simp only [map_union, Spec.union.injEq] at hs
    obtain ⟨hs, _⟩ := hs
    subst hs
    intro r hr
    simp only [List.mem_map] at hr
    obtain ⟨r', _, rfl⟩ := hr
    constructor
    · intro m hm
      simp only [Range.map, Option.map_eq_some_iff] at hm
      obtain ⟨x, _, rfl⟩ := hm; exact x.2
    · intro m hm
      simp only [Range.map, Option.map_eq_some_iff] at hm
      obtain ⟨x, _, rfl⟩ := hm; exact x.2
  | empty => simp at hs
  | any => simp at hs
  | range _ => simp at hs

end Spec
/-! ### `BoundsIn` from a pointwise description -/
namespace Range
variable {α : Type} [LinPre α]

/-- every version stored in the range (bounds, cached clause) satisfies `P` -/
def AllVers (P : α → Prop) (r : Range α) : Prop :=
  (∀ m, r.min = some m → P m) ∧ (∀ m, r.max = some m → P m) ∧ (∀ c, r.text = some c → P c.ver)

theorem preimage (P : α → Prop) (r : Range α) (h : r.AllVers P) :
    ∃ r' : Range {v : α // P v}, r'.map (subEmb P).f = r := by
  rcases r with ⟨m, M, i, j, t⟩
  obtain ⟨h1, h2, h3⟩ := h
  simp only at h1 h2 h3
  have om : ∀ o : Option α, (∀ x, o = some x → P x) → ∃ o' : Option {v : α // P v}, o'.map Subtype.val = o := by
    intro o ho
    cases o with
    | none => exact ⟨none, rfl⟩
    | some x => exact ⟨some ⟨x, ho x rfl⟩, rfl⟩
  have oc : ∃ t' : Option (Clause {v : α // P v}), t'.map (Clause.map Subtype.val) = t := by
    cases t with
    | none => exact ⟨none, rfl⟩
    | some c => exact ⟨some ⟨c.op, ⟨c.ver, h3 c rfl⟩, c.wild⟩, rfl⟩
  obtain ⟨m', hm⟩ := om m h1
  obtain ⟨M', hM⟩ := om M h2
  obtain ⟨t', ht⟩ := oc
  exact ⟨⟨m', M', i, j, t'⟩, by simp [Range.map, subEmb, hm, hM, ht]⟩

end Range

namespace Spec
variable {α : Type} [LinPre α]

def AllVers (P : α → Prop) : Spec α → Prop
  | .range r => r.AllVers P
  | .union rs t => (∀ r ∈ rs, r.AllVers P) ∧ (∀ c, t = some c → P c.ver)
  | _ => True

theorem boundsIn_of_allVers (P : α → Prop) (s : Spec α) (h : s.AllVers P) : BoundsIn P s := by
  cases s with
  | empty => exact boundsIn_empty P
  | any => exact boundsIn_any P
  | range r =>
    obtain ⟨r', hr⟩ := Range.preimage P r h
    exact ⟨.range r', by simp [hr]⟩
  | union rs t =>
    obtain ⟨h1, h2⟩ := h
    have hl : ∃ rs' : List (Range {v : α // P v}), rs'.map (Range.map (subEmb P).f) = rs := by
      induction rs with
      | nil => exact ⟨[], rfl⟩
      | cons r rest ih =>
        obtain ⟨r', hr⟩ := Range.preimage P r (h1 r (by simp))
        obtain ⟨rest', hrest⟩ := ih (fun x hx => h1 x (by simp [hx]))
        exact ⟨r' :: rest', by simp [hr, hrest]⟩
    have ht : ∃ t' : Option (Clause {v : α // P v}), t'.map (Clause.map (subEmb P).f) = t := by
      cases t with
      | none => exact ⟨none, rfl⟩
      | some c => exact ⟨some ⟨c.op, ⟨c.ver, h2 c rfl⟩, c.wild⟩, rfl⟩
    obtain ⟨rs', hrs⟩ := hl
    obtain ⟨t', ht'⟩ := ht
    exact ⟨.union rs' t', by simp [hrs, ht']⟩

/-- the cached clause of a specifier with `BoundsIn P` has a `P` version too -/
theorem boundsIn_text_range (P : α → Prop) (r : Range α) (h : BoundsIn P (.range r)) : ∀ c, r.text = some c → P c.ver := by
  obtain ⟨s', hs⟩ := h
  cases s' with
  | range r' =>
    simp only [map_range, Spec.range.injEq] at hs
    subst hs
    intro c hc
    simp only [Range.map, Option.map_eq_some_iff] at hc
    obtain ⟨c', _, rfl⟩ := hc
    exact c'.ver.2
  | empty => simp at hs
  | any => simp at hs
  | union _ _ => simp at hs

theorem boundsIn_text_union (P : α → Prop) (rs : List (Range α)) (t : Option (Clause α)) (h : BoundsIn P (.union rs t)) :
    ∀ c, t = some c → P c.ver := by
  obtain ⟨s', hs⟩ := h
  cases s' with
  | union rs' t' =>
    simp only [map_union, Spec.union.injEq] at hs
    obtain ⟨_, ht⟩ := hs
    subst ht
    intro c hc
    simp only [Option.map_eq_some_iff] at hc
    obtain ⟨c', _, rfl⟩ := hc
    exact c'.ver.2
  | empty => simp at hs
  | any => simp at hs
  | range _ => simp at hs

end Spec
namespace Spec
variable {α : Type} [LinPre α]

theorem rangeAllVers_map (P : α → Prop) (r' : Range {v : α // P v}) : (r'.map (subEmb P).f).AllVers P := by
  refine ⟨?_, ?_, ?_⟩
  · intro m hm; simp only [Range.map, Option.map_eq_some_iff] at hm; obtain ⟨x, _, rfl⟩ := hm; exact x.2
  · intro m hm; simp only [Range.map, Option.map_eq_some_iff] at hm; obtain ⟨x, _, rfl⟩ := hm; exact x.2
  · intro c hc; simp only [Range.map, Option.map_eq_some_iff] at hc; obtain ⟨x, _, rfl⟩ := hc; exact x.ver.2

/-- the pointwise reading of `BoundsIn` -/
theorem allVers_of_boundsIn (P : α → Prop) (s : Spec α) (h : BoundsIn P s) : s.AllVers P := by
  obtain ⟨s', rfl⟩ := h
  cases s' with
  | empty => trivial
  | any => trivial
  | range r' => exact rangeAllVers_map P r'
  | union rs' t' =>
    refine ⟨?_, ?_⟩
    · intro r hr
      simp only [List.mem_map] at hr
      obtain ⟨r', _, rfl⟩ := hr
      exact rangeAllVers_map P r'
    · intro c hc
      simp only [Option.map_eq_some_iff] at hc
      obtain ⟨c', _, rfl⟩ := hc
      exact c'.ver.2

theorem boundsIn_iff_allVers (P : α → Prop) (s : Spec α) : BoundsIn P s ↔ s.AllVers P :=
  ⟨allVers_of_boundsIn P s, boundsIn_of_allVers P s⟩

end Spec
end DepLogic
