import DepLogic.Properties.C06
/-
  Cached clause texts stay right.

  `RangeSpecifier.simplified` / `UnionSpecifier.simplified` remember the clause an object was
  parsed from; `__str__` trusts it.  `TextInv s`: every cached clause in `s` parses to (an object
  `==` to) the object that carries it.  The parser establishes it (`fromClause_textInv`) and
  `&`, `|`, `~` preserve it (`and_textInv`, `or_textInv`, `invert_textInv`): their results consist
  of operand ranges returned unchanged and of fresh ranges without a cached text.
  With it C06's `TextOk` hypotheses hold of everything reachable (`C06.reach_roundtrips`).
-/
namespace DepLogic
namespace Spec
open LinPre C06

def TextInv : Spec Ver → Prop
  | .range r => TextOk r
  | .union rs t => (∀ r ∈ rs, TextOk r) ∧ TextOkU rs t
  | _ => True

theorem textOk_of_none (r : Range Ver) (h : r.text = none) : TextOk r := by
  intro c hc; rw [h] at hc; cases hc

theorem textOkU_none (rs : List (Range Ver)) : TextOkU rs none := by
  intro c hc; cases hc

theorem Range.and_ok (s o r : Range Ver) (hs : TextOk s) (ho : TextOk o) (h : s.and o = some r) : TextOk r := by
  simp only [Range.and] at h
  cases h1 : s.isSuperset o <;> cases h2 : o.isSuperset s <;> cases h3 : s.allowsLower o <;>
    cases h4 : s.allowsHigher o <;> cases h5 : s.isStrictlyLower o <;> cases h6 : o.isStrictlyLower s <;>
    simp [h1, h2, h3, h4, h5, h6] at h <;>
    (subst h; first | exact ho | exact hs | exact textOk_of_none _ rfl)

theorem Range.or_ok (s o : Range Ver) (hs : TextOk s) (ho : TextOk o) :
    match s.or o with
    | .one r => TextOk r
    | .two a b => TextOk a ∧ TextOk b := by
  simp only [Range.or]
  cases h1 : s.isSuperset o <;> cases h2 : o.isSuperset s <;> cases h3 : s.allowsLower o <;>
    cases h4 : s.allowsHigher o <;> cases h5 : s.isStrictlyLower o <;> cases h6 : o.isStrictlyLower s <;>
    cases h7 : s.isAdjacentTo o <;> cases h8 : o.isAdjacentTo s <;>
    simp <;>
    first | exact hs | exact ho | exact ⟨hs, ho⟩ | exact ⟨ho, hs⟩ | exact textOk_of_none _ rfl

theorem andProduct_ok (xs ys : List (Range Ver)) (hx : ∀ r ∈ xs, TextOk r) (hy : ∀ r ∈ ys, TextOk r) :
    ∀ r ∈ andProduct xs ys, TextOk r := by
  intro r hr
  simp only [andProduct, List.mem_flatMap, List.mem_filterMap] at hr
  obtain ⟨a, ha, b, hb, hab⟩ := hr
  exact Range.and_ok a b r (hx a ha) (hy b hb) hab

theorem fromRanges_ok (rs : List (Range Ver)) (h : ∀ r ∈ rs, TextOk r) : TextInv (fromRanges rs) := by
  match rs, h with
  | [], _ => trivial
  | [r], h => exact h r (by simp)
  | a :: b :: rest, h => exact ⟨h, textOkU_none _⟩

theorem and_textInv (a b : Spec Ver) (ha : TextInv a) (hb : TextInv b) : TextInv (a.and b) := by
  cases a <;> cases b <;> simp only [Spec.and] <;> (try trivial) <;> (try assumption)
  · rename_i x y
    cases h : x.and y with
    | none => trivial
    | some r => exact Range.and_ok x y r ha hb h
  · rename_i x ys yt
    split
    · exact hb
    · exact fromRanges_ok _ (andProduct_ok ys [x] hb.1 (by intro r hr; simp at hr; subst hr; exact ha))
  · rename_i xs xt o
    split
    · exact ha
    · exact fromRanges_ok _ (andProduct_ok xs [o] ha.1 (by intro r hr; simp at hr; subst hr; exact hb))
  · exact fromRanges_ok _ (andProduct_ok _ _ ha.1 hb.1)

theorem orLoop_ok (other : Range Ver) : ∀ (rs res : List (Range Ver)), TextOk other → (∀ r ∈ rs, TextOk r) →
    orLoop other rs = some res → ∀ r ∈ res, TextOk r
  | [], res, ho, _, h => by
    simp only [orLoop, Option.some.injEq] at h; subst h
    intro r hr; simp at hr; subst hr; exact ho
  | r0 :: rest, res, ho, hrs, h => by
    simp only [orLoop] at h
    have h0 := hrs r0 (by simp)
    have hrest : ∀ r ∈ rest, TextOk r := fun r hr => hrs r (by simp [hr])
    split at h
    · have hor := Range.or_ok other r0 ho h0
      split at h
      · rename_i x hx
        rw [hx] at hor
        exact orLoop_ok x rest res hor hrest h
      · cases h
    · split at h
      · simp only [Option.some.injEq] at h; subst h
        intro r hr
        simp only [List.mem_cons] at hr
        rcases hr with rfl | rfl | hr
        · exact ho
        · exact h0
        · exact hrest r hr
      · simp only [Option.map_eq_some_iff] at h
        obtain ⟨res', hres', rfl⟩ := h
        intro r hr
        simp only [List.mem_cons] at hr
        rcases hr with rfl | hr
        · exact h0
        · exact orLoop_ok other rest res' ho hrest hres' r hr

theorem unionOrRange_ok (xs : List (Range Ver)) (o : Range Ver) (hx : ∀ r ∈ xs, TextOk r) (ho : TextOk o) (res : Spec Ver)
    (h : unionOrRange xs o = some res) : TextInv res := by
  simp only [unionOrRange] at h
  split at h
  · cases h; exact ho
  · simp only [Option.map_eq_some_iff] at h
    obtain ⟨l, hl, rfl⟩ := h
    exact fromRanges_ok _ (orLoop_ok o xs l ho hx hl)

theorem orRange_ok (s : Spec Ver) (o : Range Ver) (hs : TextInv s) (ho : TextOk o) (res : Spec Ver)
    (h : orRange s o = some res) : TextInv res := by
  cases s with
  | empty => simp only [orRange, Option.some.injEq] at h; subst h; exact ho
  | any => simp only [orRange, Option.some.injEq] at h; subst h; trivial
  | range a =>
    simp only [orRange] at h
    have hor := Range.or_ok a o hs ho
    split at h
    · rename_i r hr; rw [hr] at hor; cases h; exact hor
    · rename_i x y hxy; rw [hxy] at hor; cases h
      exact ⟨by intro r hr; simp at hr; rcases hr with rfl | rfl; exact hor.1; exact hor.2, textOkU_none _⟩
  | union xs t => exact unionOrRange_ok xs o hs.1 ho res h

theorem orFold_ok (s : Spec Ver) : ∀ (rs : List (Range Ver)) (res : Spec Ver), TextInv s → (∀ r ∈ rs, TextOk r) →
    orFold s rs = some res → TextInv res
  | [], res, hs, _, h => by simp only [orFold, Option.some.injEq] at h; subst h; exact hs
  | r :: rest, res, hs, hrs, h => by
    simp only [orFold, Option.bind_eq_some_iff] at h
    obtain ⟨s', hs', hres⟩ := h
    exact orFold_ok s' rest res (orRange_ok s r hs (hrs r (by simp)) s' hs') (fun x hx => hrs x (by simp [hx])) hres

theorem or_textInv (a b res : Spec Ver) (ha : TextInv a) (hb : TextInv b) (h : a.or b = some res) : TextInv res := by
  cases a <;> cases b <;> simp only [Spec.or, Option.some.injEq] at h <;> (try (subst h; first | trivial | assumption))
  · rename_i x y; exact orRange_ok (.range x) y ha hb res h
  · rename_i x ys yt; exact unionOrRange_ok ys x hb.1 ha res h
  · rename_i xs xt o; exact unionOrRange_ok xs o ha.1 hb res h
  · rename_i xs xt ys yt; exact orFold_ok (.union xs xt) ys res ha hb.1 h

theorem invert_textInv (a : Spec Ver) : TextInv a.invert := by
  cases a with
  | empty => trivial
  | any => trivial
  | range r =>
    simp only [Spec.invert, invertRange]
    split <;> first | trivial | exact textOk_of_none _ rfl |
      exact ⟨by intro r hr; simp at hr; rcases hr with rfl | rfl <;> exact textOk_of_none _ rfl, textOkU_none _⟩
  | union rs t =>
    simp only [Spec.invert, invertUnion]
    apply fromRanges_ok
    intro r hr
    apply textOk_of_none
    simp only [List.mem_append] at hr
    rcases hr with hr | hr
    · cases rs with
      | nil => simp at hr
      | cons f _ =>
        simp only [firstPiece] at hr
        split at hr
        · simp at hr
        · simp at hr; subst hr; rfl
    · -- every gap piece is fresh
      have gaps_fresh : ∀ (l : List (Range Ver)), ∀ x ∈ gaps l, x.text = none := by
        intro l
        induction l with
        | nil => intro x hx; simp [gaps] at hx
        | cons a rest ih =>
          intro x hx
          cases rest with
          | nil =>
            simp only [gaps] at hx
            split at hx
            · simp at hx
            · simp at hx; subst hx; rfl
          | cons b rest' =>
            simp only [gaps, List.mem_cons] at hx
            rcases hx with rfl | hx
            · rfl
            · exact ih x hx
      exact gaps_fresh rs r hr

theorem Range.beq_refl' (r : Range Ver) : r.beq r = true := by
  have rf := @LinPre.le_refl Ver _
  rcases r with ⟨m, M, i, j, t⟩
  cases m <;> cases M <;> simp [Range.beq, rf]

/-- the parser caches the clause it has just parsed -/
theorem fromClause_textInv (c : Clause Ver) (s : Spec Ver) (h : fromClause c = some s) : TextInv s := by
  have mk : ∀ r : Range Ver, fromClause c = some (.range r) → r.text = some c → TextOk r := by
    intro r hr ht c' hc'
    rw [ht] at hc'; cases hc'
    exact ⟨r, hr, Range.beq_refl' r⟩
  have mkU : ∀ (a b : Range Ver), fromClause c = some (.union [a, b] (some c)) → a.text = none → b.text = none →
      TextInv (.union [a, b] (some c)) := by
    intro a b hu ha hb
    refine ⟨by intro r hr; simp at hr; rcases hr with rfl | rfl; exact textOk_of_none _ ha; exact textOk_of_none _ hb, ?_⟩
    intro c' hc'; cases hc'
    exact ⟨[a, b], some c, hu, by simp [Spec.beq, Range.beq_refl']⟩
  rcases c with ⟨op, v, w⟩
  cases op <;> cases w <;> simp only [fromClause, Option.some.injEq, Option.map_eq_some_iff] at h
  all_goals first
    | (subst h; exact mk _ (by simp [fromClause]) rfl)
    | (obtain ⟨mx, hmx, rfl⟩ := h; exact mk _ (by simp [fromClause, hmx]) rfl)
    | (subst h; exact mkU _ _ (by simp [fromClause]) rfl rfl)
    | (obtain ⟨mx, hmx, rfl⟩ := h; exact mkU _ _ (by simp [fromClause, hmx]) rfl rfl)

theorem fromSpecifierSet_textInv (cs : List (Clause Ver)) (s : Spec Ver) (h : fromSpecifierSet cs = some s) : TextInv s := by
  unfold fromSpecifierSet at h
  have gen : ∀ (cs : List (Clause Ver)) (acc : Spec Ver), TextInv acc → ∀ s,
      cs.foldl (fun acc c => acc.bind fun a => (fromClause c).map fun s => a.and s) (some acc) = some s → TextInv s := by
    intro cs
    induction cs with
    | nil => intro acc ha s h; simp at h; subst h; exact ha
    | cons c rest ih =>
      intro acc ha s h
      simp only [List.foldl_cons, Option.bind_some] at h
      cases hc : fromClause c with
      | none =>
        rw [hc] at h
        simp only [Option.map_none] at h
        have : ∀ l : List (Clause Ver), l.foldl (fun (acc : Option (Spec Ver)) c => acc.bind fun a => (fromClause c).map fun s => a.and s) none = none := by
          intro l; induction l with
          | nil => rfl
          | cons _ _ ih' => simpa using ih'
        rw [this] at h; cases h
      | some sc =>
        rw [hc] at h
        exact ih _ (and_textInv acc sc ha (fromClause_textInv c sc hc)) s h
  exact gen cs (.range {}) (textOk_of_none _ rfl) s h

/-- a plain final release `N(.N)*`: no epoch, no pre/post/dev segment — the versions the marker
    properties speak about (`python_version`, `python_full_version`, `platform_release` values) -/
def FinalV (v : Ver) : Prop := v.isFinal = true ∧ v.epoch = 0 ∧ v.release ≠ []

theorem FinalV.post {v : Ver} (h : FinalV v) : v.post = none := by
  rcases v with ⟨e, r, pre, post, dev⟩
  have := h.1
  cases pre <;> cases post <;> cases dev <;> simp [Ver.isFinal] at this ⊢

/-- final bounds exclude the D4a rendering -/
theorem noD4a_of_final (r : Range Ver) (h : BoundsIn FinalV (.range r)) : NoD4a r := by
  intro _ mn mx _ hmax _
  exact ((boundsIn_range FinalV r h).2 mx hmax).post

theorem invert_boundsIn {α : Type} [LinPre α] (P : α → Prop) (a : Spec α) (ha : BoundsIn P a) : BoundsIn P a.invert := by
  obtain ⟨a', rfl⟩ := ha
  exact ⟨a'.invert, (map_invert (subEmb P) a').symm⟩

end Spec

namespace C06
open Spec

/-- everything the operators build from good leaves: canonical, cached texts right, every stored version a plain final release -/
structure Nice (s : Spec Ver) : Prop where
  canon : Canon s
  text : TextInv s
  finalBounds : BoundsIn FinalV s

theorem nice_empty : Nice .empty := ⟨trivial, trivial, boundsIn_empty _⟩
theorem nice_any : Nice .any := ⟨trivial, trivial, boundsIn_any _⟩

theorem nice_and (a b : Spec Ver) (ha : Nice a) (hb : Nice b) : Nice (a.and b) :=
  ⟨and_canon _ _ ha.canon hb.canon, and_textInv _ _ ha.text hb.text, and_boundsIn _ _ _ ha.finalBounds hb.finalBounds⟩

theorem nice_or (a b r : Spec Ver) (ha : Nice a) (hb : Nice b) (h : a.or b = some r) : Nice r := by
  obtain ⟨r', h1, h2, _⟩ := or_spec a b ha.canon hb.canon
  rw [h] at h1; cases h1
  exact ⟨h2, or_textInv _ _ _ ha.text hb.text h, or_boundsIn _ _ _ _ ha.finalBounds hb.finalBounds h⟩

theorem nice_invert (a : Spec Ver) (ha : Nice a) : Nice a.invert :=
  ⟨invert_canon _ ha.canon, invert_textInv a, invert_boundsIn _ _ ha.finalBounds⟩

/-- a nice object renders to text that denotes an `==` object -/
theorem nice_roundtrips (s : Spec Ver) (nice : Nice s) : RoundTrips s := by
  apply roundtrips s nice.canon
  · intro r hr
    rcases hr with rfl | ⟨rs, t, rfl, hrm⟩
    · exact ⟨nice.text, noD4a_of_final r nice.finalBounds⟩
    · refine ⟨nice.text.1 r hrm, ?_⟩
      intro _ mn mx _ hmax _
      exact (((boundsIn_union FinalV rs t nice.finalBounds) r hrm).2 mx hmax).post
  · intro rs t hs
    subst hs
    exact nice.text.2

/-- **C06 for everything reachable**: objects built by `&`, `|`, `~` from nice leaves (what the parser
    yields from clauses over plain final releases) render to text that denotes an `==` object -/
theorem reach_roundtrips {Leaf : Spec Ver → Prop} (hleaf : ∀ s, Leaf s → Nice s) {s : Spec Ver}
    (h : C01.Reach Leaf s) : RoundTrips s := by
  apply nice_roundtrips
  induction h with
  | leaf hl => exact hleaf _ hl
  | and _ _ iha ihb => exact nice_and _ _ iha ihb
  | or _ _ hr iha ihb => exact nice_or _ _ _ iha ihb hr
  | invert _ ih => exact nice_invert _ ih

end C06
end DepLogic
