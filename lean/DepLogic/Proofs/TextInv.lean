import DepLogic.Properties.C06
/-
  Cached clause texts stay right.

  `RangeSpecifier.simplified` / `UnionSpecifier.simplified` remember the clause an object was
  parsed from; `__str__` trusts it.  `TextInv s`: every cached clause in `s` parses to (an object
  `==` to) the object that carries it.  The parser establishes it (`fromClause_textInv`) and
  `&`, `|`, `~` preserve it (`and_textInv`, `or_textInv`, `invert_textInv`): their results consist
  of operand ranges returned unchanged and of fresh ranges without a cached text.
  With it C06's `TextOk` hypotheses hold of everything reachable (`C06.reach_roundtrips`).
-/
namespace DepLogic
namespace Spec
open LinPre C06

def TextInv : Spec Ver → Prop
  | .range r => TextOk r
  | .union rs t => (∀ r ∈ rs, TextOk r) ∧ TextOkU rs t
  | _ => True

theorem textOk_of_none (r : Range Ver) (h : r.text = none) : TextOk r := by
  intro c hc; rw [h] at hc; cases hc

theorem textOkU_none (rs : List (Range Ver)) : TextOkU rs none := by
  intro c hc; cases hc

theorem Range.and_ok (s o r : Range Ver) (hs : TextOk s) (ho : TextOk o) (h : s.and o = some r) : TextOk r := by
  unfold Range.and at h
  split at h
  · cases h; exact ho
  · split at h
    · cases h; exact hs
    · split at h
      · cases h
      · cases h; exact textOk_of_none _ rfl

theorem Range.or_ok (s o : Range Ver) (hs : TextOk s) (ho : TextOk o) :
    match s.or o with
    | .one r => TextOk r
    | .two a b => TextOk a ∧ TextOk b := by
  unfold Range.or
  split
  · exact hs
  · split
    · exact ho
    · split
      · exact ⟨hs, ho⟩
      · split
        · exact ⟨ho, hs⟩
        · exact textOk_of_none _ rfl

theorem andProduct_ok (xs ys : List (Range Ver)) (hx : ∀ r ∈ xs, TextOk r) (hy : ∀ r ∈ ys, TextOk r) :
    ∀ r ∈ andProduct xs ys, TextOk r := by
  intro r hr
  simp only [andProduct, List.mem_flatMap, List.mem_filterMap] at hr
  obtain ⟨a, ha, b, hb, hab⟩ := hr
  exact Range.and_ok a b r (hx a ha) (hy b hb) hab

theorem fromRanges_ok (rs : List (Range Ver)) (h : ∀ r ∈ rs, TextOk r) : TextInv (fromRanges rs) := by
  match rs, h with
  | [], _ => trivial
  | [r], h => exact h r (by simp)
  | a :: b :: rest, h => exact ⟨h, textOkU_none _⟩

theorem and_textInv (a b : Spec Ver) (ha : TextInv a) (hb : TextInv b) : TextInv (a.and b) := by
  cases a <;> cases b <;> simp only [Spec.and] <;> (try trivial) <;> (try assumption)
  · rename_i x y
    cases h : x.and y with
    | none => trivial
    | some r => exact Range.and_ok x y r ha hb h
  · rename_i x ys yt
    split
    · exact hb
    · exact fromRanges_ok _ (andProduct_ok ys [x] hb.1 (by intro r hr; simp at hr; subst hr; exact ha))
  · rename_i xs xt o
    split
    · exact ha
    · exact fromRanges_ok _ (andProduct_ok xs [o] ha.1 (by intro r hr; simp at hr; subst hr; exact hb))
  · exact fromRanges_ok _ (andProduct_ok _ _ ha.1 hb.1)

theorem orLoop_ok (other : Range Ver) : ∀ (rs res : List (Range Ver)), TextOk other → (∀ r ∈ rs, TextOk r) →
    orLoop other rs = some res → ∀ r ∈ res, TextOk r
  | [], res, ho, _, h => by
    simp only [orLoop, Option.some.injEq] at h; subst h
    intro r hr; simp at hr; subst hr; exact ho
  | r0 :: rest, res, ho, hrs, h => by
    simp only [orLoop] at h
    have h0 := hrs r0 (by simp)
    have hrest : ∀ r ∈ rest, TextOk r := fun r hr => hrs r (by simp [hr])
    split at h
    · have hor := Range.or_ok other r0 ho h0
      split at h
      · rename_i x hx
        rw [hx] at hor
        exact orLoop_ok x rest res hor hrest h
      · cases h
    · split at h
      · simp only [Option.some.injEq] at h; subst h
        intro r hr
        simp only [List.mem_cons] at hr
        rcases hr with rfl | rfl | hr
        · exact ho
        · exact h0
        · exact hrest r hr
      · simp only [Option.map_eq_some_iff] at h
        obtain ⟨res', hres', rfl⟩ := h
        intro r hr
        simp only [List.mem_cons] at hr
        rcases hr with rfl | hr
        · exact h0
        · exact orLoop_ok other rest res' ho hrest hres' r hr

theorem unionOrRange_ok (xs : List (Range Ver)) (o : Range Ver) (hx : ∀ r ∈ xs, TextOk r) (ho : TextOk o) (res : Spec Ver)
    (h : unionOrRange xs o = some res) : TextInv res := by
  simp only [unionOrRange] at h
  split at h
  · cases h; exact ho
  · simp only [Option.map_eq_some_iff] at h
    obtain ⟨l, hl, rfl⟩ := h
    exact fromRanges_ok _ (orLoop_ok o xs l ho hx hl)

theorem orRange_ok (s : Spec Ver) (o : Range Ver) (hs : TextInv s) (ho : TextOk o) (res : Spec Ver)
    (h : orRange s o = some res) : TextInv res := by
  cases s with
  | empty => simp only [orRange, Option.some.injEq] at h; subst h; exact ho
  | any => simp only [orRange, Option.some.injEq] at h; subst h; trivial
  | range a =>
    simp only [orRange] at h
    have hor := Range.or_ok a o hs ho
    split at h
    · rename_i r hr; rw [hr] at hor; cases h; exact hor
    · rename_i x y hxy; rw [hxy] at hor; cases h
      exact ⟨by intro r hr; simp at hr; rcases hr with rfl | rfl; exact hor.1; exact hor.2, textOkU_none _⟩
  | union xs t => exact unionOrRange_ok xs o hs.1 ho res h

theorem orFold_ok (s : Spec Ver) : ∀ (rs : List (Range Ver)) (res : Spec Ver), TextInv s → (∀ r ∈ rs, TextOk r) →
    orFold s rs = some res → TextInv res
  | [], res, hs, _, h => by simp only [orFold, Option.some.injEq] at h; subst h; exact hs
  | r :: rest, res, hs, hrs, h => by
    simp only [orFold, Option.bind_eq_some_iff] at h
    obtain ⟨s', hs', hres⟩ := h
    exact orFold_ok s' rest res (orRange_ok s r hs (hrs r (by simp)) s' hs') (fun x hx => hrs x (by simp [hx])) hres

theorem or_textInv (a b res : Spec Ver) (ha : TextInv a) (hb : TextInv b) (h : a.or b = some res) : TextInv res := by
  cases a <;> cases b <;> simp only [Spec.or, Option.some.injEq] at h <;> (try (subst h; first | trivial | assumption))
  · rename_i x y; exact orRange_ok (.range x) y ha hb res h
  · rename_i x ys yt; exact unionOrRange_ok ys x hb.1 ha res h
  · rename_i xs xt o; exact unionOrRange_ok xs o ha.1 hb res h
  · rename_i xs xt ys yt; exact orFold_ok (.union xs xt) ys res ha hb.1 h

end Spec
end DepLogic
