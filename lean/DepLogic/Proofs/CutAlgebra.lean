import DepLogic.Proofs.CanonUnique
/-
  The exactness theorems of the algebra, read over cuts, and the bridge
  "same cuts  ⇔  `==`" for canonical objects.
-/
namespace DepLogic
namespace Spec
open LinPre
variable {α : Type} [LinPre α]

theorem and_memC (a b : Spec α) (x : α) (s : Nat) : (a.and b).memC x s ↔ (a.memC x s ∧ b.memC x s) := by
  simp only [memC, ← map_and]
  exact and_mem _ _ _

theorem or_memC (a b : Spec α) (ha : Canon a) (hb : Canon b) :
    ∃ r, a.or b = some r ∧ Canon r ∧ ∀ x s, r.memC x s ↔ (a.memC x s ∨ b.memC x s) := by
  obtain ⟨r', h1, h2, h3⟩ := or_spec (a.map Cut.ι.f) (b.map Cut.ι.f) ((map_canon Cut.ι a).2 ha) ((map_canon Cut.ι b).2 hb)
  rw [map_or] at h1
  cases hr : a.or b with
  | none => rw [hr] at h1; cases h1
  | some r =>
    rw [hr] at h1
    simp only [Option.map_some, Option.some.injEq] at h1
    subst h1
    exact ⟨r, rfl, (map_canon Cut.ι r).1 h2, fun x s => h3 ⟨x, s⟩⟩

theorem invert_memC (a : Spec α) (ha : Canon a) (x : α) (s : Nat) : (a.invert).memC x s ↔ ¬ a.memC x s := by
  simp only [memC, ← map_invert]
  exact invert_mem _ ((map_canon Cut.ι a).2 ha) _

theorem memC_any (x : α) (s : Nat) : (Spec.any : Spec α).memC x s := by simp [memC, mem]

theorem memC_isAny (r : Range α) (h : r.isAny = true) (x : α) (s : Nat) : (Spec.range r).memC x s := by
  rw [memC_range]
  rcases r with ⟨m, M, i, j, t⟩
  cases m <;> cases M <;> simp [Range.isAny] at h
  simp [Range.memC, Range.lowOK, Range.upOK]

/-- `==` objects have the same cuts (no canonicity needed) -/
theorem memC_of_beq (a b : Spec α) (h : a.beq b = true) (x : α) (s : Nat) : a.memC x s ↔ b.memC x s := by
  cases a <;> cases b <;> simp only [Spec.beq, isAny, Bool.false_eq_true] at h
  · exact Iff.rfl
  · exact Iff.rfl
  · exact ⟨fun _ => memC_isAny _ h x s, fun _ => memC_any x s⟩
  · exact ⟨fun _ => memC_any x s, fun _ => memC_isAny _ h x s⟩
  · rw [memC_range, memC_range]; exact Range.memC_of_beq _ _ h x s
  · rw [memC_union, memC_union]
    exact memCL_of_beqL _ _ (by simpa [beqL] using h) x s

/-- `==` between canonical objects is exactly equality of the sets of cuts they denote -/
theorem beq_iff_memC (a0 : α) (a b : Spec α) (ha : Canon a) (hb : Canon b) :
    a.beq b = true ↔ ∀ x s, a.memC x s ↔ b.memC x s :=
  ⟨fun h x s => memC_of_beq a b h x s, canon_unique a0 a b ha hb⟩

end Spec
end DepLogic
