import DepLogic.Model.Marker
/-
  Basic facts about the total semantics `M.sem`: it agrees with `evaluate` whenever nothing
  raises, Python-equal markers mean the same, flattening / de-duplication / replacement /
  cartesian products preserve meaning.
-/
namespace DepLogic
namespace M

theorem semAll_eq (env : Env) (ms : List M) : semAll env ms = ms.all (sem env) := by
  induction ms with
  | nil => rfl
  | cons m ms ih => simp [semAll, ih]

theorem semAny_eq (env : Env) (ms : List M) : semAny env ms = ms.any (sem env) := by
  induction ms with
  | nil => rfl
  | cons m ms ih => simp [semAny, ih]

theorem Atom.beq_eval (env : Env) (a b : Atom) (h : a.beq b = true) : a.eval env = b.eval env := by
  rcases a with ⟨n1, o1, v1, r1, s1⟩
  rcases b with ⟨n2, o2, v2, r2, s2⟩
  simp [Atom.beq] at h
  obtain ⟨⟨⟨rfl, rfl⟩, rfl⟩, rfl⟩ := h
  rfl

mutual
theorem beq_sem (env : Env) : ∀ (x y : M), beq x y = true → sem env x = sem env y
  | .any, .any, _ => rfl
  | .empty, .empty, _ => rfl
  | .expr a, .expr b, h => by
    simp only [beq] at h
    simp [sem, Atom.beq_eval env a b h]
  | .eqU n a, .eqU m b, h => by
    simp [beq, setEq] at h
    obtain ⟨rfl, rfl⟩ := h
    rfl
  | .neM n a, .neM m b, h => by
    simp [beq, setEq] at h
    obtain ⟨rfl, rfl⟩ := h
    rfl
  | .multi a, .multi b, h => by
    simp only [beq] at h
    simp [sem, beqList_sem env a b h]
  | .union a, .union b, h => by
    simp only [beq] at h
    simp [sem, (beqList_sem env a b h).2]
  | .any, .empty, h | .any, .expr _, h | .any, .eqU _ _, h | .any, .neM _ _, h | .any, .multi _, h | .any, .union _, h
  | .empty, .any, h | .empty, .expr _, h | .empty, .eqU _ _, h | .empty, .neM _ _, h | .empty, .multi _, h | .empty, .union _, h
  | .expr _, .any, h | .expr _, .empty, h | .expr _, .eqU _ _, h | .expr _, .neM _ _, h | .expr _, .multi _, h | .expr _, .union _, h
  | .eqU _ _, .any, h | .eqU _ _, .empty, h | .eqU _ _, .expr _, h | .eqU _ _, .neM _ _, h | .eqU _ _, .multi _, h | .eqU _ _, .union _, h
  | .neM _ _, .any, h | .neM _ _, .empty, h | .neM _ _, .expr _, h | .neM _ _, .eqU _ _, h | .neM _ _, .multi _, h | .neM _ _, .union _, h
  | .multi _, .any, h | .multi _, .empty, h | .multi _, .expr _, h | .multi _, .eqU _ _, h | .multi _, .neM _ _, h | .multi _, .union _, h
  | .union _, .any, h | .union _, .empty, h | .union _, .expr _, h | .union _, .eqU _ _, h | .union _, .neM _ _, h | .union _, .multi _, h => by
    simp [beq] at h
theorem beqList_sem (env : Env) : ∀ (xs ys : List M), beqList xs ys = true →
    semAll env xs = semAll env ys ∧ semAny env xs = semAny env ys
  | [], [], _ => ⟨rfl, rfl⟩
  | x :: xs, y :: ys, h => by
    simp only [beqList, Bool.and_eq_true] at h
    have h1 := beq_sem env x y h.1
    have h2 := beqList_sem env xs ys h.2
    simp [semAll, semAny, h1, h2.1, h2.2]
  | [], _ :: _, h | _ :: _, [], h => by simp [beqList] at h
end


/-! ### aggregation: `all` for conjunctions, `any` for disjunctions -/

/-- meaning of a list of children under a conjunction (`isAnd`) or a disjunction -/
def agg (env : Env) (isAnd : Bool) (l : List M) : Bool :=
  if isAnd then l.all (sem env) else l.any (sem env)

/-- `x && y` or `x || y` -/
def bop (isAnd : Bool) (x y : Bool) : Bool := if isAnd then x && y else x || y

theorem agg_nil (env : Env) (isAnd : Bool) : agg env isAnd [] = isAnd := by
  cases isAnd <;> simp [agg]

theorem agg_cons (env : Env) (isAnd : Bool) (x : M) (l : List M) :
    agg env isAnd (x :: l) = bop isAnd (sem env x) (agg env isAnd l) := by
  cases isAnd <;> simp [agg, bop]

theorem agg_append (env : Env) (isAnd : Bool) (l1 l2 : List M) :
    agg env isAnd (l1 ++ l2) = bop isAnd (agg env isAnd l1) (agg env isAnd l2) := by
  cases isAnd <;> simp [agg, bop]

theorem bop_assoc (b : Bool) (x y z : Bool) : bop b (bop b x y) z = bop b x (bop b y z) := by
  cases b <;> simp [bop, Bool.and_assoc, Bool.or_assoc]

theorem bop_comm (b : Bool) (x y : Bool) : bop b x y = bop b y x := by
  cases b <;> simp [bop, Bool.and_comm, Bool.or_comm]

theorem bop_idem (b : Bool) (x : Bool) : bop b x x = x := by cases b <;> simp [bop]

theorem bop_unit (b : Bool) (x : Bool) : bop b x b = x := by cases b <;> cases x <;> rfl
theorem bop_unit' (b : Bool) (x : Bool) : bop b b x = x := by cases b <;> cases x <;> rfl
/-- the absorbing element -/
theorem bop_absorb (b : Bool) (x : Bool) : bop b (!b) x = !b := by cases b <;> cases x <;> rfl

theorem memB_sem (env : Env) (x : M) (l : List M) (h : memB x l = true) : ∃ y ∈ l, sem env y = sem env x := by
  unfold memB at h
  rw [List.any_eq_true] at h
  obtain ⟨y, hy, hb⟩ := h
  exact ⟨y, hy, (beq_sem env x y hb).symm⟩

/-- an element already present changes nothing -/
theorem agg_mem (env : Env) (isAnd : Bool) (l : List M) (y : M) (hy : y ∈ l) :
    bop isAnd (agg env isAnd l) (sem env y) = agg env isAnd l := by
  induction l with
  | nil => simp at hy
  | cons z zs ih =>
    rw [agg_cons]
    simp only [List.mem_cons] at hy
    rcases hy with rfl | hy
    · cases isAnd <;> simp [bop] <;> cases sem env y <;> simp
    · have := ih hy
      cases isAnd <;> simp [bop] at this ⊢ <;> cases sem env z <;> simp_all

theorem addNew_agg (env : Env) (isAnd : Bool) (acc : List M) (x : M) :
    agg env isAnd (addNew acc x) = bop isAnd (agg env isAnd acc) (sem env x) := by
  unfold addNew
  by_cases h : memB x acc = true
  · obtain ⟨y, hy, hs⟩ := memB_sem env x acc h
    simp only [h, if_true]
    rw [← hs, agg_mem env isAnd acc y hy]
  · simp only [h, Bool.false_eq_true, if_false]
    rw [agg_append, agg_cons, agg_nil, bop_unit]

theorem foldl_addNew_agg (env : Env) (isAnd : Bool) (xs acc : List M) :
    agg env isAnd (xs.foldl addNew acc) = bop isAnd (agg env isAnd acc) (agg env isAnd xs) := by
  induction xs generalizing acc with
  | nil => simp [agg_nil, bop_unit]
  | cons x xs ih =>
    simp only [List.foldl_cons]
    rw [ih, addNew_agg, agg_cons, bop_assoc]

/-- `flatten_items` of a conjunction's children keeps the conjunction's meaning (dually for
    disjunctions) -/
theorem flattenInto_agg (env : Env) (isAnd : Bool) : ∀ (fuel : Nat) (items acc : List M),
    agg env isAnd (flattenInto isAnd fuel items acc) = bop isAnd (agg env isAnd acc) (agg env isAnd items) := by
  intro fuel
  induction fuel with
  | zero => intro items acc; simp only [flattenInto]; exact foldl_addNew_agg env isAnd items acc
  | succ n ih =>
    intro items acc
    simp only [flattenInto]
    induction items generalizing acc with
    | nil => simp [agg_nil, bop_unit]
    | cons item rest ihr =>
      simp only [List.foldl_cons]
      rw [ihr, agg_cons, ← bop_assoc]
      congr 1
      cases isAnd <;> cases item <;>
        simp only [addNew_agg, foldl_addNew_agg, ih, agg_nil, bop_unit', sem, semAll_eq, semAny_eq] <;>
        simp [agg]

theorem mkMulti_sem (env : Env) (fuel : Nat) (ms : List M) : sem env (mkMulti fuel ms) = ms.all (sem env) := by
  have := flattenInto_agg env true fuel ms []
  simp only [agg, if_true, List.all_nil, bop, Bool.true_and] at this
  simp [mkMulti, sem, semAll_eq, this]

theorem mkUnion_sem (env : Env) (fuel : Nat) (ms : List M) : sem env (mkUnion fuel ms) = ms.any (sem env) := by
  have := flattenInto_agg env false fuel ms []
  simp only [agg, Bool.false_eq_true, if_false, List.any_nil, bop, Bool.false_or] at this
  simp [mkUnion, sem, semAny_eq, this]

theorem all_or_left (a : Bool) (g : α → Bool) (l : List α) : l.all (fun x => a || g x) = (a || l.all g) := by
  induction l with
  | nil => simp
  | cons x xs ih => simp only [List.all_cons, ih]; cases a <;> simp

theorem all_or_right (b : Bool) (g : α → Bool) (l : List α) : l.all (fun x => g x || b) = (l.all g || b) := by
  induction l with
  | nil => simp
  | cons x xs ih => simp only [List.all_cons, ih]; cases b <;> simp

theorem any_and_left (a : Bool) (g : α → Bool) (l : List α) : l.any (fun x => a && g x) = (a && l.any g) := by
  induction l with
  | nil => simp
  | cons x xs ih => simp only [List.any_cons, ih]; cases a <;> simp

theorem any_and_right (b : Bool) (g : α → Bool) (l : List α) : l.any (fun x => g x && b) = (l.any g && b) := by
  induction l with
  | nil => simp
  | cons x xs ih => simp only [List.any_cons, ih]; cases b <;> simp

/-- distribution used by `cnf`: ⋀ over all choices c of (⋁ c) = ⋁ over the lists of (⋀ list) -/
theorem product_all_any (f : M → Bool) : ∀ (ls : List (List M)),
    (product ls).all (fun c => c.any f) = ls.any (fun l => l.all f) := by
  intro ls
  induction ls with
  | nil => simp [product]
  | cons l ls ih =>
    simp only [product, List.all_flatMap, List.all_map, List.any_cons]
    have : ∀ x, ((product ls).all ((fun c => c.any f) ∘ fun r => x :: r)) = (f x || (product ls).all (fun c => c.any f)) := by
      intro x
      have := all_or_left (f x) (fun c : List M => c.any f) (product ls)
      simpa [Function.comp_def, List.any_cons] using this
    simp only [this, ih]
    exact all_or_right _ _ _

/-- distribution used by `dnf` -/
theorem product_any_all (f : M → Bool) : ∀ (ls : List (List M)),
    (product ls).any (fun c => c.all f) = ls.all (fun l => l.any f) := by
  intro ls
  induction ls with
  | nil => simp [product]
  | cons l ls ih =>
    simp only [product, List.any_flatMap, List.any_map, List.all_cons]
    have : ∀ x, ((product ls).any ((fun c => c.all f) ∘ fun r => x :: r)) = (f x && (product ls).any (fun c => c.all f)) := by
      intro x
      have := any_and_left (f x) (fun c : List M => c.all f) (product ls)
      simpa [Function.comp_def, List.all_cons] using this
    simp only [this, ih]
    exact any_and_right _ _ _

end M
end DepLogic
