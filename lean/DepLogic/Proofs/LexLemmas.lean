import DepLogic.Model.SpecParse
/-
  Character level: printing a natural number / a final version and reading it back.
-/
namespace DepLogic
namespace Lex
open SpecParse

theorem digitChar_val (k : Nat) (h : k < 10) : (Nat.digitChar k).toNat - '0'.toNat = k ∧ (Nat.digitChar k).isDigit = true := by
  have : k = 0 ∨ k = 1 ∨ k = 2 ∨ k = 3 ∨ k = 4 ∨ k = 5 ∨ k = 6 ∨ k = 7 ∨ k = 8 ∨ k = 9 := by omega
  rcases this with rfl | rfl | rfl | rfl | rfl | rfl | rfl | rfl | rfl | rfl <;> decide

def digitsVal (s : List Char) : Nat := s.foldl (fun n c => n * 10 + (c.toNat - '0'.toNat)) 0

theorem digitsVal_append (s : List Char) (c : Char) : digitsVal (s ++ [c]) = digitsVal s * 10 + (c.toNat - '0'.toNat) := by
  simp [digitsVal, List.foldl_append]

theorem digitsVal_toDigits : ∀ n : Nat, digitsVal (Nat.toDigits 10 n) = n := by
  intro n
  induction n using Nat.strongRecOn with
  | ind n ih =>
    rw [Nat.toDigits_eq_if (by omega)]
    split
    · rename_i h
      have := (digitChar_val n h).1
      simpa [digitsVal] using this
    · rename_i h
      rw [digitsVal_append, ih (n / 10) (by omega), (digitChar_val (n % 10) (Nat.mod_lt _ (by omega))).1]
      omega

theorem all_isDigit_toDigits (n : Nat) : (Nat.toDigits 10 n).all Char.isDigit = true := by
  rw [List.all_eq_true]
  intro c hc
  exact Nat.isDigit_of_mem_toDigits (by omega) (by omega) hc

/-- `int(str(n)) == n` -/
theorem natOfDigits_toString (n : Nat) : natOfDigits? (toString n).toList = some n := by
  have h : (toString n).toList = Nat.toDigits 10 n := by simp
  rw [h]
  unfold natOfDigits?
  have hne : (Nat.toDigits 10 n).isEmpty = false := by
    cases hl : Nat.toDigits 10 n with
    | nil => exact absurd hl Nat.toDigits_ne_nil
    | cons _ _ => rfl
  simp only [hne, Bool.false_eq_true, if_false, all_isDigit_toDigits, if_true]
  exact congrArg some (digitsVal_toDigits n)

/-! ### splitting -/

theorem splitOnChar_none (c : Char) : ∀ l : List Char, c ∉ l → splitOnChar c l = [l]
  | [], _ => rfl
  | x :: xs, h => by
    have hx : (x == c) = false := by
      simp only [List.mem_cons, not_or] at h; exact beq_eq_false_iff_ne.mpr (fun e => h.1 e.symm)
    have := splitOnChar_none c xs (by simp only [List.mem_cons, not_or] at h; exact h.2)
    simp [splitOnChar, hx, this]

theorem splitOnChar_append (c : Char) : ∀ (a rest : List Char), c ∉ a →
    splitOnChar c (a ++ c :: rest) = a :: splitOnChar c rest
  | [], rest, _ => by simp [splitOnChar]
  | x :: xs, rest, h => by
    simp only [List.mem_cons, not_or] at h
    have hx : (x == c) = false := beq_eq_false_iff_ne.mpr (fun e => h.1 e.symm)
    have ih := splitOnChar_append c xs rest h.2
    simp [splitOnChar, hx, ih]

theorem splitOnChar_intercalate (c : Char) : ∀ (ds : List (List Char)), ds ≠ [] → (∀ d ∈ ds, c ∉ d) →
    splitOnChar c ([c].intercalate ds) = ds
  | [], h, _ => absurd rfl h
  | [d], _, hd => by
    have : [c].intercalate [d] = d := by simp [List.intercalate]
    rw [this]; exact splitOnChar_none c d (hd d (by simp))
  | d :: d' :: rest, _, hd => by
    have : [c].intercalate (d :: d' :: rest) = d ++ c :: [c].intercalate (d' :: rest) := by
      simp [List.intercalate, List.intersperse]
    rw [this, splitOnChar_append c d _ (hd d (by simp)),
      splitOnChar_intercalate c (d' :: rest) (by simp) (fun x hx => hd x (by simp [hx]))]

/-! ### digits -/

def digs (n : Nat) : List Char := Nat.toDigits 10 n

theorem digs_ne_nil (n : Nat) : digs n ≠ [] := Nat.toDigits_ne_nil

theorem digs_isDigit (n : Nat) : ∀ c ∈ digs n, c.isDigit = true :=
  fun _ hc => Nat.isDigit_of_mem_toDigits (by omega) (by omega) hc

theorem not_mem_digs (n : Nat) (c : Char) (h : c.isDigit = false) : c ∉ digs n := by
  intro hc; rw [digs_isDigit n c hc] at h; cases h

theorem natOfDigits_digs (n : Nat) : natOfDigits? (digs n) = some n := by
  have := natOfDigits_toString n
  simpa [digs] using this

theorem span_loop_all (p : Char → Bool) : ∀ (l acc : List Char), (∀ c ∈ l, p c = true) →
    List.span.loop p l acc = (acc.reverse ++ l, [])
  | [], acc, _ => by simp [List.span.loop]
  | x :: xs, acc, h => by
    have hx := h x (by simp)
    simp only [List.span.loop, hx]
    rw [span_loop_all p xs (x :: acc) (fun c hc => h c (by simp [hc]))]
    simp

theorem span_digs (n : Nat) : spanDigits (digs n) = (digs n, []) := by
  unfold spanDigits List.span
  rw [span_loop_all _ _ [] (digs_isDigit n)]
  simp

theorem parseItem_digs (n : Nat) : parseItem (digs n) = some (.rel n) := by
  have hne := digs_ne_nil n
  have hd := digs_isDigit n
  unfold parseItem
  cases hl : digs n with
  | nil => exact absurd hl hne
  | cons x xs =>
    have hx : x.isDigit = true := hd x (by rw [hl]; simp)
    have hp : x ≠ 'p' := by intro e; subst e; revert hx; decide
    have hdd : x ≠ 'd' := by intro e; subst e; revert hx; decide
    have hsp := span_digs n
    have hnat := natOfDigits_digs n
    rw [hl] at hsp hnat
    split
    · rename_i heq; simp only [List.cons.injEq] at heq; exact absurd heq.1 hp
    · rename_i heq; simp only [List.cons.injEq] at heq; exact absurd heq.1 hdd
    · simp only [hsp, hnat]

/-! ### a final release -/

/-- `".".join(str(n) for n in release)` -/
def relText (rel : List Nat) : List Char := ['.'].intercalate (rel.map digs)

theorem mem_intercalate (sep : Char) : ∀ (ds : List (List Char)) (c : Char), c ∈ [sep].intercalate ds →
    c = sep ∨ ∃ d ∈ ds, c ∈ d
  | [], c, h => by simp [List.intercalate] at h
  | [d], c, h => by
    have : [sep].intercalate [d] = d := by simp [List.intercalate]
    rw [this] at h; exact Or.inr ⟨d, by simp, h⟩
  | d :: d' :: rest, c, h => by
    have : [sep].intercalate (d :: d' :: rest) = d ++ sep :: [sep].intercalate (d' :: rest) := by
      simp [List.intercalate, List.intersperse]
    rw [this] at h
    simp only [List.mem_append, List.mem_cons] at h
    rcases h with h | h | h
    · exact Or.inr ⟨d, by simp, h⟩
    · exact Or.inl h
    · rcases mem_intercalate sep (d' :: rest) c h with h | ⟨x, hx, hc⟩
      · exact Or.inl h
      · exact Or.inr ⟨x, by simp [hx], hc⟩

/-- the characters of a rendered release are digits and dots -/
theorem relText_chars (rel : List Nat) (c : Char) (h : c ∈ relText rel) : c = '.' ∨ c.isDigit = true := by
  rcases mem_intercalate '.' _ c h with h | ⟨d, hd, hc⟩
  · exact Or.inl h
  · simp only [List.mem_map] at hd
    obtain ⟨n, _, rfl⟩ := hd
    exact Or.inr (digs_isDigit n c hc)

theorem not_mem_relText (rel : List Nat) (c : Char) (h1 : c ≠ '.') (h2 : c.isDigit = false) : c ∉ relText rel := by
  intro h
  rcases relText_chars rel c h with h | h
  · exact h1 h
  · rw [h] at h2; cases h2

theorem go_rels (e : Nat) : ∀ (ns acc : List Nat),
    parseVerL.go e acc none none none 0 (ns.map Item.rel) =
      if (acc.reverse ++ ns).isEmpty then none else some { epoch := e, release := acc.reverse ++ ns }
  | [], acc => by
    simp only [List.map_nil, parseVerL.go, List.append_nil, List.isEmpty_reverse]
  | n :: ns, acc => by
    simp only [List.map_cons, parseVerL.go, beq_self_eq_true, if_true]
    rw [go_rels e ns (n :: acc)]
    simp

/-- `Version(".".join(map(str, release)))` is the final release with that release tuple -/
theorem parseVerL_relText (rel : List Nat) (h : rel ≠ []) : parseVerL (relText rel) = some { release := rel } := by
  unfold parseVerL
  have hbang : splitOnChar '!' (relText rel) = [relText rel] :=
    splitOnChar_none '!' _ (not_mem_relText rel '!' (by decide) (by decide))
  have hdots : splitOnChar '.' (relText rel) = rel.map digs := by
    apply splitOnChar_intercalate
    · simpa using h
    · intro d hd
      simp only [List.mem_map] at hd
      obtain ⟨n, _, rfl⟩ := hd
      exact not_mem_digs n '.' (by decide)
  simp only [hbang, hdots, List.map_map]
  have hitems : (rel.map (parseItem ∘ digs)) = rel.map (fun n => some (Item.rel n)) := by
    apply List.map_congr_left; intro n _; exact parseItem_digs n
  rw [hitems]
  have hany : (rel.map (fun n => some (Item.rel n))).any Option.isNone = false := by
    simp [List.any_eq_false]
  have hfm : (rel.map (fun n => some (Item.rel n))).filterMap id = rel.map Item.rel := by
    induction rel with
    | nil => rfl
    | cons x xs ih => simp [List.filterMap_cons]
  simp only [hany, Bool.false_eq_true, if_false, hfm]
  rw [go_rels 0 rel []]
  have : ([].reverse ++ rel).isEmpty = false := by
    cases rel with
    | nil => exact absurd rfl h
    | cons _ _ => rfl
  simp [this, h]

theorem relText_head (rel : List Nat) (h : rel ≠ []) : ∃ x xs, relText rel = x :: xs ∧ x.isDigit = true := by
  cases rel with
  | nil => exact absurd rfl h
  | cons n ns =>
    have hd := digs_ne_nil n
    cases hl : digs n with
    | nil => exact absurd hl hd
    | cons x xs =>
      have hx : x.isDigit = true := digs_isDigit n x (by rw [hl]; simp)
      cases ns with
      | nil => exact ⟨x, xs, by simp [relText, List.intercalate, hl], hx⟩
      | cons m ms =>
        refine ⟨x, xs ++ '.' :: ['.'].intercalate ((m :: ms).map digs), ?_, hx⟩
        simp [relText, List.intercalate, List.intersperse, hl]

theorem relText_cons (a : Nat) (bs : List Nat) (h : bs ≠ []) : relText (a :: bs) = digs a ++ '.' :: relText bs := by
  cases bs with
  | nil => exact absurd rfl h
  | cons b bs' => simp [relText, List.intercalate, List.intersperse]

theorem relText_snoc : ∀ (init : List Nat) (last : Nat), ∃ pre, relText (init ++ [last]) = pre ++ digs last
  | [], last => ⟨[], by simp [relText, List.intercalate]⟩
  | a :: as, last => by
    obtain ⟨pre, hpre⟩ := relText_snoc as last
    refine ⟨digs a ++ '.' :: pre, ?_⟩
    rw [List.cons_append, relText_cons a (as ++ [last]) (by simp), hpre]; simp

theorem relText_last (rel : List Nat) (h : rel ≠ []) : ∃ y ys, (relText rel).reverse = y :: ys ∧ y.isDigit = true := by
  have hsplit : ∃ init last, rel = init ++ [last] := by
    cases hrev : rel.reverse with
    | nil => simp at hrev; exact absurd hrev h
    | cons l i => exact ⟨i.reverse, l, by have := congrArg List.reverse hrev; simpa using this⟩
  obtain ⟨init, last, rfl⟩ := hsplit
  obtain ⟨pre, hpn⟩ := relText_snoc init last
  rw [hpn, List.reverse_append]
  cases hdn : (digs last).reverse with
  | nil => simp at hdn; exact absurd hdn (digs_ne_nil last)
  | cons z zs =>
    refine ⟨z, zs ++ pre.reverse, by simp, ?_⟩
    have hz : z ∈ digs last := by
      have : z ∈ (digs last).reverse := by rw [hdn]; simp
      simpa using this
    exact digs_isDigit last z hz

/-! ### a clause over a final release -/

theorem splitOp_op (op : COp) (x : Char) (xs : List Char) (hx : x ≠ '=') :
    splitOp (op.str.toList ++ x :: xs) = (some op, x :: xs) := by
  cases op <;> simp [COp.str, splitOp, hx]

theorem stripWild_plain (rest ys : List Char) (y : Char) (hr : rest.reverse = y :: ys) (hy : y ≠ '*') :
    stripWild rest = (rest, false) := by
  unfold stripWild
  rw [hr]
  split
  · rename_i heq; simp only [List.cons.injEq] at heq; exact absurd heq.1 hy
  · rfl

theorem stripWild_wild (body : List Char) : stripWild (body ++ ['.', '*']) = (body, true) := by
  simp [stripWild]

theorem parseClauseL_final (op : COp) (rel : List Nat) (h : rel ≠ []) (wild : Bool)
    (hw : wild = true → op = .eq ∨ op = .ne) :
    parseClauseL (op.str.toList ++ (relText rel ++ (if wild then ['.', '*'] else []))) =
      some ⟨op, { release := rel }, wild⟩ := by
  obtain ⟨x, xs, hx, hxd⟩ := relText_head rel h
  obtain ⟨y, ys, hy, hyd⟩ := relText_last rel h
  have hxe : x ≠ '=' := by intro e; subst e; revert hxd; decide
  have hys : y ≠ '*' := by intro e; subst e; revert hyd; decide
  have hparse := parseVerL_relText rel h
  unfold parseClauseL
  have hsplit : splitOp (op.str.toList ++ (relText rel ++ (if wild then ['.', '*'] else []))) =
      (some op, relText rel ++ (if wild then ['.', '*'] else [])) := by
    rw [hx, List.cons_append]; exact splitOp_op op x _ hxe
  rw [hsplit]
  cases wild with
  | false =>
    simp only [Bool.false_eq_true, if_false, List.append_nil]
    rw [stripWild_plain _ ys y hy hys]
    simp [hparse]
  | true =>
    simp only [if_true]
    rw [stripWild_wild]
    rcases hw rfl with rfl | rfl <;> simp [hparse, Ver.isFinal]

/-! ### clause sets without separators -/

theorem splitOnBars_none : ∀ l : List Char, '|' ∉ l → splitOnBars l = [l]
  | [], _ => rfl
  | x :: xs, h => by
    simp only [List.mem_cons, not_or] at h
    have ih := splitOnBars_none xs h.2
    unfold splitOnBars
    split
    · rename_i heq; cases heq
    · rename_i heq; cases heq; exact absurd rfl h.1
    · rename_i heq; cases heq; simp [ih]

theorem dropWhile_none (l : List Char) (h : ' ' ∉ l) : l.dropWhile (· == ' ') = l := by
  cases l with
  | nil => rfl
  | cons x xs =>
    simp only [List.mem_cons, not_or] at h
    have : (x == ' ') = false := beq_eq_false_iff_ne.mpr (fun e => h.1 e.symm)
    simp [List.dropWhile, this]

theorem trimL_none (l : List Char) (h : ' ' ∉ l) : trimL l = l := by
  unfold trimL
  rw [dropWhile_none l h, dropWhile_none l.reverse (by simpa using h), List.reverse_reverse]

def Clean (l : List Char) : Prop := ',' ∉ l ∧ '|' ∉ l ∧ ' ' ∉ l

/-- a text without `,`, `|`, blanks is one alternative with one clause (or not a specifier at all) -/
theorem parseAltsText_clean (s : String) (hc : Clean s.toList) (hne : s.toList ≠ []) (hemp : s.toList ≠ "<empty>".toList) :
    parseAltsText s = (parseClauseL s.toList).map fun c => [.clauses [c]] := by
  simp only [parseAltsText]
  rw [splitOnBars_none _ hc.2.1]
  have h1 : (s.toList == "<empty>".toList) = false := by
    cases h : (s.toList == "<empty>".toList)
    · rfl
    · rw [beq_iff_eq] at h; exact absurd h hemp
  have h2 : s.toList.isEmpty = false := by
    cases h : s.toList
    · exact absurd h hne
    · rfl
  simp only [List.map_cons, List.map_nil, h1, Bool.false_eq_true, if_false, trimL_none _ hc.2.2, h2,
    splitOnChar_none ',' _ hc.1]
  cases parseClauseL s.toList <;> simp

theorem relText_clean (rel : List Nat) (suffix : List Char) (hs : Clean suffix) : Clean (relText rel ++ suffix) := by
  simp only [Clean, List.mem_append, not_or]
  exact ⟨⟨not_mem_relText rel ',' (by decide) (by decide), hs.1⟩,
         ⟨not_mem_relText rel '|' (by decide) (by decide), hs.2.1⟩,
         ⟨not_mem_relText rel ' ' (by decide) (by decide), hs.2.2⟩⟩

theorem toList_relString (rel : List Nat) : (".".intercalate (rel.map toString)).toList = relText rel := by
  rw [String.toList_intercalate]
  simp only [relText, List.map_map]
  congr 1
  apply List.map_congr_left
  intro n _
  simp [digs]

/-- `str(Version)` of a final release with epoch 0 -/
theorem toList_str_final (v : Ver) (hf : v.isFinal = true) (he : v.epoch = 0) : v.str.toList = relText v.release := by
  rcases v with ⟨e, r, pre, post, dev⟩
  simp only at he; subst he
  cases pre <;> cases post <;> cases dev <;> simp [Ver.isFinal] at hf
  simp only [Ver.str, bne_self_eq_false, Bool.false_eq_true, if_false, String.empty_append, String.append_empty]
  exact toList_relString r

end Lex
end DepLogic
