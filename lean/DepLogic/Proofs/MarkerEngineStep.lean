import DepLogic.Proofs.MarkerEngine
/-
  Inductive step of the engine soundness proof: `Sound env G n → Sound env G (n + 1)`.
-/
namespace DepLogic
namespace M

variable {env : Env} {G : M → Prop}

theorem agg_true (l : List M) : agg env true l = l.all (sem env) := by simp [agg]
theorem agg_false (l : List M) : agg env false l = l.any (sem env) := by simp [agg]

theorem flatOk_true (n : Nat) : FlatOk env G true (fun l => flattenInto true n l []) := by
  intro l hl
  refine ⟨flattenInto_G G true n l [] hl (by simp [GAllL]), ?_⟩
  rw [flattenInto_agg, agg_nil, bop_unit']

theorem flatOk_false (n : Nat) : FlatOk env G false (fun l => flattenInto false n l []) := by
  intro l hl
  refine ⟨flattenInto_G G false n l [] hl (by simp [GAllL]), ?_⟩
  rw [flattenInto_agg, agg_nil, bop_unit']

/-! #### passes and loops -/

theorem step_mpass (n : Nat) (h : Sound env G n) : ∀ old, GAllL G old →
    PassInv env G true (multiPass (n + 1) old) (old.all (sem env)) := by
  intro old hold
  simp only [multiPass]
  have hd := decideWith_ok env G true (M.and n) (intersectSimplify n)
    (fun a b ha hb => by simpa [bop] using h.and_ a b ha hb)
    (fun a b r ha hb hr => by simpa [bop] using h.isimp_ a b r ha hb hr)
  have := pass_fold env G true _ _ hd (flatOk_true n) old (some []) true hold
    (by simp [PassInv, GAllL, agg])
  simpa [bop, agg] using this

theorem step_upass (n : Nat) (h : Sound env G n) : ∀ old, GAllL G old →
    PassInv env G false (unionPass (n + 1) old) (old.any (sem env)) := by
  intro old hold
  simp only [unionPass]
  have hd := decideWith_ok env G false (M.or n) (unionSimplify n)
    (fun a b ha hb => by simpa [bop] using h.or_ a b ha hb)
    (fun a b r ha hb hr => by simpa [bop] using h.usimp_ a b r ha hb hr)
  have := pass_fold env G false _ _ hd (flatOk_false n) old (some []) false hold
    (by simp [PassInv, GAllL, agg])
  simpa [bop, agg] using this

theorem step_mloop (n : Nat) (h : Sound env G n) : ∀ old new, GAllL G new →
    PassInv env G true (multiLoop (n + 1) old new) (new.all (sem env)) := by
  intro old new hnew
  simp only [multiLoop]
  split
  · simp [PassInv, agg, hnew]
  · have hp := h.mpass_ new hnew
    cases hmp : multiPass n new with
    | none =>
      rw [hmp] at hp
      simpa [PassInv] using hp
    | some new' =>
      rw [hmp] at hp
      simp only [PassInv] at hp
      have := h.mloop_ new new' hp.1
      simp only [agg_true] at hp
      rw [hp.2] at this
      exact this

theorem step_uloop (n : Nat) (h : Sound env G n) : ∀ old new, GAllL G new →
    PassInv env G false (unionLoop (n + 1) old new) (new.any (sem env)) := by
  intro old new hnew
  simp only [unionLoop]
  split
  · simp [PassInv, agg, hnew]
  · have hp := h.upass_ new hnew
    cases hmp : unionPass n new with
    | none =>
      rw [hmp] at hp
      simpa [PassInv] using hp
    | some new' =>
      rw [hmp] at hp
      simp only [PassInv] at hp
      have := h.uloop_ new new' hp.1
      simp only [agg_false] at hp
      rw [hp.2] at this
      exact this

/-! #### `of` -/

theorem any_isEmpty_all (l : List M) (hl : l.any isEmpty = true) : l.all (sem env) = false := by
  rw [List.any_eq_true] at hl
  obtain ⟨x, hx, he⟩ := hl
  cases x <;> simp [isEmpty] at he
  rw [List.all_eq_false]
  exact ⟨.empty, hx, by simp [sem]⟩

theorem any_isAny_any (l : List M) (hl : l.any isAny = true) : l.any (sem env) = true := by
  rw [List.any_eq_true] at hl ⊢
  obtain ⟨x, hx, he⟩ := hl
  cases x <;> simp [isAny] at he
  exact ⟨.any, hx, by simp [sem]⟩

theorem step_multiOf (n : Nat) (h : Sound env G n) : ∀ ms, GAllL G ms →
    GAll G (multiOf (n + 1) ms) ∧ sem env (multiOf (n + 1) ms) = ms.all (sem env) := by
  intro ms hms
  simp only [multiOf]
  have hflat := (flatOk_true (env := env) (G := G) n) ms hms
  simp only [agg_true] at hflat
  have hl := h.mloop_ [] (flattenInto true n ms []) hflat.1
  cases hml : multiLoop n [] (flattenInto true n ms []) with
  | none =>
    rw [hml] at hl
    simp only [PassInv, Bool.not_true] at hl
    exact ⟨by simp [GAll], by simp [sem, ← hflat.2, hl]⟩
  | some new =>
    rw [hml] at hl
    simp only [PassInv, agg_true] at hl
    obtain ⟨hG, hs⟩ := hl
    rw [hflat.2] at hs
    simp only []
    by_cases he : new.any isEmpty = true
    · simp only [he, if_true]
      exact ⟨by simp [GAll], by simp [sem, ← hs, any_isEmpty_all new he]⟩
    · simp only [he, Bool.false_eq_true, if_false]
      match new, hG, hs with
      | [], _, hs => exact ⟨by simp [GAll], by simp [sem, ← hs]⟩
      | [m], hG, hs => exact ⟨hG.1, by simp [← hs]⟩
      | a :: b :: rest, hG, hs => exact ⟨mkMulti_G G n _ hG, by rw [mkMulti_sem, hs]⟩

theorem step_unionOfList (n : Nat) (h : Sound env G n) : ∀ ms, GAllL G ms →
    GAll G (unionOfList (n + 1) ms) ∧ sem env (unionOfList (n + 1) ms) = ms.any (sem env) := by
  intro ms hms
  simp only [unionOfList]
  have hflat := (flatOk_false (env := env) (G := G) n) ms hms
  simp only [agg_false] at hflat
  have hl := h.uloop_ [] (flattenInto false n ms []) hflat.1
  cases hml : unionLoop n [] (flattenInto false n ms []) with
  | none =>
    rw [hml] at hl
    simp only [PassInv, Bool.not_false] at hl
    exact ⟨by simp [GAll], by simp [sem, ← hflat.2, hl]⟩
  | some new =>
    rw [hml] at hl
    simp only [PassInv, agg_false] at hl
    obtain ⟨hG, hs⟩ := hl
    rw [hflat.2] at hs
    simp only []
    by_cases he : new.any isAny = true
    · simp only [he, if_true]
      exact ⟨by simp [GAll], by simp [sem, ← hs, any_isAny_any new he]⟩
    · simp only [he, Bool.false_eq_true, if_false]
      match new, hG, hs with
      | [], _, hs => exact ⟨by simp [GAll], by simp [sem, ← hs]⟩
      | [m], hG, hs => exact ⟨hG.1, by simp [← hs]⟩
      | a :: b :: rest, hG, hs => exact ⟨mkUnion_G G n _ hG, by rw [mkUnion_sem, hs]⟩


/-! #### `cnf` / `dnf` -/

theorem multiChildren_sem (m : M) : (multiChildren m).all (sem env) = sem env m := by
  cases m <;> simp [multiChildren, sem, semAll_eq]

theorem unionChildren_sem (m : M) : (unionChildren m).any (sem env) = sem env m := by
  cases m <;> simp [unionChildren, sem, semAny_eq]

theorem multiChildren_G (m : M) (h : GAll G m) : GAllL G (multiChildren m) := by
  cases m <;> simp [multiChildren, GAllL] <;> simpa [GAll] using h

theorem unionChildren_G (m : M) (h : GAll G m) : GAllL G (unionChildren m) := by
  cases m <;> simp [unionChildren, GAllL] <;> simpa [GAll] using h

theorem product_G : ∀ (ls : List (List M)), (∀ l ∈ ls, GAllL G l) → ∀ c ∈ product ls, GAllL G c := by
  intro ls
  induction ls with
  | nil => intro _ c hc; simp [product] at hc; subst hc; simp [GAllL]
  | cons l ls ih =>
    intro h c hc
    simp only [product, List.mem_flatMap, List.mem_map] at hc
    obtain ⟨x, hx, r, hr, rfl⟩ := hc
    exact ⟨(GAllL_iff G l).1 (h l (by simp)) x hx, ih (fun l' hl' => h l' (by simp [hl'])) r hr⟩

theorem all_congr' {α : Type} (l : List α) (p q : α → Bool) (h : ∀ a ∈ l, p a = q a) : l.all p = l.all q := by
  induction l with
  | nil => rfl
  | cons x xs ih =>
    simp only [List.all_cons, h x (by simp), ih (fun a ha => h a (by simp [ha]))]

theorem any_congr' {α : Type} (l : List α) (p q : α → Bool) (h : ∀ a ∈ l, p a = q a) : l.any p = l.any q := by
  induction l with
  | nil => rfl
  | cons x xs ih =>
    simp only [List.any_cons, h x (by simp), ih (fun a ha => h a (by simp [ha]))]

theorem map_G {α : Type} (f : α → M) (ms : List α) (h : ∀ m ∈ ms, GAll G (f m)) : GAllL G (ms.map f) := by
  rw [GAllL_iff]
  intro x hx
  obtain ⟨m, hm, rfl⟩ := List.mem_map.1 hx
  exact h m hm

theorem step_cnf (n : Nat) (h : Sound env G n) : ∀ m, GAll G m →
    GAll G (cnf (n + 1) m) ∧ sem env (cnf (n + 1) m) = sem env m := by
  intro m hm
  cases m with
  | union ms =>
    simp only [cnf]
    have hms : ∀ x ∈ ms, GAll G x := (GAllL_iff G ms).1 hm
    have hlists : ∀ l ∈ (ms.map (cnf n)).map multiChildren, GAllL G l := by
      intro l hl
      simp only [List.map_map, List.mem_map] at hl
      obtain ⟨x, hx, rfl⟩ := hl
      exact multiChildren_G _ (h.cnf_ x (hms x hx)).1
    have hprod := product_G _ hlists
    have hG : GAllL G ((product ((ms.map (cnf n)).map multiChildren)).map (unionOfList n)) :=
      map_G _ _ (fun c hc => (h.unionOfList_ c (hprod c hc)).1)
    obtain ⟨r1, r2⟩ := h.multiOf_ _ hG
    refine ⟨r1, ?_⟩
    rw [r2, List.all_map]
    have : ∀ c ∈ product ((ms.map (cnf n)).map multiChildren),
        (sem env ∘ unionOfList n) c = c.any (sem env) := fun c hc => (h.unionOfList_ c (hprod c hc)).2
    rw [all_congr' _ _ _ this, product_all_any]
    simp only [List.any_map, sem, semAny_eq]
    apply any_congr'
    intro x hx
    have := multiChildren_sem (env := env) (cnf n x)
    simp only [Function.comp]
    rw [← (h.cnf_ x (hms x hx)).2, ← this]
  | multi ms =>
    simp only [cnf]
    have hms : ∀ x ∈ ms, GAll G x := (GAllL_iff G ms).1 hm
    obtain ⟨r1, r2⟩ := h.multiOf_ (ms.map (cnf n)) (map_G _ _ (fun x hx => (h.cnf_ x (hms x hx)).1))
    refine ⟨r1, ?_⟩
    rw [r2, List.all_map]
    simp only [sem, semAll_eq]
    exact all_congr' _ _ _ (fun x hx => (h.cnf_ x (hms x hx)).2)
  | any => simp [cnf, GAll]
  | empty => simp [cnf, GAll]
  | expr a => exact ⟨by simpa [cnf] using hm, by simp [cnf]⟩
  | eqU a b => exact ⟨by simpa [cnf] using hm, by simp [cnf]⟩
  | neM a b => exact ⟨by simpa [cnf] using hm, by simp [cnf]⟩

theorem step_dnf (n : Nat) (h : Sound env G n) : ∀ m, GAll G m →
    GAll G (dnf (n + 1) m) ∧ sem env (dnf (n + 1) m) = sem env m := by
  intro m hm
  cases m with
  | multi ms =>
    simp only [dnf]
    have hms : ∀ x ∈ ms, GAll G x := (GAllL_iff G ms).1 hm
    have hlists : ∀ l ∈ (ms.map (dnf n)).map unionChildren, GAllL G l := by
      intro l hl
      simp only [List.map_map, List.mem_map] at hl
      obtain ⟨x, hx, rfl⟩ := hl
      exact unionChildren_G _ (h.dnf_ x (hms x hx)).1
    have hprod := product_G _ hlists
    have hG : GAllL G ((product ((ms.map (dnf n)).map unionChildren)).map (multiOf n)) :=
      map_G _ _ (fun c hc => (h.multiOf_ c (hprod c hc)).1)
    obtain ⟨r1, r2⟩ := h.unionOfList_ _ hG
    refine ⟨r1, ?_⟩
    rw [r2, List.any_map]
    have : ∀ c ∈ product ((ms.map (dnf n)).map unionChildren),
        (sem env ∘ multiOf n) c = c.all (sem env) := fun c hc => (h.multiOf_ c (hprod c hc)).2
    rw [any_congr' _ _ _ this, product_any_all]
    simp only [List.all_map, sem, semAll_eq]
    apply all_congr'
    intro x hx
    have := unionChildren_sem (env := env) (dnf n x)
    simp only [Function.comp]
    rw [← (h.dnf_ x (hms x hx)).2, ← this]
  | union ms =>
    simp only [dnf]
    have hms : ∀ x ∈ ms, GAll G x := (GAllL_iff G ms).1 hm
    obtain ⟨r1, r2⟩ := h.unionOfList_ (ms.map (dnf n)) (map_G _ _ (fun x hx => (h.dnf_ x (hms x hx)).1))
    refine ⟨r1, ?_⟩
    rw [r2, List.any_map]
    simp only [sem, semAny_eq]
    exact any_congr' _ _ _ (fun x hx => (h.dnf_ x (hms x hx)).2)
  | any => simp [dnf, GAll]
  | empty => simp [dnf, GAll]
  | expr a => exact ⟨by simpa [dnf] using hm, by simp [dnf]⟩
  | eqU a b => exact ⟨by simpa [dnf] using hm, by simp [dnf]⟩
  | neM a b => exact ⟨by simpa [dnf] using hm, by simp [dnf]⟩


/-! #### `intersection` / `union` -/

theorem step_inter (n : Nat) (h : Sound env G n) : ∀ ms, GAllL G ms →
    GAll G (intersection (n + 1) ms) ∧ sem env (intersection (n + 1) ms) = ms.all (sem env) := by
  intro ms hms
  simp only [intersection]
  obtain ⟨r1, r2⟩ := h.dnf_ (mkMulti n ms) (mkMulti_G G n ms hms)
  exact ⟨r1, by rw [r2, mkMulti_sem]⟩

theorem unwrapSingletons_ok : ∀ (k : Nat) (m : M), GAll G m →
    GAll G (unwrapSingletons k m) ∧ sem env (unwrapSingletons k m) = sem env m := by
  intro k
  induction k with
  | zero => intro m hm; exact ⟨by simpa [unwrapSingletons] using hm, by simp [unwrapSingletons]⟩
  | succ k ih =>
    intro m hm
    match m, hm with
    | .multi [x], hm =>
      simp only [unwrapSingletons]
      obtain ⟨r1, r2⟩ := ih x (by simpa [GAll, GAllL] using hm)
      exact ⟨r1, by rw [r2]; simp [sem, semAll]⟩
    | .union [x], hm =>
      simp only [unwrapSingletons]
      obtain ⟨r1, r2⟩ := ih x (by simpa [GAll, GAllL] using hm)
      exact ⟨r1, by rw [r2]; simp [sem, semAny]⟩
    | .multi [], hm | .multi (_ :: _ :: _), hm | .union [], hm | .union (_ :: _ :: _), hm
    | .any, hm | .empty, hm | .expr _, hm | .eqU _ _, hm | .neM _ _, hm =>
      exact ⟨by simpa [unwrapSingletons] using hm, by simp [unwrapSingletons]⟩

theorem filter_notEmpty_any (ms : List M) : (ms.filter fun m => !m.isEmpty).any (sem env) = ms.any (sem env) := by
  rw [List.any_filter]
  apply any_congr'
  intro x _
  cases x <;> simp [isEmpty, sem]

theorem filter_G (p : M → Bool) (ms : List M) (h : GAllL G ms) : GAllL G (ms.filter p) := by
  rw [GAllL_iff] at h ⊢
  intro m hm
  exact h m (List.mem_filter.1 hm).1

theorem step_unionOf (n : Nat) (h : Sound env G n) : ∀ ms, GAllL G ms →
    GAll G (unionOf (n + 1) ms) ∧ sem env (unionOf (n + 1) ms) = ms.any (sem env) := by
  intro ms hms
  simp only [unionOf]
  have hrawG := mkUnion_G G n _ (filter_G (fun m => !m.isEmpty) ms hms)
  have hraws : sem env (mkUnion n (ms.filter fun m => !m.isEmpty)) = ms.any (sem env) := by
    rw [mkUnion_sem, filter_notEmpty_any]
  obtain ⟨u1, u2⟩ := unwrapSingletons_ok (env := env) (n + 1) _ hrawG
  rw [hraws] at u2
  obtain ⟨c1, c2⟩ := h.cnf_ _ u1
  rw [u2] at c2
  obtain ⟨d1, d2⟩ := h.dnf_ _ c1
  rw [c2] at d2
  split
  · exact ⟨c1, c2⟩
  · split
    · exact ⟨d1, d2⟩
    · split <;> split <;> first | exact ⟨u1, u2⟩ | exact ⟨c1, c2⟩ | exact ⟨d1, d2⟩

/-! #### `&` / `|` -/

theorem step_and (hS : SingleSound env G) (n : Nat) (h : Sound env G n) : ∀ a b, GAll G a → GAll G b →
    GAll G (M.and (n + 1) a b) ∧ sem env (M.and (n + 1) a b) = (sem env a && sem env b) := by
  intro a b ha hb
  have hI : ∀ x y, GAll G x → GAll G y →
      GAll G (intersection n [x, y]) ∧ sem env (intersection n [x, y]) = (sem env x && sem env y) := by
    intro x y hx hy
    obtain ⟨r1, r2⟩ := h.inter_ [x, y] ⟨hx, hy, trivial⟩
    exact ⟨r1, by simp [r2]⟩
  have hSS : ∀ x y, x.isSingle = true → y.isSingle = true → GAll G x → GAll G y →
      GAll G (match singleAnd x y with | .done m => m | .pair p q => mkMulti n [p, q]) ∧
      sem env (match singleAnd x y with | .done m => m | .pair p q => mkMulti n [p, q]) = (sem env x && sem env y) := by
    intro x y sx sy hx hy
    have := hS.and_ok x y sx sy ((GAll_single G x sx).1 hx) ((GAll_single G y sy).1 hy)
    cases hsa : singleAnd x y with
    | done m => rw [hsa] at this; exact this
    | pair p q =>
      rw [hsa] at this
      simp only at this ⊢
      rcases this with ⟨rfl, rfl⟩ | ⟨rfl, rfl⟩
      · exact ⟨mkMulti_G G n _ ⟨hx, hy, trivial⟩, by simp [mkMulti_sem]⟩
      · exact ⟨mkMulti_G G n _ ⟨hy, hx, trivial⟩, by simp [mkMulti_sem, Bool.and_comm]⟩
  cases a <;> cases b <;> simp only [M.and] <;>
    first
      | exact ⟨hb, by simp [sem]⟩
      | exact ⟨ha, by simp [sem]⟩
      | exact ⟨by simp [GAll], by simp [sem]⟩
      | exact hI _ _ ha hb
      | (obtain ⟨r1, r2⟩ := hI _ _ hb ha; exact ⟨r1, by rw [r2, Bool.and_comm]⟩)
      | exact hSS _ _ rfl rfl ha hb

theorem step_or (hS : SingleSound env G) (n : Nat) (h : Sound env G n) : ∀ a b, GAll G a → GAll G b →
    GAll G (M.or (n + 1) a b) ∧ sem env (M.or (n + 1) a b) = (sem env a || sem env b) := by
  intro a b ha hb
  have hI : ∀ x y, GAll G x → GAll G y →
      GAll G (unionOf n [x, y]) ∧ sem env (unionOf n [x, y]) = (sem env x || sem env y) := by
    intro x y hx hy
    obtain ⟨r1, r2⟩ := h.unionOf_ [x, y] ⟨hx, hy, trivial⟩
    exact ⟨r1, by simp [r2]⟩
  have hSS : ∀ x y, x.isSingle = true → y.isSingle = true → GAll G x → GAll G y →
      GAll G (match singleOr x y with | .done m => m | .pair p q => mkUnion n [p, q]) ∧
      sem env (match singleOr x y with | .done m => m | .pair p q => mkUnion n [p, q]) = (sem env x || sem env y) := by
    intro x y sx sy hx hy
    have := hS.or_ok x y sx sy ((GAll_single G x sx).1 hx) ((GAll_single G y sy).1 hy)
    cases hsa : singleOr x y with
    | done m => rw [hsa] at this; exact this
    | pair p q =>
      rw [hsa] at this
      simp only at this ⊢
      rcases this with ⟨rfl, rfl⟩ | ⟨rfl, rfl⟩
      · exact ⟨mkUnion_G G n _ ⟨hx, hy, trivial⟩, by simp [mkUnion_sem]⟩
      · exact ⟨mkUnion_G G n _ ⟨hy, hx, trivial⟩, by simp [mkUnion_sem, Bool.or_comm]⟩
  cases a <;> cases b <;> simp only [M.or] <;>
    first
      | exact ⟨hb, by simp [sem]⟩
      | exact ⟨ha, by simp [sem]⟩
      | exact ⟨by simp [GAll], by simp [sem]⟩
      | exact hI _ _ ha hb
      | (obtain ⟨r1, r2⟩ := hI _ _ hb ha; exact ⟨r1, by rw [r2, Bool.or_comm]⟩)
      | exact hSS _ _ rfl rfl ha hb


/-! #### `union_simplify` / `intersect_simplify` -/

theorem Atom.beq_symm (a b : Atom) : a.beq b = b.beq a := by
  rcases a with ⟨n1, o1, v1, r1, s1⟩
  rcases b with ⟨n2, o2, v2, r2, s2⟩
  simp only [Atom.beq]
  rw [Bool.eq_iff_iff]
  simp only [Bool.and_eq_true, beq_iff_eq]
  constructor <;> (rintro ⟨⟨⟨h1, h2⟩, h3⟩, h4⟩; exact ⟨⟨⟨h1.symm, h2.symm⟩, h3.symm⟩, h4.symm⟩)

mutual
theorem beq_symm : ∀ (x y : M), beq x y = beq y x
  | .expr a, .expr b => by simp only [beq]; exact Atom.beq_symm a b
  | .eqU n a, .eqU m b => by
    simp only [beq, setEq]; rw [Bool.eq_iff_iff]; simp only [Bool.and_eq_true, beq_iff_eq]
    constructor <;> (rintro ⟨h1, h2⟩; exact ⟨h1.symm, h2.symm⟩)
  | .neM n a, .neM m b => by
    simp only [beq, setEq]; rw [Bool.eq_iff_iff]; simp only [Bool.and_eq_true, beq_iff_eq]
    constructor <;> (rintro ⟨h1, h2⟩; exact ⟨h1.symm, h2.symm⟩)
  | .multi a, .multi b => by simp only [beq]; exact beqList_symm a b
  | .union a, .union b => by simp only [beq]; exact beqList_symm a b
  | .any, .any | .empty, .empty => rfl
  | .any, .empty | .any, .expr _ | .any, .eqU _ _ | .any, .neM _ _ | .any, .multi _ | .any, .union _
  | .empty, .any | .empty, .expr _ | .empty, .eqU _ _ | .empty, .neM _ _ | .empty, .multi _ | .empty, .union _
  | .expr _, .any | .expr _, .empty | .expr _, .eqU _ _ | .expr _, .neM _ _ | .expr _, .multi _ | .expr _, .union _
  | .eqU _ _, .any | .eqU _ _, .empty | .eqU _ _, .expr _ | .eqU _ _, .neM _ _ | .eqU _ _, .multi _ | .eqU _ _, .union _
  | .neM _ _, .any | .neM _ _, .empty | .neM _ _, .expr _ | .neM _ _, .eqU _ _ | .neM _ _, .multi _ | .neM _ _, .union _
  | .multi _, .any | .multi _, .empty | .multi _, .expr _ | .multi _, .eqU _ _ | .multi _, .neM _ _ | .multi _, .union _
  | .union _, .any | .union _, .empty | .union _, .expr _ | .union _, .eqU _ _ | .union _, .neM _ _ | .union _, .multi _ => by
    simp [beq]
theorem beqList_symm : ∀ (xs ys : List M), beqList xs ys = beqList ys xs
  | [], [] => rfl
  | x :: xs, y :: ys => by simp only [beqList, beq_symm x y, beqList_symm xs ys]
  | [], _ :: _ | _ :: _, [] => by simp [beqList]
end

theorem all_partition {α : Type} (p f : α → Bool) (l : List α) :
    l.all f = ((l.filter p).all f && (l.filter fun x => !p x).all f) := by
  induction l with
  | nil => rfl
  | cons x xs ih =>
    by_cases hp : p x = true
    · simp [List.filter, hp, ih, Bool.and_assoc]
    · simp only [Bool.not_eq_true] at hp
      simp only [List.filter, hp, Bool.not_false, List.all_cons, ih]
      cases f x <;> simp

theorem any_partition {α : Type} (p f : α → Bool) (l : List α) :
    l.any f = ((l.filter p).any f || (l.filter fun x => !p x).any f) := by
  induction l with
  | nil => rfl
  | cons x xs ih =>
    by_cases hp : p x = true
    · simp [List.filter, hp, ih, Bool.or_assoc]
    · simp only [Bool.not_eq_true] at hp
      simp only [List.filter, hp, Bool.not_false, List.any_cons, ih]
      cases f x <;> simp

/-- every element of `a` (satisfying `p`) has a Python-equal element in `b` ⇒ all-of-`b` implies all-of-those -/
theorem all_of_memB (a b : List M) (h : ∀ x ∈ a, memB x b = true) (hb : b.all (sem env) = true) :
    a.all (sem env) = true := by
  rw [List.all_eq_true] at hb ⊢
  intro x hx
  obtain ⟨y, hy, hs⟩ := memB_sem env x b (h x hx)
  rw [← hs]; exact hb y hy

theorem any_of_memB (a b : List M) (h : ∀ x ∈ a, memB x b = true) (ha : a.any (sem env) = true) :
    b.any (sem env) = true := by
  rw [List.any_eq_true] at ha ⊢
  obtain ⟨x, hx, hsx⟩ := ha
  obtain ⟨y, hy, hs⟩ := memB_sem env x b (h x hx)
  exact ⟨y, hy, by rw [hs]; exact hsx⟩

/-- the shared part means the same whichever side it is read from -/
theorem shared_memB (ours theirs : List M) : ∀ x ∈ theirs.filter (memB · ours), memB x (ours.filter (memB · theirs)) = true := by
  intro x hx
  obtain ⟨hx1, hx2⟩ := List.mem_filter.1 hx
  unfold memB at hx2 ⊢
  rw [List.any_eq_true] at hx2 ⊢
  obtain ⟨y, hy, hb⟩ := hx2
  refine ⟨y, List.mem_filter.2 ⟨hy, ?_⟩, hb⟩
  rw [List.any_eq_true]
  exact ⟨x, hx1, by rw [beq_symm]; exact hb⟩

theorem shared_all (ours theirs : List M) :
    (theirs.filter (memB · ours)).all (sem env) = (ours.filter (memB · theirs)).all (sem env) := by
  rw [Bool.eq_iff_iff]
  constructor
  · exact all_of_memB _ _ (shared_memB theirs ours)
  · exact all_of_memB _ _ (shared_memB ours theirs)

theorem shared_any (ours theirs : List M) :
    (theirs.filter (memB · ours)).any (sem env) = (ours.filter (memB · theirs)).any (sem env) := by
  rw [Bool.eq_iff_iff]
  constructor
  · exact any_of_memB _ _ (shared_memB ours theirs)
  · exact any_of_memB _ _ (shared_memB theirs ours)

theorem step_usimp (n : Nat) (h : Sound env G n) : ∀ s o r, GAll G s → GAll G o →
    unionSimplify (n + 1) s o = some r → GAll G r ∧ sem env r = (sem env s || sem env o) := by
  intro s o r hs ho hr
  cases s with
  | multi ours =>
    simp only [unionSimplify] at hr
    have hoursG : GAllL G ours := hs
    by_cases h1 : memB o ours = true
    · simp only [h1, if_true, Option.some.injEq] at hr
      subst hr
      refine ⟨ho, ?_⟩
      obtain ⟨y, hy, hsy⟩ := memB_sem env o ours h1
      simp only [sem, semAll_eq]
      cases hall : ours.all (sem env) with
      | false => simp
      | true =>
        rw [List.all_eq_true] at hall
        simp [← hsy, hall y hy]
    · simp only [h1, Bool.false_eq_true, if_false] at hr
      cases o with
      | multi theirs =>
        simp only at hr
        have htheirsG : GAllL G theirs := ho
        by_cases h2 : ours.all (memB · theirs) = true
        · simp only [h2, if_true, Option.some.injEq] at hr
          subst hr
          refine ⟨hs, ?_⟩
          simp only [sem, semAll_eq]
          cases hth : theirs.all (sem env) with
          | false => simp
          | true =>
            have := all_of_memB (env := env) ours theirs (fun x hx => (List.all_eq_true.1 h2) x hx) hth
            simp [this]
        · simp only [h2, Bool.false_eq_true, if_false] at hr
          by_cases h3 : theirs.all (memB · ours) = true
          · simp only [h3, if_true, Option.some.injEq] at hr
            subst hr
            refine ⟨ho, ?_⟩
            simp only [sem, semAll_eq]
            cases hth : ours.all (sem env) with
            | false => simp
            | true =>
              have := all_of_memB (env := env) theirs ours (fun x hx => (List.all_eq_true.1 h3) x hx) hth
              simp [this]
          · simp only [h3, Bool.false_eq_true, if_false] at hr
            by_cases h4 : (ours.filter (memB · theirs)).isEmpty = true
            · simp [h4] at hr
            · simp only [h4, Bool.false_eq_true, if_false] at hr
              -- the interesting case
              have hsharedG := filter_G (G := G) (memB · theirs) ours hoursG
              have huniqG := filter_G (G := G) (fun m => !memB m theirs) ours hoursG
              have houniqG := filter_G (G := G) (fun m => !memB m ours) theirs htheirsG
              obtain ⟨uu1, uu2⟩ := h.or_ _ _ (mkMulti_G G n _ huniqG) (mkMulti_G G n _ houniqG)
              rw [mkMulti_sem, mkMulti_sem] at uu2
              have hours := all_partition (memB · theirs) (sem env) ours
              have htheirs := all_partition (memB · ours) (sem env) theirs
              rw [shared_all ours theirs] at htheirs
              split at hr
              · split at hr
                · rename_i hany
                  simp only [Option.some.injEq] at hr
                  subst hr
                  obtain ⟨m1, m2⟩ := h.multiOf_ _ hsharedG
                  refine ⟨m1, ?_⟩
                  have hu : sem env (M.or n (mkMulti n (ours.filter fun m => !memB m theirs))
                      (mkMulti n (theirs.filter fun m => !memB m ours))) = true := by
                    revert hany; cases M.or n _ _ <;> simp [isAny, sem]
                  rw [uu2] at hu
                  simp only [sem, semAll_eq, m2, hours, htheirs]
                  revert hu
                  generalize (ours.filter (memB · theirs)).all (sem env) = S
                  generalize (ours.filter fun m => !memB m theirs).all (sem env) = U
                  generalize (theirs.filter fun m => !memB m ours).all (sem env) = V
                  cases S <;> cases U <;> cases V <;> simp
                · simp only [Option.some.injEq] at hr
                  subst hr
                  obtain ⟨a1, a2⟩ := h.and_ _ _ uu1 (mkMulti_G G n _ hsharedG)
                  refine ⟨a1, ?_⟩
                  rw [a2, uu2, mkMulti_sem]
                  simp only [sem, semAll_eq, hours, htheirs]
                  generalize (ours.filter (memB · theirs)).all (sem env) = S
                  generalize (ours.filter fun m => !memB m theirs).all (sem env) = U
                  generalize (theirs.filter fun m => !memB m ours).all (sem env) = V
                  cases S <;> cases U <;> cases V <;> rfl
              · simp at hr
      | any | empty | expr _ | eqU _ _ | neM _ _ | union _ => simp at hr
  | any | empty | expr _ | eqU _ _ | neM _ _ | union _ => simp [unionSimplify] at hr


theorem step_isimp (n : Nat) (h : Sound env G n) : ∀ s o r, GAll G s → GAll G o →
    intersectSimplify (n + 1) s o = some r → GAll G r ∧ sem env r = (sem env s && sem env o) := by
  intro s o r hs ho hr
  cases s with
  | union ours =>
    simp only [intersectSimplify] at hr
    have hoursG : GAllL G ours := hs
    by_cases h1 : memB o ours = true
    · simp only [h1, if_true, Option.some.injEq] at hr
      subst hr
      refine ⟨ho, ?_⟩
      obtain ⟨y, hy, hsy⟩ := memB_sem env o ours h1
      simp only [sem, semAny_eq]
      cases hso : sem env o with
      | false => simp
      | true =>
        have : ours.any (sem env) = true := List.any_eq_true.2 ⟨y, hy, by rw [hsy]; exact hso⟩
        simp [this]
    · simp only [h1, Bool.false_eq_true, if_false] at hr
      cases o with
      | union theirs =>
        simp only at hr
        have htheirsG : GAllL G theirs := ho
        by_cases h2 : ours.all (memB · theirs) = true
        · simp only [h2, if_true, Option.some.injEq] at hr
          subst hr
          refine ⟨hs, ?_⟩
          simp only [sem, semAny_eq]
          cases hth : ours.any (sem env) with
          | false => simp
          | true =>
            have := any_of_memB (env := env) ours theirs (fun x hx => (List.all_eq_true.1 h2) x hx) hth
            simp [this]
        · simp only [h2, Bool.false_eq_true, if_false] at hr
          by_cases h3 : theirs.all (memB · ours) = true
          · simp only [h3, if_true, Option.some.injEq] at hr
            subst hr
            refine ⟨ho, ?_⟩
            simp only [sem, semAny_eq]
            cases hth : theirs.any (sem env) with
            | false => simp
            | true =>
              have := any_of_memB (env := env) theirs ours (fun x hx => (List.all_eq_true.1 h3) x hx) hth
              simp [this]
          · simp only [h3, Bool.false_eq_true, if_false] at hr
            by_cases h4 : (ours.filter (memB · theirs)).isEmpty = true
            · simp [h4] at hr
            · simp only [h4, Bool.false_eq_true, if_false] at hr
              have hsharedG := filter_G (G := G) (memB · theirs) ours hoursG
              have huniqG := filter_G (G := G) (fun m => !memB m theirs) ours hoursG
              have houniqG := filter_G (G := G) (fun m => !memB m ours) theirs htheirsG
              obtain ⟨uu1, uu2⟩ := h.and_ _ _ (mkUnion_G G n _ huniqG) (mkUnion_G G n _ houniqG)
              rw [mkUnion_sem, mkUnion_sem] at uu2
              have hours := any_partition (memB · theirs) (sem env) ours
              have htheirs := any_partition (memB · ours) (sem env) theirs
              rw [shared_any ours theirs] at htheirs
              split at hr
              · split at hr
                · rename_i hemp
                  simp only [Option.some.injEq] at hr
                  subst hr
                  obtain ⟨m1, m2⟩ := h.unionOfList_ _ hsharedG
                  refine ⟨m1, ?_⟩
                  have hu : sem env (M.and n (mkUnion n (ours.filter fun m => !memB m theirs))
                      (mkUnion n (theirs.filter fun m => !memB m ours))) = false := by
                    revert hemp; cases M.and n _ _ <;> simp [isEmpty, sem]
                  rw [uu2] at hu
                  simp only [sem, semAny_eq, m2, hours, htheirs]
                  revert hu
                  generalize (ours.filter (memB · theirs)).any (sem env) = S
                  generalize (ours.filter fun m => !memB m theirs).any (sem env) = U
                  generalize (theirs.filter fun m => !memB m ours).any (sem env) = V
                  cases S <;> cases U <;> cases V <;> simp
                · simp only [Option.some.injEq] at hr
                  subst hr
                  obtain ⟨a1, a2⟩ := h.or_ _ _ uu1 (mkUnion_G G n _ hsharedG)
                  refine ⟨a1, ?_⟩
                  rw [a2, uu2, mkUnion_sem]
                  simp only [sem, semAny_eq, hours, htheirs]
                  generalize (ours.filter (memB · theirs)).any (sem env) = S
                  generalize (ours.filter fun m => !memB m theirs).any (sem env) = U
                  generalize (theirs.filter fun m => !memB m ours).any (sem env) = V
                  cases S <;> cases U <;> cases V <;> rfl
              · simp at hr
      | any | empty | expr _ | eqU _ _ | neM _ _ | multi _ => simp at hr
  | any | empty | expr _ | eqU _ _ | neM _ _ | multi _ => simp [intersectSimplify] at hr

/-! #### assembly -/

theorem sound_succ (hS : SingleSound env G) (n : Nat) (h : Sound env G n) : Sound env G (n + 1) where
  and_ := step_and hS n h
  or_ := step_or hS n h
  multiOf_ := step_multiOf n h
  unionOfList_ := step_unionOfList n h
  cnf_ := step_cnf n h
  dnf_ := step_dnf n h
  inter_ := step_inter n h
  unionOf_ := step_unionOf n h
  usimp_ := step_usimp n h
  isimp_ := step_isimp n h
  mpass_ := step_mpass n h
  upass_ := step_upass n h
  mloop_ := step_mloop n h
  uloop_ := step_uloop n h

/-- **Engine soundness, every fuel**: given a sound single-marker layer, every engine function
    preserves the set of satisfying environments. -/
theorem sound_all (hS : SingleSound env G) : ∀ n, Sound env G n
  | 0 => sound_zero env G
  | n + 1 => sound_succ hS n (sound_all hS n)

end M
end DepLogic
