import DepLogic.Proofs.MarkerSem
/-
  Soundness of the marker engine (`MultiMarker.of`, `MarkerUnion.of`, `union_simplify`,
  `intersect_simplify`, `cnf`, `dnf`, `intersection`, `union`, `&`, `|`) for EVERY fuel, given
  soundness of the single-marker layer (`SingleSound`).  Simultaneous induction on fuel.
-/
namespace DepLogic
namespace M

/-! ### "every single marker inside satisfies G" -/

mutual
def GAll (G : M → Prop) : M → Prop
  | .any => True
  | .empty => True
  | .expr a => G (.expr a)
  | .eqU n vs => G (.eqU n vs)
  | .neM n vs => G (.neM n vs)
  | .multi ms => GAllL G ms
  | .union ms => GAllL G ms
def GAllL (G : M → Prop) : List M → Prop
  | [] => True
  | m :: ms => GAll G m ∧ GAllL G ms
end

theorem GAllL_iff (G : M → Prop) (ms : List M) : GAllL G ms ↔ ∀ m ∈ ms, GAll G m := by
  induction ms with
  | nil => simp [GAllL]
  | cons m ms ih => simp [GAllL, ih]

theorem GAll_single (G : M → Prop) (s : M) (h : s.isSingle = true) : GAll G s ↔ G s := by
  cases s <;> simp [isSingle] at h <;> simp [GAll]

theorem GAllL_append (G : M → Prop) (a b : List M) : GAllL G (a ++ b) ↔ GAllL G a ∧ GAllL G b := by
  simp only [GAllL_iff, List.mem_append]
  constructor
  · intro h; exact ⟨fun m hm => h m (Or.inl hm), fun m hm => h m (Or.inr hm)⟩
  · rintro ⟨h1, h2⟩ m (hm | hm)
    · exact h1 m hm
    · exact h2 m hm

theorem addNew_G (G : M → Prop) (acc : List M) (x : M) (ha : GAllL G acc) (hx : GAll G x) :
    GAllL G (addNew acc x) := by
  unfold addNew
  split
  · exact ha
  · exact (GAllL_append G acc [x]).2 ⟨ha, by simp [GAllL, hx]⟩

theorem foldl_addNew_G (G : M → Prop) (xs acc : List M) (ha : GAllL G acc) (hx : GAllL G xs) :
    GAllL G (xs.foldl addNew acc) := by
  induction xs generalizing acc with
  | nil => exact ha
  | cons x xs ih =>
    simp only [List.foldl_cons]
    exact ih _ (addNew_G G acc x ha hx.1) hx.2

theorem flattenInto_G (G : M → Prop) (b : Bool) : ∀ (fuel : Nat) (items acc : List M),
    GAllL G items → GAllL G acc → GAllL G (flattenInto b fuel items acc) := by
  intro fuel
  induction fuel with
  | zero => intro items acc hi ha; simp only [flattenInto]; exact foldl_addNew_G G items acc ha hi
  | succ n ih =>
    intro items acc hi ha
    simp only [flattenInto]
    induction items generalizing acc with
    | nil => exact ha
    | cons item rest ihr =>
      simp only [List.foldl_cons]
      apply ihr _ hi.2
      have hitem := hi.1
      cases b <;> cases item <;>
        first
          | exact addNew_G G acc _ ha hitem
          | exact foldl_addNew_G G _ acc ha (ih _ [] hitem (by simp [GAllL]))

theorem mkMulti_G (G : M → Prop) (fuel : Nat) (ms : List M) (h : GAllL G ms) : GAll G (mkMulti fuel ms) := by
  simp only [mkMulti, GAll]
  exact flattenInto_G G true fuel ms [] h (by simp [GAllL])

theorem mkUnion_G (G : M → Prop) (fuel : Nat) (ms : List M) (h : GAllL G ms) : GAll G (mkUnion fuel ms) := by
  simp only [mkUnion, GAll]
  exact flattenInto_G G false fuel ms [] h (by simp [GAllL])

/-! ### the inner scan -/

theorem setAt_append (pre : List M) (x : M) (rest : List M) (m : M) :
    setAt (pre ++ x :: rest) pre.length m = pre ++ m :: rest := by
  induction pre with
  | nil => simp [setAt]
  | cons p ps ih => simp [setAt, ih]

/-- what the inner `for i, mark in enumerate(new_markers)` loop returns -/
theorem scan_spec (f : M → Step) : ∀ (rest pre : List M),
    match scan f (pre ++ rest) pre.length rest with
    | none => ∃ mark ∈ rest, f mark = .abort
    | some none => True
    | some (some l) => ∃ p mark q m, rest = p ++ mark :: q ∧ f mark = .replace m ∧ l = pre ++ p ++ m :: q := by
  intro rest
  induction rest with
  | nil => intro pre; simp [scan]
  | cons mark rest ih =>
    intro pre
    simp only [scan]
    cases hf : f mark with
    | next =>
      have := ih (pre ++ [mark])
      simp only [List.append_assoc, List.singleton_append, List.length_append, List.length_cons,
        List.length_nil, Nat.zero_add] at this
      simp only []
      split at this
      · obtain ⟨mk', hmk, hab⟩ := this
        exact ⟨mk', by simp [hmk], hab⟩
      · trivial
      · obtain ⟨p, mk', q, m, h1, h2, h3⟩ := this
        exact ⟨mark :: p, mk', q, m, by simp [h1], h2, by simp [h3]⟩
    | replace m =>
      simp only []
      exact ⟨[], mark, rest, m, by simp, hf, by simp [setAt_append]⟩
    | abort =>
      simp only []
      exact ⟨mark, by simp, hf⟩


/-! ### one step of the `for marker in old_markers` loop -/

section pass
variable (env : Env) (G : M → Prop) (isAnd : Bool)

/-- invariant of the pass: `new_markers` means `acc`; once the absorbing element was produced, `acc` is it -/
def PassInv (st : Option (List M)) (acc : Bool) : Prop :=
  match st with
  | some new => GAllL G new ∧ agg env isAnd new = acc
  | none => acc = !isAnd

/-- what is required of the decision on one `mark` -/
def DecideOk (decide : M → M → Step) : Prop :=
  ∀ mark marker, GAll G mark → GAll G marker →
    match decide mark marker with
    | .replace m => GAll G m ∧ sem env m = bop isAnd (sem env mark) (sem env marker)
    | .abort => bop isAnd (sem env mark) (sem env marker) = !isAnd
    | .next => True

def FlatOk (flat : List M → List M) : Prop :=
  ∀ l, GAllL G l → GAllL G (flat l) ∧ agg env isAnd (flat l) = agg env isAnd l

theorem bop_right_absorb (b x : Bool) : bop b x (!b) = !b := by cases b <;> cases x <;> rfl

theorem passStep_inv (decide : M → M → Step) (flat : List M → List M)
    (hd : DecideOk env G isAnd decide) (hf : FlatOk env G isAnd flat)
    (st : Option (List M)) (acc : Bool) (marker : M) (hm : GAll G marker)
    (hinv : PassInv env G isAnd st acc) :
    PassInv env G isAnd (passStep isAnd decide flat st marker) (bop isAnd acc (sem env marker)) := by
  cases st with
  | none =>
    simp only [PassInv] at hinv ⊢
    simp only [passStep]
    rw [hinv, bop_absorb]
  | some new =>
    obtain ⟨hG, hagg⟩ := hinv
    simp only [passStep]
    by_cases hmem : memB marker new = true
    · simp only [hmem, if_true, PassInv]
      obtain ⟨y, hy, hs⟩ := memB_sem env marker new hmem
      refine ⟨hG, ?_⟩
      rw [← hagg, ← hs, agg_mem env isAnd new y hy]
    · simp only [hmem, Bool.false_eq_true, if_false]
      by_cases hskip : (if isAnd then marker.isAny else marker.isEmpty) = true
      · simp only [hskip, if_true, PassInv]
        refine ⟨hG, ?_⟩
        have : sem env marker = isAnd := by
          cases isAnd <;> simp at hskip <;> cases marker <;> simp [isAny, isEmpty] at hskip <;> simp [sem]
        rw [this, bop_unit, hagg]
      · simp only [hskip, Bool.false_eq_true, if_false]
        have hsc := scan_spec (fun mark => decide mark marker) new []
        simp only [List.nil_append, List.length_nil] at hsc
        cases hscan : scan (fun mark => decide mark marker) new 0 new with
        | none =>
          -- abort
          rw [hscan] at hsc
          obtain ⟨mark, hmark, hab⟩ := hsc
          simp only [PassInv]
          have hd' := hd mark marker ((GAllL_iff G new).1 hG mark hmark) hm
          rw [hab] at hd'
          simp only at hd'
          rw [← hagg, ← agg_mem env isAnd new mark hmark, bop_assoc, hd', bop_right_absorb]
        | some r =>
          cases r with
          | none =>
            -- nothing matched: append
            simp only [PassInv]
            refine ⟨(GAllL_append G new [marker]).2 ⟨hG, by simp [GAllL, hm]⟩, ?_⟩
            rw [agg_append, agg_cons, agg_nil, bop_unit, hagg]
          | some new' =>
            -- replaced
            rw [hscan] at hsc
            obtain ⟨p, mark, q, m, hnew, hrep, hl⟩ := hsc
            subst hnew hl
            have hmarkG : GAll G mark := (GAllL_iff G _).1 hG mark (by simp)
            have hd' := hd mark marker hmarkG hm
            rw [hrep] at hd'
            simp only at hd'
            have hG' : GAllL G (p ++ m :: q) := by
              rw [GAllL_append] at hG ⊢
              exact ⟨hG.1, by simp only [GAllL] at hG ⊢; exact ⟨hd'.1, hG.2.2⟩⟩
            obtain ⟨hf1, hf2⟩ := hf _ hG'
            simp only [PassInv]
            refine ⟨hf1, ?_⟩
            rw [hf2, ← hagg]
            simp only [agg_append, agg_cons, hd'.2]
            generalize agg env isAnd p = P
            generalize agg env isAnd q = Q
            generalize sem env mark = X
            generalize sem env marker = Y
            cases isAnd <;> cases P <;> cases Q <;> cases X <;> cases Y <;> rfl

theorem pass_fold (decide : M → M → Step) (flat : List M → List M)
    (hd : DecideOk env G isAnd decide) (hf : FlatOk env G isAnd flat) :
    ∀ (old : List M) (st : Option (List M)) (acc : Bool), GAllL G old → PassInv env G isAnd st acc →
      PassInv env G isAnd (old.foldl (passStep isAnd decide flat) st) (bop isAnd acc (agg env isAnd old)) := by
  intro old
  induction old with
  | nil => intro st acc _ h; simpa [agg_nil, bop_unit] using h
  | cons m ms ih =>
    intro st acc hG h
    simp only [List.foldl_cons]
    have := ih _ _ hG.2 (passStep_inv env G isAnd decide flat hd hf st acc m hG.1 h)
    rwa [agg_cons, ← bop_assoc]

/-- the decision of `MultiMarker.of` / `MarkerUnion.of`, given sound `&`/`|` and sound simplifiers -/
theorem decideWith_ok (combine : M → M → M) (simplify : M → M → Option M)
    (hc : ∀ a b, GAll G a → GAll G b → GAll G (combine a b) ∧ sem env (combine a b) = bop isAnd (sem env a) (sem env b))
    (hs : ∀ a b r, GAll G a → GAll G b → simplify a b = some r →
      GAll G r ∧ sem env r = bop isAnd (sem env a) (sem env b)) :
    DecideOk env G isAnd (decideWith isAnd combine simplify) := by
  intro mark marker hmk hmr
  unfold decideWith
  by_cases h1 : mark.isSingle = true
  · simp only [h1, if_true]
    obtain ⟨hcG, hcs⟩ := hc mark marker hmk hmr
    by_cases h2 : (if isAnd then (combine mark marker).isEmpty else (combine mark marker).isAny) = true
    · simp only [h2, if_true]
      rw [← hcs]
      cases isAnd <;> simp at h2 <;> cases hcm : combine mark marker <;> simp [hcm, isAny, isEmpty] at h2 <;> simp [sem]
    · simp only [h2, Bool.false_eq_true, if_false]
      by_cases h3 : (combine mark marker).isSingle = true
      · simp only [h3, if_true]; exact ⟨hcG, hcs⟩
      · simp [h3]
  · simp only [h1, Bool.false_eq_true, if_false]
    by_cases h2 : (if isAnd then mark.isUnion else mark.isMulti) = true
    · simp only [h2, if_true]
      cases hsr : simplify mark marker with
      | none => simp
      | some r => simpa using hs mark marker r hmk hmr hsr
    · simp [h2]

end pass


/-! ### the single-marker layer, assumed sound -/

/-- soundness of `&`/`|` between two single markers (atoms and grouped atoms) in environment
    `env`, for the singles satisfying `G`; `G` is closed under what the layer creates -/
structure SingleSound (env : Env) (G : M → Prop) : Prop where
  and_ok : ∀ x y, x.isSingle = true → y.isSingle = true → G x → G y →
    match singleAnd x y with
    | .done m => GAll G m ∧ sem env m = (sem env x && sem env y)
    | .pair p q => (p = x ∧ q = y) ∨ (p = y ∧ q = x)
  or_ok : ∀ x y, x.isSingle = true → y.isSingle = true → G x → G y →
    match singleOr x y with
    | .done m => GAll G m ∧ sem env m = (sem env x || sem env y)
    | .pair p q => (p = x ∧ q = y) ∨ (p = y ∧ q = x)

/-- everything the engine proves at one fuel level -/
structure Sound (env : Env) (G : M → Prop) (n : Nat) : Prop where
  and_ : ∀ a b, GAll G a → GAll G b → GAll G (M.and n a b) ∧ sem env (M.and n a b) = (sem env a && sem env b)
  or_ : ∀ a b, GAll G a → GAll G b → GAll G (M.or n a b) ∧ sem env (M.or n a b) = (sem env a || sem env b)
  multiOf_ : ∀ ms, GAllL G ms → GAll G (multiOf n ms) ∧ sem env (multiOf n ms) = ms.all (sem env)
  unionOfList_ : ∀ ms, GAllL G ms → GAll G (unionOfList n ms) ∧ sem env (unionOfList n ms) = ms.any (sem env)
  cnf_ : ∀ m, GAll G m → GAll G (cnf n m) ∧ sem env (cnf n m) = sem env m
  dnf_ : ∀ m, GAll G m → GAll G (dnf n m) ∧ sem env (dnf n m) = sem env m
  inter_ : ∀ ms, GAllL G ms → GAll G (intersection n ms) ∧ sem env (intersection n ms) = ms.all (sem env)
  unionOf_ : ∀ ms, GAllL G ms → GAll G (unionOf n ms) ∧ sem env (unionOf n ms) = ms.any (sem env)
  usimp_ : ∀ s o r, GAll G s → GAll G o → unionSimplify n s o = some r →
    GAll G r ∧ sem env r = (sem env s || sem env o)
  isimp_ : ∀ s o r, GAll G s → GAll G o → intersectSimplify n s o = some r →
    GAll G r ∧ sem env r = (sem env s && sem env o)
  mpass_ : ∀ old, GAllL G old → PassInv env G true (multiPass n old) (old.all (sem env))
  upass_ : ∀ old, GAllL G old → PassInv env G false (unionPass n old) (old.any (sem env))
  mloop_ : ∀ old new, GAllL G new → PassInv env G true (multiLoop n old new) (new.all (sem env))
  uloop_ : ∀ old new, GAllL G new → PassInv env G false (unionLoop n old new) (new.any (sem env))

theorem sound_zero (env : Env) (G : M → Prop) : Sound env G 0 where
  and_ := fun a b ha hb => ⟨by simp [M.and, GAll, GAllL, ha, hb], by simp [M.and, sem, semAll]⟩
  or_ := fun a b ha hb => ⟨by simp [M.or, GAll, GAllL, ha, hb], by simp [M.or, sem, semAny]⟩
  multiOf_ := fun ms h => ⟨by simpa [multiOf, GAll] using h, by simp [multiOf, sem, semAll_eq]⟩
  unionOfList_ := fun ms h => ⟨by simpa [unionOfList, GAll] using h, by simp [unionOfList, sem, semAny_eq]⟩
  cnf_ := fun m h => ⟨by simpa [cnf] using h, by simp [cnf]⟩
  dnf_ := fun m h => ⟨by simpa [dnf] using h, by simp [dnf]⟩
  inter_ := fun ms h => ⟨by simpa [intersection, GAll] using h, by simp [intersection, sem, semAll_eq]⟩
  unionOf_ := fun ms h => ⟨by simpa [unionOf, GAll] using h, by simp [unionOf, sem, semAny_eq]⟩
  usimp_ := fun s o r _ _ h => by simp [unionSimplify] at h
  isimp_ := fun s o r _ _ h => by simp [intersectSimplify] at h
  mpass_ := fun old h => by simp [multiPass, PassInv, agg, h]
  upass_ := fun old h => by simp [unionPass, PassInv, agg, h]
  mloop_ := fun old new h => by simp [multiLoop, PassInv, agg, h]
  uloop_ := fun old new h => by simp [unionLoop, PassInv, agg, h]

end M
end DepLogic
