import DepLogic.Proofs.MarkerSingles
import DepLogic.Properties.C11
import DepLogic.Proofs.LexLemmas
/-
  `MarkerExpression.from_specifier` means the specifier it is given (C11, second half):
  `FromSpecOk` — once a hypothesis of C02 — is a theorem.  Printing a final release and reading it
  back is proved at character level (Proofs/LexLemmas.lean, `lexPrint_final`); the one remaining
  character-level assumption is `LexNormOk` (the string surgery of
  `_normalize_python_version_specifier`).
-/
namespace DepLogic
open LinPre VOrd Spec

/-! ### facts about what the parser builds from one clause -/

theorem lt_next (e : Nat) (init rest : List Nat) (last : Nat) (a : Ver) (ha : a.epoch = e)
    (hrel : a.release = init ++ [last] ++ rest) : lt a (Ver.releaseVersion e (init ++ [last + 1])) := by
  apply lt_of_seqLt _ _ (by simpa [Ver.releaseVersion] using ha)
  refine ⟨init.length, ?_, ?_⟩
  · intro i hi
    simp only [Ver.releaseVersion, hrel, List.append_assoc]
    rw [nth0_append_left _ _ _ hi, nth0_append_left _ _ _ hi]
  · simp only [Ver.releaseVersion, hrel]
    have e1 : nth0 (init ++ [last] ++ rest) init.length = last := by
      rw [List.append_assoc]; simp [nth0, List.getD_eq_getElem?_getD]
    have e2 : nth0 (init ++ [last + 1] ++ [0]) init.length = last + 1 := by
      rw [List.append_assoc]; simp [nth0, List.getD_eq_getElem?_getD]
    rw [e1, e2]; omega

/-- the bound `nextSeries` yields is above the version (and above its `.0` spelling) -/
theorem lt_nextSeries (p hi : Ver) (n : Nat) (h : p.nextSeries n = some hi) :
    lt p hi ∧ lt (Ver.releaseVersion p.epoch p.release) hi := by
  obtain ⟨init, last, htake, rfl⟩ := nextSeries_eq p n hi h
  have hrel : p.release = init ++ [last] ++ p.release.drop n := by
    have := (List.take_append_drop n p.release).symm
    rw [htake] at this; exact this
  exact ⟨lt_next p.epoch init _ last p rfl hrel,
         lt_next p.epoch init (p.release.drop n ++ [0]) last _ rfl
           (by simp only [Ver.releaseVersion]; rw [← List.append_assoc, ← hrel])⟩

theorem fromClause_canon (c : Clause Ver) (s : Spec Ver) (h : fromClause c = some s) : Canon s := by
  have rf := @LinPre.le_refl Ver _
  rcases c with ⟨op, v, w⟩
  cases op <;> cases w <;> simp only [fromClause, Option.some.injEq, Option.map_eq_some_iff] at h
  all_goals first
    | (subst h; simp [Canon, Range.WF, Range.ctorOk, sep, eqv, rf])
    | (obtain ⟨mx, hmx, rfl⟩ := h
       have := lt_nextSeries v mx _ hmx
       simp [Canon, Range.WF, Range.ctorOk, sep] <;> first | exact this.1 | exact this.2)

theorem releaseVersion_final (r : List Nat) : FinalV (Ver.releaseVersion 0 r) :=
  ⟨rfl, rfl, by simp [Ver.releaseVersion]⟩

theorem nextSeries_final (p hi : Ver) (n : Nat) (hp : p.epoch = 0) (h : p.nextSeries n = some hi) : FinalV hi := by
  obtain ⟨init, last, _, rfl⟩ := nextSeries_eq p n hi h
  rw [hp]; exact releaseVersion_final _

theorem fromClause_final (c : Clause Ver) (hc : FinalV c.ver) (s : Spec Ver) (h : fromClause c = some s) :
    BoundsIn FinalV s := by
  apply boundsIn_of_allVers
  rcases c with ⟨op, v, w⟩
  have he : v.epoch = 0 := hc.2.1
  have hrv : FinalV (Ver.releaseVersion v.epoch v.release) := by rw [he]; exact releaseVersion_final _
  cases op <;> cases w <;> simp only [fromClause, Option.some.injEq, Option.map_eq_some_iff] at h
  all_goals first
    | (subst h; simp [Spec.AllVers, Range.AllVers]; first | exact hc | exact ⟨hc, hc⟩ | exact ⟨hc, hc, hc⟩ | skip)
    | (obtain ⟨mx, hmx, rfl⟩ := h
       have hm := nextSeries_final v mx _ he hmx
       simp [Spec.AllVers, Range.AllVers]
       first | exact ⟨hrv, hm, hc⟩ | exact ⟨hc, hm, hc⟩ | exact ⟨⟨hrv, hm⟩, hc⟩ | skip)

end DepLogic

namespace DepLogic
open LinPre VOrd Spec

namespace M

/-- the clause the new atom is read as: `X`/`X.Y` padded to `X.Y.0` where `from_specifier` pads -/
def fsC (name : String) (c : Clause Ver) : Clause Ver :=
  if fsPad name c then
    { c with ver := { release := c.ver.release ++ List.replicate (3 - c.ver.release.length) 0 } }
  else c

theorem nth0_append_replicate_zero (r : List Nat) (k i : Nat) : nth0 (r ++ List.replicate k 0) i = nth0 r i := by
  unfold nth0
  by_cases h : i < r.length
  · simp [List.getD_eq_getElem?_getD, List.getElem?_append_left h]
  · have h' : r.length ≤ i := Nat.le_of_not_lt h
    simp only [List.getD_eq_getElem?_getD, List.getElem?_append_right h', List.getElem?_replicate]
    rw [List.getElem?_eq_none h']
    split <;> rfl

theorem fsC_eqv (name : String) (c : Clause Ver) : eqv (fsC name c).ver c.ver ∧ (fsC name c).op = c.op ∧ (fsC name c).wild = c.wild := by
  have rf := @LinPre.le_refl Ver _
  unfold fsC
  split
  · rename_i hp
    simp only [fsPad, Bool.and_eq_true, beq_iff_eq, bne_iff_ne, Bool.not_eq_true', decide_eq_true_eq] at hp
    obtain ⟨⟨⟨⟨⟨_, _⟩, _⟩, he⟩, hf⟩, _⟩ := hp
    refine ⟨?_, rfl, rfl⟩
    apply eqv_of_final_seq _ _ rfl hf (by simpa using he.symm)
    intro i
    exact nth0_append_replicate_zero _ _ _
  · exact ⟨⟨rf _, rf _⟩, rfl, rfl⟩

theorem fsC_final (name : String) (c : Clause Ver) (h : FinalV c.ver) : FinalV (fsC name c).ver := by
  unfold fsC; split
  · exact ⟨rfl, rfl, by simp [h.2.2]⟩
  · exact h

theorem fsC_notPad (name : String) (c : Clause Ver) (h : c.op = .compat ∨ c.wild = true) : fsC name c = c := by
  unfold fsC fsPad
  rcases h with h | h <;> simp [h]

/-- padding does not change which versions the clause admits -/
theorem fromClause_fsC_mem (name : String) (c : Clause Ver) (s s' : Spec Ver) (hs : fromClause c = some s)
    (hs' : fromClause (fsC name c) = some s') (v : Ver) : s'.mem v ↔ s.mem v := by
  by_cases hp : c.op = .compat ∨ c.wild = true
  · rw [fsC_notPad name c hp, hs] at hs'; cases hs'; exact Iff.rfl
  · obtain ⟨he, ho, hw⟩ := fsC_eqv name c
    have tr := @LinPre.le_trans Ver _
    have tot := @LinPre.le_total Ver _
    generalize fsC name c = c' at *
    rcases c with ⟨op, x, w⟩; rcases c' with ⟨op', x', w'⟩
    (try simp only at ho hw he); subst ho; subst hw
    simp only [not_or, Bool.not_eq_true] at hp
    obtain ⟨hnc, hnw⟩ := hp
    (try simp only at hnc hnw); subst hnw
    cases op' <;> first | exact absurd rfl hnc |
      (simp only [fromClause, Option.some.injEq] at hs hs'
       subst hs; subst hs'
       simp only [Spec.mem, Range.mem, List.mem_cons, List.mem_nil_iff, or_false, exists_eq_or_imp, exists_eq_left, lt, eqv] at he ⊢
       grind)

/-! ### the operand text of `from_specifier` is read back as its clause (final releases) -/

theorem mop_str (op : COp) : (MOp.ofCOp op).str = op.str := by cases op <;> rfl

theorem fsText_toList (name : String) (c : Clause Ver) (hv : FinalV c.ver) :
    (fsText name c).toList = Lex.relText (fsC name c).ver.release ++ (if c.wild then ['.', '*'] else []) := by
  unfold fsText fsC
  by_cases hp : fsPad name c = true
  · have hw : c.wild = false := by
      simp only [fsPad, Bool.and_eq_true, Bool.not_eq_true'] at hp
      exact hp.1.1.1.2
    simp only [hp, if_true, hw, Bool.false_eq_true, if_false, List.append_nil]
    exact Lex.toList_relString _
  · simp only [hp, Bool.false_eq_true, if_false, String.toList_append, Lex.toList_str_final c.ver hv.1 hv.2.1]
    cases c.wild <;> rfl

theorem opChars_clean (op : COp) : Lex.Clean op.str.toList := by
  cases op <;> simp [Lex.Clean, COp.str]

/-- **printing and reading back** (was the assumption `LexPrintOk`): for a clause over a plain final
    release, whenever the text `from_specifier` writes is accepted by the specifier parser it is read
    back, by both readers, as the (padded) clause -/
theorem lexPrint_final (name : String) (c : Clause Ver) (hv : FinalV c.ver) (alts : List Alt)
    (h : SpecParse.parseAltsText ((MOp.ofCOp c.op).str ++ fsText name c) = some alts) :
    alts = [.clauses [fsC name c]] ∧
    SpecParse.parseClauseL ((MOp.ofCOp c.op).str ++ trimS (fsText name c)).toList = some (fsC name c) := by
  have hfv := fsC_final name c hv
  obtain ⟨hce, hco, hcw⟩ := fsC_eqv name c
  have hrel : (fsC name c).ver.release ≠ [] := hfv.2.2
  have hver : (fsC name c).ver = { release := (fsC name c).ver.release } := by
    rcases hcv : (fsC name c).ver with ⟨e, r, pre, post, dev⟩
    have h1 := hfv.1; have h2 := hfv.2.1
    rw [hcv] at h1 h2
    simp only at h2; subst h2
    cases pre <;> cases post <;> cases dev <;> simp [Ver.isFinal] at h1 ⊢
  have htext := fsText_toList name c hv
  obtain ⟨x, xs, hx, hxd⟩ := Lex.relText_head _ hrel
  -- the whole text
  have hT : ((MOp.ofCOp c.op).str ++ fsText name c).toList =
      c.op.str.toList ++ (Lex.relText (fsC name c).ver.release ++ (if c.wild then ['.', '*'] else [])) := by
    rw [String.toList_append, mop_str, htext]
  have hclean : Lex.Clean ((MOp.ofCOp c.op).str ++ fsText name c).toList := by
    rw [hT]
    have h1 := opChars_clean c.op
    have h2 := Lex.relText_clean (fsC name c).ver.release (if c.wild then ['.', '*'] else [])
      (by cases c.wild <;> simp [Lex.Clean])
    simp only [Lex.Clean, List.mem_append, not_or] at h1 h2 ⊢
    exact ⟨⟨h1.1, h2.1⟩, ⟨h1.2.1, h2.2.1⟩, ⟨h1.2.2, h2.2.2⟩⟩
  have hne : ((MOp.ofCOp c.op).str ++ fsText name c).toList ≠ [] := by
    rw [hT, hx]; cases c.op <;> simp [COp.str]
  have hemp : ((MOp.ofCOp c.op).str ++ fsText name c).toList ≠ "<empty>".toList := by
    rw [hT, hx]
    intro heq
    have hxe : x = 'e' := by
      cases hop : c.op <;> simp [hop, COp.str] at heq
      exact heq.1
    rw [hxe] at hxd; revert hxd; decide
  rw [Lex.parseAltsText_clean _ hclean hne hemp, hT] at h
  -- the clause
  have hnoSp : trimS (fsText name c) = fsText name c := by
    have : ' ' ∉ (fsText name c).toList := by
      rw [htext]
      have := (Lex.relText_clean (fsC name c).ver.release (if c.wild then ['.', '*'] else [])
        (by cases c.wild <;> simp [Lex.Clean])).2.2
      exact this
    simp only [trimS, Lex.trimL_none _ this, String.ofList_toList]
  by_cases hallowed : c.wild = true → c.op = .eq ∨ c.op = .ne
  · have hp := Lex.parseClauseL_final c.op _ hrel c.wild hallowed
    have hfsC : (⟨c.op, { release := (fsC name c).ver.release }, c.wild⟩ : Clause Ver) = fsC name c := by
      rcases hfc : fsC name c with ⟨o, v, w⟩
      rw [hfc] at hco hcw hver
      simp only at hco hcw hver
      rw [← hco, ← hcw, ← hver]
    rw [hfsC] at hp
    rw [hp] at h
    simp only [Option.map_some, Option.some.injEq] at h
    refine ⟨h.symm, ?_⟩
    rw [hnoSp, hT]; exact hp
  · exfalso
    simp only [Classical.not_imp, not_or] at hallowed
    obtain ⟨hw, hne1, hne2⟩ := hallowed
    have : SpecParse.parseClauseL (c.op.str.toList ++ (Lex.relText (fsC name c).ver.release ++ (if c.wild then ['.', '*'] else []))) = none := by
      unfold SpecParse.parseClauseL
      have hxe : x ≠ '=' := by intro e; subst e; revert hxd; decide
      have hsplit : SpecParse.splitOp (c.op.str.toList ++ (Lex.relText (fsC name c).ver.release ++ (if c.wild then ['.', '*'] else []))) =
          (some c.op, Lex.relText (fsC name c).ver.release ++ (if c.wild then ['.', '*'] else [])) := by
        rw [hx, List.cons_append]; exact Lex.splitOp_op c.op x _ hxe
      rw [hsplit, hw]
      simp only [if_true, Lex.stripWild_wild]
      have hb : (c.op == COp.eq || c.op == COp.ne) = false := by
        cases hop : c.op <;> first | rfl | exact absurd hop hne1 | exact absurd hop hne2
      simp [hb]
    rw [this] at h
    cases h

theorem nice_anyRange : C06.Nice (.range ({} : Range Ver)) :=
  ⟨by simp [Spec.Canon, Range.WF, Range.ctorOk], textOk_of_none _ rfl,
   boundsIn_of_allVers _ _ (by simp [Spec.AllVers, Range.AllVers])⟩

/-- a simple specifier renders as its one clause -/
theorem simple_str (s : Spec Ver) (c : Clause Ver) (hs : s.isSimple = true) (hc : fsClause? s = some c) :
    Spec.str s = .alts [[c]] := by
  cases s with
  | empty => simp [fsClause?] at hc
  | any => simp [fsClause?] at hc
  | range r =>
    simp only [Spec.isSimple, Range.isSimple, decide_eq_true_eq] at hs
    simp only [fsClause?] at hc
    simp only [Spec.str]
    cases hl : r.strClauses with
    | nil => rw [hl] at hc; simp at hc
    | cons x rest =>
      rw [hl] at hc hs
      simp only [List.head?_cons, Option.some.injEq] at hc
      subst hc
      cases rest with
      | nil => rfl
      | cons _ _ => simp at hs
  | union rs t =>
    simp only [fsClause?] at hc
    simp only [Spec.str, hc]

/-- the version of a `!=X.*` rendering is a plain final release over the left bound's epoch -/
theorem wildForm_shape (lm rm p : Ver) (h : wildForm lm rm = some p) :
    p.isFinal = true ∧ p.epoch = lm.epoch ∧ p.release ≠ [] := by
  simp only [wildForm] at h
  generalize hL : Nat.max (lm.epoch :: lm.release).length (rm.epoch :: rm.release).length = L at h
  generalize firstDifferentIndex (padZeros (lm.epoch :: lm.release) L) (padZeros (rm.epoch :: rm.release) L) = fd at h
  have h1 : (lm.epoch :: lm.release).length ≤ L := by rw [← hL]; exact Nat.le_max_left _ _
  have hlenL : (padZeros (lm.epoch :: lm.release) L).length = L := by
    rw [padZeros_length]; simp only [Nat.max_def, if_pos h1]
  split at h
  · rename_i c
    simp only [Bool.and_eq_true, decide_eq_true_eq] at c
    obtain ⟨⟨⟨⟨hfd0, hfdL⟩, _⟩, _⟩, _⟩ := c
    simp only [Option.some.injEq] at h
    subst h
    refine ⟨rfl, rfl, ?_⟩
    intro hnil
    have := congrArg List.length hnil
    simp only [List.length_take, List.length_drop, hlenL, List.length_nil, Nat.min_def] at this
    split at this <;> omega
  · cases h

/-- the clause of a nice simple specifier is over a plain final release -/
theorem fsClause_final (s : Spec Ver) (c : Clause Ver) (hn : C06.Nice s) (hc : fsClause? s = some c) : FinalV c.ver := by
  cases s with
  | empty => simp [fsClause?] at hc
  | any => simp [fsClause?] at hc
  | range r =>
    obtain ⟨h1, h2⟩ := boundsIn_range FinalV r hn.finalBounds
    have h3 := boundsIn_text_range FinalV r hn.finalBounds
    simp only [fsClause?, Range.strClauses] at hc
    cases ht : r.text with
    | some c0 =>
      simp only [ht, List.head?_cons, Option.some.injEq] at hc
      subst hc; exact h3 _ ht
    | none =>
      simp only [ht] at hc
      cases hm : r.min <;> cases hM : r.max <;> simp only [hm, hM] at hc
      · simp at hc
      · simp at hc; subst hc; exact h2 _ hM
      · simp at hc; subst hc; exact h1 _ hm
      · rename_i a b
        split at hc
        · simp at hc; subst hc; exact h1 _ hm
        · split at hc
          · simp [twoClauses] at hc; subst hc; exact h1 _ hm
          · split at hc
            · simp at hc; subst hc; exact h1 _ hm
            · simp [twoClauses] at hc; subst hc; exact h1 _ hm
  | union rs t =>
    have hb := boundsIn_union FinalV rs t hn.finalBounds
    have ht := boundsIn_text_union FinalV rs t hn.finalBounds
    simp only [fsClause?, unionSimplified] at hc
    cases t with
    | some c0 => simp at hc; subst hc; exact ht _ rfl
    | none =>
      simp only at hc
      split at hc
      · rename_i left right
        split at hc
        · rename_i lm rm _ _ hlmax _
          have hlm : FinalV lm := (hb left (by simp)).2 _ hlmax
          split at hc
          · simp at hc; subst hc; exact hlm
          · split at hc
            · split at hc
              · cases hc
              · simp only [Option.map_eq_some_iff] at hc
                obtain ⟨p, hp, rfl⟩ := hc
                obtain ⟨w1, w2, w3⟩ := wildForm_shape lm rm p hp
                exact ⟨w1, by rw [w2]; exact hlm.2.1, w3⟩
            · cases hc
        · cases hc
      · cases hc

/-- the python_version / python_full_version merge is sound whenever `from_specifier` is:
    `PyMergeOk` is no separate assumption -/
theorem pyMergeOk_of_fromSpec (env : Env) (he : EnvTotal env) (hF : FromSpecOk env) : PyMergeOk env := by
  have core : ∀ (vm fm : Atom) (isAnd : Bool) (m : M), GoodAtom env vm → GoodAtom env fm →
      vm.exactView = true → fm.exactView = true →
      vm.name = "python_version" → fm.name = "python_full_version" →
      (match normalizePythonVersion vm with
       | none => none
       | some ns =>
         match (if isAnd then aspecAnd ns fm.spec else aspecOr ns fm.spec) with
         | none => none
         | some merged => if merged.beq ns then some (.expr vm) else fromSpecifier "python_full_version" merged) = some m →
      GAll (Good env) m ∧ sem env m = bop isAnd (sem env (.expr vm)) (sem env (.expr fm)) := by
    intro vm fm isAnd m hvm hfm hxv hxf hnv hnf h
    have hvlv : versionLikeNames.contains vm.name = true := by rw [hnv]; decide
    have hvlf : versionLikeNames.contains fm.name = true := by rw [hnf]; decide
    have hvl : versionLikeNames.contains "python_full_version" = true := by decide
    have h1v : vm.name ≠ "extra" := by rw [hnv]; decide
    have h1f : fm.name ≠ "extra" := by rw [hnf]; decide
    have h2v : setNames.contains vm.name = false := by rw [hnv]; decide
    have h2f : setNames.contains fm.name = false := by rw [hnf]; decide
    -- the normalised view of the python_version atom
    have hgv := hvm.2
    simp only [h1v, if_false, h2v, Bool.false_eq_true, hvlv, if_true] at hgv
    obtain ⟨_, _, hnorm⟩ := hgv.resolve_left (by simp [hxv])
    obtain ⟨cf, nf, kf⟩ := good_ordinary env fm hfm h1f h2f hxf
    rw [hnf] at kf
    unfold Atom.Coherent at cf
    rw [hnf] at cf
    cases hns : normalizePythonVersion vm with
    | none => simp [hns] at h
    | some ns =>
      simp only [hns] at h
      obtain ⟨hh, nn, kn⟩ := hnorm hnv ns hns
      cases hmg : (if isAnd then aspecAnd ns fm.spec else aspecOr ns fm.spec) with
      | none => simp [hmg] at h
      | some merged =>
        simp only [hmg] at h
        have hsem : holds env "python_full_version" merged = bop isAnd (sem env (.expr vm)) (sem env (.expr fm)) ∧ merged.Canon := by
          rw [← hh, cf]
          cases isAnd with
          | true =>
            simp only [if_true] at hmg
            exact ⟨by simpa [bop] using aspecAnd_holds env he _ _ _ merged kn kf hmg, aspecAnd_canon _ _ merged nn nf hmg⟩
          | false =>
            simp only [Bool.false_eq_true, if_false] at hmg
            have := aspecOr_holds env he _ _ _ merged kn kf nn nf hmg
            exact ⟨by simpa [bop] using this.1, this.2⟩
        by_cases hb : merged.beq ns = true
        · simp only [hb, if_true, Option.some.injEq] at h
          subst h
          refine ⟨hvm, ?_⟩
          rw [← hsem.1, ASpec.beq_holds env he _ merged ns kn hb, hh]
        · simp only [hb, Bool.false_eq_true, if_false] at h
          rw [← hsem.1]
          cases merged with
          | ver s => exact hF _ s m hvl hsem.2 h
          | gen g =>
            -- a python_full_version atom's view is a version specifier, so the merge is one too
            exfalso
            obtain ⟨sf, hsf⟩ := wf_ver_spec fm hfm.1 hvlf
            rw [hsf] at hmg
            cases ns <;> cases isAnd <;> simp [aspecAnd, aspecOr] at hmg
            all_goals (try (obtain ⟨_, _, hx⟩ := hmg; cases hx))
  intro a b isAnd m ha hb hxa hxb hpair h
  simp only [Bool.or_eq_true, Bool.and_eq_true, beq_iff_eq] at hpair
  unfold mergePythonVersion at h
  rcases hpair with ⟨hna, hnb⟩ | ⟨hna, hnb⟩
  · simp only [hna, beq_self_eq_true, if_true] at h
    exact core a b isAnd m ha hb hxa hxb hna hnb h
  · have : (a.name == "python_version") = false := by rw [hna]; decide
    simp only [this, Bool.false_eq_true, if_false] at h
    have r := core b a isAnd m hb ha hxb hxa hnb hna h
    refine ⟨r.1, ?_⟩
    rw [r.2]; cases isAnd <;> simp [bop, Bool.and_comm, Bool.or_comm]

/-- the specifier view of a variable-on-the-left atom whose text lexes to the clause `c` -/
theorem spec_of_lex (a : Atom) (c : Clause Ver) (hw : a.WF) (hn : versionLikeNames.contains a.name = true)
    (hop : a.op ≠ .in_ ∧ a.op ≠ .notIn) (hl : C11.LexOne a c) :
    ∃ s0, fromClause c = some s0 ∧ a.spec = .ver ((Spec.range {}).and s0) := by
  have hne : (a.op == MOp.in_ || a.op == MOp.notIn) = false := by
    cases hop' : a.op <;> simp_all
  unfold Atom.WF getSpecifier at hw
  simp only [hn, Bool.not_true, Bool.false_eq_true, if_false, hne] at hw
  simp only [parseSpecOpt, SpecParse.parseSpecString, hl.set, Option.map_some] at hw
  simp only [parseAlts, List.foldl_nil, parseAlt, fromSpecifierSet, List.foldl_cons, Option.bind_some] at hw
  cases hfc : fromClause c with
  | none => simp [hfc] at hw
  | some s0 =>
    simp only [hfc, Option.map_some] at hw
    exact ⟨s0, rfl, by simp only [Option.map_some, Option.some.injEq] at hw; exact hw.symm⟩

/-- on a final candidate a (non-wildcard, non-`~=`) clause only depends on its version up to `==` -/
theorem matchesFinal_congr (op : COp) (hop : op ≠ .compat) (x y v : Ver) (h : eqv x y) :
    Pep440.matchesFinal ⟨op, x, false⟩ v = Pep440.matchesFinal ⟨op, y, false⟩ v := by
  have tr := @LinPre.le_trans Ver _
  have tot := @LinPre.le_total Ver _
  cases op <;> first | exact absurd rfl hop |
    (simp only [Pep440.matchesFinal, Option.some.injEq]
     rw [Bool.eq_iff_iff]
     simp only [Bool.not_eq_true', decide_eq_true_iff, decide_eq_false_iff_not, lt, eqv] at h ⊢
     grind)

/-- what `_normalize_python_version_specifier` may return for an atom whose text lexes to the clause
    `c`: the atom's own view, or the parse of the structured normalisation `normClause2` -/
def NormShape (a : Atom) (c : Clause Ver) (ns : ASpec) : Prop :=
  (ns = a.spec ∧ (c.wild = true ∨ c.op = .compat) ∧ c.ver.release.length ≤ 2) ∨
  ∃ A B sn, c.wild = false ∧ c.op ≠ .compat ∧ c.ver.epoch = 0 ∧ c.ver.isFinal = true ∧
    (∀ i, nth0 c.ver.release i = nth0 [A, B] i) ∧
    fromClause (normClause2 c.op A B) = some sn ∧ ns = .ver ((Spec.range {}).and sn)

/-- the python_version atom `from_specifier` writes for the clause `c` -/
def pvAtom (c : Clause Ver) (spec : ASpec) : Atom :=
  ⟨"python_version", MOp.ofCOp c.op, fsText "python_version" c, false, spec⟩

/-- CHARACTER LEVEL: the string surgery of `_normalize_python_version_specifier` (split on `.`, drop
    trailing `0` segments, pad a lone major, `int(x) + 1`, re-join, re-parse), applied to the operand
    text `from_specifier` writes for a clause over a plain final release, computes the structured
    normalisation. -/
def LexNormOk : Prop :=
  ∀ (c : Clause Ver) (spec ns : ASpec), FinalV c.ver → (pvAtom c spec).WF →
    normalizePythonVersion (pvAtom c spec) = some ns → NormShape (pvAtom c spec) c ns

/-! ### views that do not tell `X.Y` from `X.Y.Z` -/

/-- comparisons with a bound of at most two significant components -/
theorem pv_cmp (b : Ver) (hb : Pv2 b) (X Y : Nat) (zs : List Nat) :
    (le b (fin [X, Y]) ↔ le b (fin (X :: Y :: zs))) ∧ (lt (fin [X, Y]) b ↔ lt (fin (X :: Y :: zs)) b) := by
  obtain ⟨⟨hf, he, _⟩, hz⟩ := hb
  -- `b` compares like `fin [A, B]`
  have heq : eqv b (fin [nth0 b.release 0, nth0 b.release 1]) := by
    apply eqv_of_final_seq _ _ hf rfl (by simpa [fin] using he)
    intro i
    match i with
    | 0 => simp [fin]
    | 1 => simp [fin]
    | i + 2 => simp [fin, hz (i + 2) (by omega)]
  have tr := @LinPre.le_trans Ver _
  have tot := @LinPre.le_total Ver _
  have l1 := le_fin [nth0 b.release 0, nth0 b.release 1] [X, Y]
  have l2 := le_fin [nth0 b.release 0, nth0 b.release 1] (X :: Y :: zs)
  have l3 := lt_fin [X, Y] [nth0 b.release 0, nth0 b.release 1]
  have l4 := lt_fin (X :: Y :: zs) [nth0 b.release 0, nth0 b.release 1]
  rw [seqLt22] at l1 l3
  rw [seqLt_full_two] at l2 l4
  simp only [lt, eqv] at heq l3 l4 ⊢
  constructor <;> constructor <;> intro h <;> grind

/-- every range is closed below (or unbounded) and open above (or unbounded) -/
def HalfOpenR (r : Range Ver) : Prop := (r.min = none ∨ r.incMin = true) ∧ (r.max = none ∨ r.incMax = false)

def HalfOpen : Spec Ver → Prop
  | .range r => HalfOpenR r
  | .union rs _ => ∀ r ∈ rs, HalfOpenR r
  | _ => True

theorem pvsem_range (r : Range Ver) (hh : HalfOpenR r) (hb : r.AllVers Pv2) (X Y : Nat) (zs : List Nat) :
    r.mem (fin [X, Y]) ↔ r.mem (fin (X :: Y :: zs)) := by
  have tot := @LinPre.le_total Ver _
  rcases r with ⟨m, M, i, j, t⟩
  obtain ⟨h1, h2, _⟩ := hb
  obtain ⟨hm, hM⟩ := hh
  simp only at h1 h2 hm hM
  cases m with
  | none =>
    cases M with
    | none => simp [Range.mem]
    | some b =>
      have c := pv_cmp b (h2 b rfl) X Y zs
      rcases hM with hM | hM
      · cases hM
      · subst hM
        simp only [Range.mem, true_and, Bool.false_eq_true, and_false, or_false]
        exact c.2
  | some a =>
    have ca := pv_cmp a (h1 a rfl) X Y zs
    rcases hm with hm | hm
    · cases hm
    subst hm
    cases M with
    | none =>
      simp only [Range.mem, and_true, lt, eqv] at ca ⊢
      constructor <;> intro h <;> grind
    | some b =>
      have cb := pv_cmp b (h2 b rfl) X Y zs
      rcases hM with hM | hM
      · cases hM
      subst hM
      simp only [Range.mem, and_true, Bool.false_eq_true, and_false, or_false, lt, eqv] at ca cb ⊢
      constructor <;> intro h <;> grind

/-- a half-open view with at most two significant components per bound is saturated -/
theorem pvsem_halfopen (env : Env) (he : EnvTotal env) (s : Spec Ver) (hh : HalfOpen s) (hb : BoundsIn Pv2 s) :
    PvSem env (.ver s) := by
  intro pv f hpv hf
  obtain ⟨X, Y, zs, rfl, hpvv⟩ := he.py f hf
  rw [hpv] at hpvv; cases hpvv
  cases s with
  | empty => simp [Spec.mem]
  | any => simp [Spec.mem]
  | range r =>
    obtain ⟨h1, h2⟩ := boundsIn_range Pv2 r hb
    exact pvsem_range r hh ⟨h1, h2, boundsIn_text_range Pv2 r hb⟩ X Y zs
  | union rs t =>
    have hbr := boundsIn_union Pv2 rs t hb
    have hall : ∀ r ∈ rs, r.AllVers Pv2 := by
      -- the cached texts of member ranges are covered by BoundsIn as well
      obtain ⟨s', hs'⟩ := hb
      cases s' with
      | union rs' t' =>
        simp only [map_union, Spec.union.injEq] at hs'
        obtain ⟨hrs, _⟩ := hs'
        subst hrs
        intro r hr
        simp only [List.mem_map] at hr
        obtain ⟨r', _, rfl⟩ := hr
        refine ⟨?_, ?_, ?_⟩
        · intro m hm; simp only [Range.map, Option.map_eq_some_iff] at hm; obtain ⟨x, _, rfl⟩ := hm; exact x.2
        · intro m hm; simp only [Range.map, Option.map_eq_some_iff] at hm; obtain ⟨x, _, rfl⟩ := hm; exact x.2
        · intro c hc; simp only [Range.map, Option.map_eq_some_iff] at hc; obtain ⟨x, _, rfl⟩ := hc; exact x.ver.2
      | empty => simp at hs'
      | any => simp at hs'
      | range _ => simp at hs'
    simp only [Spec.mem]
    constructor
    · rintro ⟨r, hr, hm⟩; exact ⟨r, hr, (pvsem_range r (hh r hr) (hall r hr) X Y zs).1 hm⟩
    · rintro ⟨r, hr, hm⟩; exact ⟨r, hr, (pvsem_range r (hh r hr) (hall r hr) X Y zs).2 hm⟩

/-! ### transferring the two-component shape along `==` -/

theorem seq_of_eqv_final (x y : Ver) (hx : x.isFinal = true) (hy : y.isFinal = true) (h : eqv x y) :
    ∀ i, nth0 x.release i = nth0 y.release i := by
  have h1 : ¬ lt x y := fun hl => hl h.2
  have h2 : ¬ lt y x := fun hl => hl h.1
  rw [lt_final x y hx hy] at h1
  rw [lt_final y x hy hx] at h2
  have he : x.epoch = y.epoch := by
    rcases Nat.lt_trichotomy x.epoch y.epoch with h | h | h
    · exact absurd (Or.inl h) h1
    · exact h
    · exact absurd (Or.inl h) h2
  exact seq_trichotomy _ _ (fun hs => h1 (Or.inr ⟨he, hs⟩)) (fun hs => h2 (Or.inr ⟨he.symm, hs⟩))

theorem pv2_of_eqv (x y : Ver) (hx : FinalV x) (hy : Pv2 y) (h : eqv x y) : Pv2 x :=
  ⟨hx, fun i hi => by rw [seq_of_eqv_final x y hx.1 hy.1.1 h i]; exact hy.2 i hi⟩

theorem Range.pv2_of_beq (x r : Range Ver) (h : x.beq r = true) (hx : x.AllVers FinalV) (hr : r.AllVers Pv2) :
    (∀ m, x.min = some m → Pv2 m) ∧ (∀ m, x.max = some m → Pv2 m) := by
  rcases x with ⟨xm, xM, xi, xj, xt⟩; rcases r with ⟨rm, rM, ri, rj, rt⟩
  obtain ⟨hx1, hx2, _⟩ := hx
  obtain ⟨hr1, hr2, _⟩ := hr
  simp only at hx1 hx2 hr1 hr2
  cases xm <;> cases rm <;> cases xM <;> cases rM <;> simp only [Range.beq, Bool.and_eq_true, decide_eq_true_eq, beq_iff_eq, Bool.false_eq_true, false_and, and_false] at h
  all_goals (constructor <;> intro m hm <;> cases hm)
  all_goals first
    | exact pv2_of_eqv _ _ (hx1 _ rfl) (hr1 _ rfl) h.1.1.1
    | exact pv2_of_eqv _ _ (hx2 _ rfl) (hr2 _ rfl) h.1.1.2
    | exact pv2_of_eqv _ _ (hx1 _ rfl) (hr1 _ rfl) h.1.1
    | exact pv2_of_eqv _ _ (hx2 _ rfl) (hr2 _ rfl) h.1.1

theorem zip_mem_left {β : Type} : ∀ (xs ys : List β), xs.length = ys.length → ∀ x ∈ xs, ∃ y ∈ ys, (x, y) ∈ xs.zip ys
  | [], _, _, x, hx => by simp at hx
  | _ :: _, [], h, _, _ => by simp at h
  | a :: as, b :: bs, h, x, hx => by
    simp only [List.mem_cons] at hx
    rcases hx with rfl | hx
    · exact ⟨b, by simp, by simp⟩
    · obtain ⟨y, hy, hz⟩ := zip_mem_left as bs (by simpa using h) x hx
      exact ⟨y, by simp [hy], by simp [hz]⟩

/-- the bounds of an object `==` to one with two-component bounds are two-component -/
theorem pv2_bounds_of_beq (a b : Spec Ver) (h : a.beq b = true) (ha : a.AllVers FinalV) (hb : b.AllVers Pv2) :
    ∀ x ∈ toL a, (∀ m, x.min = some m → Pv2 m) ∧ (∀ m, x.max = some m → Pv2 m) := by
  cases a with
  | empty => intro x hx; simp [toL] at hx
  | any =>
    intro x hx; simp only [toL, List.mem_singleton] at hx; subst hx
    exact ⟨fun m hm => (by cases hm), fun m hm => (by cases hm)⟩
  | range xr =>
    intro x hx; simp only [toL, List.mem_singleton] at hx; subst hx
    cases b with
    | range r => exact Range.pv2_of_beq x r (by simpa [Spec.beq] using h) ha hb
    | any =>
      have : x.isAny = true := by simpa [Spec.beq] using h
      rcases x with ⟨m, M, i, j, t⟩
      cases m <;> cases M <;> simp [Range.isAny] at this
      exact ⟨fun m hm => (by cases hm), fun m hm => (by cases hm)⟩
    | empty => simp [Spec.beq] at h
    | union _ _ => simp [Spec.beq] at h
  | union xs xt =>
    cases b with
    | union ys yt =>
      simp only [Spec.beq, Bool.and_eq_true, beq_iff_eq, List.all_eq_true] at h
      intro x hx
      simp only [toL] at hx
      obtain ⟨y, hy, hz⟩ := zip_mem_left xs ys h.1 x hx
      exact Range.pv2_of_beq x y (h.2 (x, y) hz) (ha.1 x hx) (hb.1 y hy)
    | empty => simp [Spec.beq] at h
    | any => simp [Spec.beq, Spec.isAny] at h
    | range _ => simp [Spec.beq] at h

theorem any_and_fromClause (c : Clause Ver) (s : Spec Ver) (h : fromClause c = some s) : (Spec.range {}).and s = s := by
  rcases c with ⟨op, v, w⟩
  cases op <;> cases w <;> simp only [fromClause, Option.some.injEq, Option.map_eq_some_iff] at h
  all_goals first
    | (subst h; simp [Spec.and, Range.and, Range.isSuperset, Range.isAny])
    | (obtain ⟨mx, _, rfl⟩ := h; simp [Spec.and, Range.and, Range.isSuperset, Range.isAny])

/-- what the parser builds from the clause of a two-component view is a two-component view -/
theorem fromClause_pv2 (c : Clause Ver) (s1 s : Spec Ver) (hfc : fromClause c = some s1) (hfin : FinalV c.ver)
    (hb : BoundsIn Pv2 s) (hbeq : s1.beq s = true) : BoundsIn Pv2 s1 := by
  have hfb := allVers_of_boundsIn FinalV s1 (fromClause_final c hfin s1 hfc)
  have hbounds := pv2_bounds_of_beq s1 s hbeq hfb (allVers_of_boundsIn Pv2 s hb)
  apply boundsIn_of_allVers
  rcases c with ⟨op, v, w⟩
  have rvz : ∀ (e : Nat) (r : List Nat), Pv2 (Ver.releaseVersion e r) → FinalV ⟨e, r, none, none, none⟩ →
      Pv2 ⟨e, r, none, none, none⟩ := by
    intro e r h hf
    refine ⟨hf, fun i hi => ?_⟩
    have := h.2 i hi
    simp only [Ver.releaseVersion] at this
    rwa [nth0_append_zero] at this
  have hv : v = ⟨v.epoch, v.release, none, none, none⟩ := by
    rcases v with ⟨e, r, pre, post, dev⟩
    have := hfin.1
    cases pre <;> cases post <;> cases dev <;> simp [Ver.isFinal] at this ⊢
  cases op <;> cases w <;> simp only [fromClause, Option.some.injEq, Option.map_eq_some_iff] at hfc
  all_goals first
    | (subst hfc
       simp only [toL, List.mem_singleton, forall_eq, List.mem_cons, List.mem_nil_iff, or_false, forall_eq_or_imp] at hbounds
       simp only [Spec.AllVers, Range.AllVers, List.mem_cons, List.mem_nil_iff, or_false, forall_eq_or_imp, forall_eq]
       simp at hbounds ⊢
       exact hbounds)
    | (obtain ⟨mx, hmx, rfl⟩ := hfc
       simp only [toL, List.mem_singleton, forall_eq, List.mem_cons, List.mem_nil_iff, or_false, forall_eq_or_imp] at hbounds
       simp only [Spec.AllVers, Range.AllVers, List.mem_cons, List.mem_nil_iff, or_false, forall_eq_or_imp, forall_eq]
       simp at hbounds ⊢
       have hpv : Pv2 v := by
         first
           | exact hbounds.1
           | (rw [hv]; exact rvz _ _ hbounds.1 (by rw [← hv]; exact hfin))
       first
         | exact ⟨hbounds.1, hbounds.2, hpv⟩
         | exact ⟨⟨hbounds.1, hbounds.2⟩, hpv⟩)

/-- the clause of a two-component view, when it is not a wildcard, is over a two-component version -/
theorem fsClause_pv2_plain (s : Spec Ver) (c : Clause Ver) (hb : BoundsIn Pv2 s) (hc : fsClause? s = some c)
    (hw : c.wild = false) : Pv2 c.ver := by
  have hall := allVers_of_boundsIn Pv2 s hb
  cases s with
  | empty => simp [fsClause?] at hc
  | any => simp [fsClause?] at hc
  | range r =>
    obtain ⟨h1, h2, h3⟩ := hall
    simp only [fsClause?, Range.strClauses] at hc
    cases ht : r.text with
    | some c0 =>
      simp only [ht, List.head?_cons, Option.some.injEq] at hc
      subst hc; exact h3 _ ht
    | none =>
      simp only [ht] at hc
      cases hm : r.min <;> cases hM : r.max <;> simp only [hm, hM] at hc
      · simp at hc
      · simp at hc; subst hc; exact h2 _ hM
      · simp at hc; subst hc; exact h1 _ hm
      · rename_i a b
        split at hc
        · simp at hc; subst hc; exact h1 _ hm
        · split at hc
          · simp [twoClauses] at hc; subst hc; exact h1 _ hm
          · split at hc
            · simp at hc; subst hc; exact h1 _ hm
            · simp [twoClauses] at hc; subst hc; exact h1 _ hm
  | union rs t =>
    obtain ⟨hrs, ht⟩ := hall
    simp only [fsClause?, unionSimplified] at hc
    cases t with
    | some c0 => simp at hc; subst hc; exact ht _ rfl
    | none =>
      simp only at hc
      split at hc
      · rename_i left right
        split at hc
        · rename_i lm rm _ _ hlmax _
          split at hc
          · simp at hc; subst hc; exact (hrs left (by simp)).2.1 _ hlmax
          · split at hc
            · split at hc
              · cases hc
              · simp only [Option.map_eq_some_iff] at hc
                obtain ⟨p, _, rfl⟩ := hc
                simp at hw
            · cases hc
        · cases hc
      · cases hc

theorem list_len_two {β : Type} : ∀ (l : List β), l.length = 2 → ∃ a b, l = [a, b]
  | [a, b], _ => ⟨a, b, rfl⟩
  | [], h => by simp at h
  | [_], h => by simp at h
  | _ :: _ :: _ :: _, h => by simp at h

/-- a view that renders as `~=V`, `==V.*` or `!=V.*` is half-open -/
theorem nth0_short (l : List Nat) (i : Nat) (h : l.length ≤ i) : nth0 l i = 0 := by
  unfold nth0
  simp [List.getD_eq_getElem?_getD, List.getElem?_eq_none h]

theorem releaseVersion_tail2 (e : Nat) (r : List Nat) (hr : r.length ≤ 2) :
    ∀ i, 2 ≤ i → nth0 (Ver.releaseVersion e r).release i = 0 := by
  intro i hi
  simp only [Ver.releaseVersion]
  rw [nth0_append_zero]
  exact nth0_short r i (by omega)

theorem nextSeries_tail2 (v mx : Ver) (n : Nat) (hn : n ≤ 2) (h : v.nextSeries n = some mx) :
    ∀ i, 2 ≤ i → nth0 mx.release i = 0 := by
  obtain ⟨init, last, htk, rfl⟩ := nextSeries_eq v n mx h
  have hlen : (init ++ [last + 1]).length ≤ 2 := by
    have h1 := congrArg List.length htk
    have h2 : (v.release.take n).length ≤ n := by rw [List.length_take]; omega
    simp only [List.length_append, List.length_cons, List.length_nil] at h1 ⊢
    omega
  exact releaseVersion_tail2 _ _ hlen

/-- the view the parser builds from a wildcard / `~=` clause over at most two release components has
    two-component bounds and half-open ranges: it does not tell `X.Y` from `X.Y.Z` -/
theorem fromClause_short (c : Clause Ver) (s1 : Spec Ver) (hfc : fromClause c = some s1) (hfin : FinalV c.ver)
    (hshort : c.ver.release.length ≤ 2) (hr : (c.wild = true ∧ (c.op = .eq ∨ c.op = .ne)) ∨ c.op = .compat) :
    BoundsIn Pv2 s1 ∧ HalfOpen s1 := by
  rcases c with ⟨op, v, w⟩
  simp only at hfc hfin hshort hr
  have he : v.epoch = 0 := hfin.2.1
  have hv2 : Pv2 v := ⟨hfin, fun i hi => nth0_short _ _ (by omega)⟩
  have hrv : Pv2 (Ver.releaseVersion v.epoch v.release) :=
    ⟨by rw [he]; exact releaseVersion_final _, releaseVersion_tail2 _ _ hshort⟩
  have key : ∀ n mx, n ≤ 2 → v.nextSeries n = some mx → Pv2 mx :=
    fun n mx hn h => ⟨nextSeries_final v mx n he h, nextSeries_tail2 v mx n hn h⟩
  rcases hr with ⟨rfl, rfl | rfl⟩ | rfl
  · simp only [fromClause, Option.map_eq_some_iff] at hfc
    obtain ⟨mx, hmx, rfl⟩ := hfc
    have hm := key _ mx hshort hmx
    refine ⟨boundsIn_of_allVers _ _ ?_, ?_⟩
    · simp [Spec.AllVers, Range.AllVers]; exact ⟨hrv, hm, hv2⟩
    · simp [HalfOpen, HalfOpenR]
  · simp only [fromClause, Option.map_eq_some_iff] at hfc
    obtain ⟨mx, hmx, rfl⟩ := hfc
    have hm := key _ mx hshort hmx
    refine ⟨boundsIn_of_allVers _ _ ?_, ?_⟩
    · simp [Spec.AllVers, Range.AllVers]; exact ⟨⟨hrv, hm⟩, hv2⟩
    · simp [HalfOpen, HalfOpenR]
  · cases w <;>
    · simp only [fromClause, Option.map_eq_some_iff] at hfc
      obtain ⟨mx, hmx, rfl⟩ := hfc
      have hm := key _ mx (by omega) hmx
      refine ⟨boundsIn_of_allVers _ _ ?_, ?_⟩
      · simp [Spec.AllVers, Range.AllVers]; exact ⟨hv2, hm, hv2⟩
      · simp [HalfOpen, HalfOpenR]

theorem render_halfopen (s : Spec Ver) (c : Clause Ver) (hn : C06.Nice s) (hc : fsClause? s = some c)
    (hr : (c.wild = true ∧ (c.op = .eq ∨ c.op = .ne)) ∨ c.op = .compat) : HalfOpen s := by
  have flags : ∀ x r : Range Ver, x.beq r = true → x.min.isSome = true → x.max.isSome = true →
      x.incMin = true → x.incMax = false → HalfOpenR r := by
    intro x r hb h1 h2 h3 h4
    rcases x with ⟨xm, xM, xi, xj, xt⟩; rcases r with ⟨rm, rM, ri, rj, rt⟩
    simp only at h3 h4; subst h3; subst h4
    cases xm <;> cases xM <;> cases rm <;> cases rM <;> simp [Range.beq] at hb h1 h2
    exact ⟨Or.inr (by simpa using hb.1.2.symm), Or.inr (by simpa using hb.2.symm)⟩
  cases s with
  | empty => simp [fsClause?] at hc
  | any => simp [fsClause?] at hc
  | range r =>
    simp only [fsClause?, Range.strClauses] at hc
    cases ht : r.text with
    | some c0 =>
      simp only [ht, List.head?_cons, Option.some.injEq] at hc
      subst hc
      obtain ⟨x, hx, hb⟩ := hn.text c0 ht
      rcases c0 with ⟨op, v, w⟩
      simp only at hr
      rcases hr with ⟨hw, ho | ho⟩ | ho
      · subst hw; subst ho
        simp only [fromClause, Option.map_eq_some_iff] at hx
        obtain ⟨mx, _, hx⟩ := hx
        cases hx
        exact flags _ r hb rfl rfl rfl rfl
      · subst hw; subst ho
        simp only [fromClause, Option.map_eq_some_iff] at hx
        obtain ⟨mx, _, hx⟩ := hx
        cases hx
      · subst ho
        cases w <;>
          (simp only [fromClause, Option.map_eq_some_iff] at hx
           obtain ⟨mx, _, hx⟩ := hx
           cases hx
           exact flags _ r hb rfl rfl rfl rfl)
    | none =>
      simp only [ht] at hc
      cases hm : r.min <;> cases hM : r.max <;> simp only [hm, hM] at hc
      · simp at hc
      · simp at hc; subst hc; rcases hr with ⟨hw, _⟩ | ho
        · cases hw
        · revert ho; cases r.incMax <;> simp
      · simp at hc; subst hc; rcases hr with ⟨hw, _⟩ | ho
        · cases hw
        · revert ho; cases r.incMin <;> simp
      · rename_i a b
        split at hc
        · simp at hc; subst hc; rcases hr with ⟨hw, _⟩ | ho
          · cases hw
          · cases ho
        · split at hc
          · simp [twoClauses] at hc; subst hc; rcases hr with ⟨hw, _⟩ | ho
            · cases hw
            · revert ho; cases r.incMin <;> simp
          · rename_i hflags
            split at hc
            · simp only [Bool.or_eq_true, Bool.not_eq_true', not_or, Bool.not_eq_false] at hflags
              exact ⟨Or.inr hflags.1, Or.inr (by simpa using hflags.2)⟩
            · simp [twoClauses] at hc; subst hc; rcases hr with ⟨hw, _⟩ | ho
              · cases hw
              · revert ho; cases r.incMin <;> simp
  | union rs t =>
    simp only [fsClause?, unionSimplified] at hc
    cases t with
    | some c0 =>
      simp at hc; subst hc
      obtain ⟨ys, yt, hy, hb⟩ := hn.text.2 c0 rfl
      rcases c0 with ⟨op, v, w⟩
      simp only at hr
      rcases hr with ⟨hw, ho | ho⟩ | ho
      · subst hw; subst ho
        simp only [fromClause, Option.map_eq_some_iff] at hy
        obtain ⟨mx, _, hy⟩ := hy
        cases hy
      · subst hw; subst ho
        simp only [fromClause, Option.map_eq_some_iff] at hy
        obtain ⟨mx, _, hy⟩ := hy
        cases hy
        -- the two ranges of `!=p.*`, matched against the union's own
        simp only [Spec.beq, List.length_cons, List.length_nil, Bool.and_eq_true, beq_iff_eq, List.all_eq_true] at hb
        obtain ⟨hlen, hall⟩ := hb
        obtain ⟨left, right, rfl⟩ := list_len_two rs (by omega)
        have hl := hall ({ max := some (Ver.releaseVersion v.epoch v.release) }, left) (by simp)
        have hr' := hall ({ min := some mx, incMin := true }, right) (by simp)
        intro r hrm
        simp only [List.mem_cons, List.mem_nil_iff, or_false] at hrm
        rcases hrm with rfl | rfl
        · rcases r with ⟨rm, rM, ri, rj, rt⟩
          cases rm <;> cases rM <;> simp [Range.beq] at hl
          exact ⟨Or.inl rfl, Or.inr (by simpa using hl.2.symm)⟩
        · rcases r with ⟨rm, rM, ri, rj, rt⟩
          cases rm <;> cases rM <;> simp [Range.beq] at hr'
          exact ⟨Or.inr (by simpa using hr'.1.2.symm), Or.inl rfl⟩
      · subst ho
        cases w <;>
          (simp only [fromClause, Option.map_eq_some_iff] at hy
           obtain ⟨mx, _, hy⟩ := hy
           cases hy)
    | none =>
      simp only at hc
      split at hc
      · rename_i left right
        split at hc
        · rename_i lm rm hlmin hrmax hlmax hrmin
          split at hc
          · simp at hc; subst hc
            rcases hr with ⟨hw, _⟩ | ho
            · cases hw
            · cases ho
          · split at hc
            · rename_i hflags
              simp only [Bool.and_eq_true, Bool.not_eq_true'] at hflags
              intro r hrm
              simp only [List.mem_cons, List.mem_nil_iff, or_false] at hrm
              rcases hrm with rfl | rfl
              · exact ⟨Or.inl hlmin, Or.inr hflags.1⟩
              · exact ⟨Or.inr hflags.2, Or.inl hrmax⟩
            · cases hc
        · cases hc
      · cases hc

/-- the clause parser only accepts `.*` after `==` and `!=` -/
theorem parseClauseL_wild_op (l : List Char) (c : Clause Ver) (h : SpecParse.parseClauseL l = some c)
    (hw : c.wild = true) : c.op = .eq ∨ c.op = .ne := by
  unfold SpecParse.parseClauseL at h
  split at h
  · cases h
  · rename_i op rest _
    simp only at h
    generalize SpecParse.stripWild rest = bw at h
    obtain ⟨body, w⟩ := bw
    simp only at h
    split at h
    · cases h
    · rename_i hcond
      simp only [Option.bind_eq_some_iff] at h
      obtain ⟨v, _, hv⟩ := h
      split at hv
      · cases hv
      · simp only [Option.some.injEq] at hv
        subst hv
        simp only at hw
        subst hw
        simp only [Bool.true_and, Bool.not_eq_true', Bool.not_eq_false] at hcond
        simpa using hcond

/-- a python_version atom is normalised consistently, given the lexing facts -/
theorem normGood_of_lex (env : Env) (he : EnvTotal env) (a : Atom) (c : Clause Ver)
    (hN : ∀ ns, normalizePythonVersion a = some ns → NormShape a c ns)
    (hw : a.WF) (hname : a.name = "python_version") (hop : a.op ≠ .in_ ∧ a.op ≠ .notIn)
    (hl : C11.LexOne a c) (hcoh : a.Coherent env) (hnice : a.spec.Canon)
    (hpv : (c.wild = true ∨ c.op = .compat) → c.ver.release.length ≤ 2 → PvSem env a.spec) :
    NormGood env a := by
  intro _ ns hns
  have hvl : versionLikeNames.contains a.name = true := by rw [hname]; decide
  have hvlf : versionLikeNames.contains "python_full_version" = true := by decide
  obtain ⟨f, hf⟩ : ∃ f, envVer env "python_full_version" = some f :=
    Option.isSome_iff_exists.1 (he.ver _ hvlf)
  obtain ⟨X, Y, zs, rfl, hpvv⟩ := he.py f hf
  obtain ⟨s0, hs0, hspec⟩ := spec_of_lex a c hw hvl hop hl
  unfold Atom.Coherent at hcoh
  rw [hname] at hcoh
  rcases hN ns hns with ⟨rfl, hreason, hshort⟩ | ⟨A, B, sn, hwild, hnc, he0, hfin, hseq, hsn, rfl⟩
  · refine ⟨?_, hnice, ?_⟩
    · rw [hcoh, hspec, holds_ver, holds_ver, hf, hpvv]
      have hpv' := hpv hreason hshort
      rw [hspec] at hpv'
      exact (decide_eq_decide.2 (hpv' _ _ hpvv hf)).symm
    · rw [hspec]; exact hvlf
  · refine ⟨?_, ?_, hvlf⟩
    · rw [hcoh, hspec, holds_ver, holds_ver, hf, hpvv]
      apply decide_eq_decide.2
      rw [C11.any_and_mem, C11.any_and_mem]
      -- the two readings through C04's leaf theorem and the normalisation theorem
      have hnc' : ∃ b, Pep440.matchesFinal (normClause2 c.op A B) (fin (X :: Y :: zs)) = some b := by
        cases hco : c.op <;> first | exact absurd hco hnc | exact ⟨_, rfl⟩
      obtain ⟨b, hb⟩ := hnc'
      have h1 := C04.leaf_exact _ (fin (X :: Y :: zs)) rfl sn b hsn hb
      rw [← pyNorm_sem c.op A B X Y zs] at hb
      have heqv : eqv c.ver (fin [A, B]) := eqv_of_final_seq _ _ hfin rfl (by simpa [fin] using he0) hseq
      have hc : c = ⟨c.op, c.ver, false⟩ := by rcases c with ⟨o, v, w⟩; simp at hwild; subst hwild; rfl
      rw [← matchesFinal_congr c.op hnc _ _ (fin [X, Y]) heqv, ← hc] at hb
      have h2 := C04.leaf_exact c (fin [X, Y]) rfl s0 b hs0 hb
      rw [← h1, h2]
    · exact C06.nice_and _ _ nice_anyRange
        ⟨fromClause_canon _ _ hsn, Spec.fromClause_textInv _ _ hsn,
         fromClause_final _ (by cases c.op <;> exact ⟨rfl, rfl, by simp [normClause2, fin]⟩) _ hsn⟩

/-- **`from_specifier` means the specifier** (C11, specifier -> atom): for every version-like
    variable and every nice specifier, the marker `from_specifier` returns is made of good atoms and
    is satisfied exactly when the environment's version is admitted.  Printing the operand and
    reading it back is proved (`lexPrint_final`); only `LexNormOk` is assumed, and only for the
    python_version atoms it builds. -/
theorem fromSpecOk_of_lex (env : Env) (he : EnvTotal env) (hN : LexNormOk) : FromSpecOk env := by
  intro name s m hvl hnice hm
  have hn : C06.Nice s := hnice
  obtain ⟨v, hv⟩ : ∃ v, envVer env name = some v := Option.isSome_iff_exists.1 (he.ver name hvl)
  have hfin := he.verFinal name v hv
  have hholds : holds env name (.ver s) = decide (s.mem v) := by rw [holds_ver, hv]
  unfold fromSpecifier at hm
  by_cases hany' : (ASpec.ver s).isAny = true
  · have hany : s.isAny = true := hany'
    rw [if_pos hany'] at hm
    cases hm
    refine ⟨trivial, ?_⟩
    rw [hholds]
    have : s.mem v := by
      cases s <;> simp [Spec.isAny] at hany
      · simp [Spec.mem]
      · rename_i r
        rcases r with ⟨mn, mx, i, j, t⟩
        cases mn <;> cases mx <;> simp [Range.isAny] at hany
        simp [Spec.mem, Range.mem]
    simp [sem, this]
  · rw [if_neg hany'] at hm
    by_cases hemp' : (ASpec.ver s).isEmpty = true
    · have hemp : s.isEmpty = true := hemp'
      rw [if_pos hemp'] at hm
      cases hm
      refine ⟨trivial, ?_⟩
      rw [hholds]
      cases s <;> simp [Spec.isEmpty] at hemp
      show false = decide False
      rfl
    · rw [if_neg hemp'] at hm
      simp only at hm
      by_cases hsimple : (!s.isSimple) = true
      · rw [if_pos hsimple] at hm; cases hm
      · rw [if_neg hsimple] at hm
        have hsimple' : s.isSimple = true := by simpa using hsimple
        simp only [Option.bind_eq_some_iff, Option.map_eq_some_iff] at hm
        obtain ⟨c, hc, a', ha', rfl⟩ := hm
        -- the new atom
        simp only [mkAtom, Option.map_eq_some_iff] at ha'
        obtain ⟨spec', hspec', rfl⟩ := ha'
        have hopn : MOp.ofCOp c.op ≠ .in_ ∧ MOp.ofCOp c.op ≠ .notIn := by cases c.op <;> simp [MOp.ofCOp]
        have hne : (MOp.ofCOp c.op == MOp.in_ || MOp.ofCOp c.op == MOp.notIn) = false := by
          cases c.op <;> simp [MOp.ofCOp]
        have hspec0 := hspec'
        unfold getSpecifier at hspec'
        simp only [hvl, Bool.not_true, Bool.false_eq_true, if_false, hne, Option.map_eq_some_iff] at hspec'
        obtain ⟨sp, hsp, rfl⟩ := hspec'
        simp only [parseSpecOpt, SpecParse.parseSpecString] at hsp
        cases halts : SpecParse.parseAltsText ((MOp.ofCOp c.op).str ++ fsText name c) with
        | none => simp [halts] at hsp
        | some alts =>
          obtain ⟨rfl, hone⟩ := lexPrint_final name c (fsClause_final s c hn hc) alts halts
          simp only [halts, Option.map_some, parseAlts, List.foldl_nil, parseAlt, fromSpecifierSet, List.foldl_cons,
            Option.bind_some] at hsp
          cases hfc' : fromClause (fsC name c) with
          | none => simp [hfc'] at hsp
          | some s1 =>
            simp only [hfc', Option.map_some] at hsp
            have hsp' : sp = (Spec.range {}).and s1 := by
              cases h : (some ((Spec.range ({} : Range Ver)).and s1) : Option (Spec Ver)) with
              | none => cases h
              | some x => rw [h] at hsp; simp at hsp; cases h; exact hsp.symm
            subst hsp'
            -- what `s` renders as, and that it re-parses to an equal object
            obtain ⟨s'', hparse, hbeq, _⟩ := C06.nice_roundtrips s hn
            rw [simple_str s c hsimple' hc, C06.parse_one_alt] at hparse
            simp only [fromSpecifierSet, List.foldl_cons, List.foldl_nil, Option.bind_some] at hparse
            cases hfc : fromClause c with
            | none => simp [hfc] at hparse
            | some s0 =>
              simp only [hfc, Option.map_some, Option.some.injEq] at hparse
              subst hparse
              have hmemAll : ∀ w, ((Spec.range {}).and s1).mem w ↔ s.mem w := by
                intro w
                rw [C11.any_and_mem, fromClause_fsC_mem name c s0 s1 hfc hfc' w, ← C11.any_and_mem s0 w]
                exact C05.eq_sound _ _ hbeq w
              have hmem := hmemAll v
              -- the atom
              let a' : Atom := ⟨name, MOp.ofCOp c.op, fsText name c, false, .ver ((Spec.range {}).and s1)⟩
              have hwf : a'.WF := hspec0
              have hnice1 : C06.Nice s1 :=
                ⟨fromClause_canon _ _ hfc', Spec.fromClause_textInv _ _ hfc',
                 fromClause_final _ (fsC_final name c (fsClause_final s c hn hc)) _ hfc'⟩
              have hcoh : a'.Coherent env := by
                obtain ⟨t, ht⟩ : ∃ t, env name = some (.str t) ∧ SpecParse.parseVer (trimS t) = some v := by
                  unfold envVer at hv
                  cases hen : env name with
                  | none => simp [hen] at hv
                  | some ev =>
                    cases ev with
                    | set _ => simp [hen] at hv
                    | str t => exact ⟨t, rfl, by simpa [hen] using hv⟩
                exact C11.coherent_plain env a' (fsC name c) hwf hvl hopn rfl ⟨halts, hone⟩ t v ht.1 ht.2 hfin
              have hgood : GoodAtom env a' := by
                refine ⟨hwf, ?_⟩
                have h1 : name ≠ "extra" := by
                  intro h; subst h; simp [versionLikeNames] at hvl
                have h2 : setNames.contains name = false := by
                  cases h : setNames.contains name
                  · rfl
                  · simp only [setNames, versionLikeNames, List.contains_cons, List.contains_nil, Bool.or_false,
                      Bool.or_eq_true, beq_iff_eq] at h hvl
                    rcases h with rfl | rfl <;> simp at hvl
                simp only [a', h1, if_false, h2, Bool.false_eq_true, hvl, if_true]
                have hnice' : (ASpec.ver ((Spec.range {}).and s1)).Canon := C06.nice_and _ _ nice_anyRange hnice1
                by_cases hnm : name = "python_version"
                · have hfsC : fsC name c = c := by
                    unfold fsC fsPad; subst hnm; simp
                  have hfc1 : fromClause c = some s1 := by rw [← hfsC]; exact hfc'
                  have hs01 : s0 = s1 := by rw [hfc] at hfc1; exact Option.some.inj hfc1
                  have hbeq' : s1.beq s = true := by
                    rw [← hs01, ← any_and_fromClause c s0 hfc]; exact hbeq
                  refine Or.inr ⟨hcoh, hnice', ?_⟩
                  refine normGood_of_lex env he a' (fsC name c) ?_ hwf hnm hopn ⟨halts, hone⟩ hcoh hnice' ?_
                  · intro ns hns
                    rw [hfsC]
                    subst hnm
                    exact hN c _ ns (fsClause_final s c hn hc) hwf hns
                  · -- the unchanged case: a wildcard / `~=` clause over at most two components; what the parser
                    -- builds from it is half-open over two-component bounds, hence saturated
                    rw [hfsC]
                    intro hreason hshort
                    have hwc : (c.wild = true ∧ (c.op = .eq ∨ c.op = .ne)) ∨ c.op = .compat := by
                      rcases hreason with hw | hcmp
                      · exact Or.inl ⟨hw, parseClauseL_wild_op _ c (by rw [← hfsC]; exact hone) hw⟩
                      · exact Or.inr hcmp
                    obtain ⟨hb1, hh1⟩ := fromClause_short c s1 hfc1 (fsClause_final s c hn hc) hshort hwc
                    have hsat : PvSem env (.ver s1) := pvsem_halfopen env he s1 hh1 hb1
                    intro pv f hpv hf
                    rw [C11.any_and_mem, C11.any_and_mem]
                    exact hsat pv f hpv hf
                · refine Or.inr ⟨hcoh, hnice', fun h => absurd h hnm⟩
              refine ⟨hgood, ?_⟩
              have := hcoh
              unfold Atom.Coherent at this
              rw [this, hholds, holds_ver, hv]
              exact decide_eq_decide.2 hmem

end M
end DepLogic
