import DepLogic.Proofs.MarkerEngineStep
import DepLogic.Properties.C19
import DepLogic.Proofs.SpecTheorems
import DepLogic.Proofs.TextInv
import DepLogic.Proofs.PyNorm
/-
  The single-marker layer: which atoms are "good" in an environment, and that `&`/`|` between
  good single markers is sound (`SingleSound`).  String variables: proved outright from C19.
  Version variables: reduced to two named facts about the marker <-> specifier bridge (C11):
  `FromSpecOk` (from_specifier yields an atom that means the specifier) and `NormOk`
  (the python_version -> python_full_version normalisation).
-/
namespace DepLogic
namespace M

def setNames : List String := ["extras", "dependency_groups"]

/-- plain string variable: neither version-compared, nor `extra`, nor set-valued -/
def StrName (n : String) : Prop :=
  versionEvalNames.contains n = false ∧ versionLikeNames.contains n = false ∧ n ≠ "extra" ∧
  setNames.contains n = false

instance (n : String) : Decidable (StrName n) := by unfold StrName; exact inferInstance

/-- is the environment's value of `name` in the specifier?  (string view / version view) -/
def holds (env : Env) (name : String) : ASpec → Bool
  | .gen g => match env name with | some (.str t) => g.contains t | _ => false
  | .ver s =>
    match s with
    | .empty => false
    | .any => true
    | s =>
      match env name with
      | some (.str t) =>
        (match SpecParse.parseVer (trimS t) with | some v => decide (s.mem v) | none => false)
      | _ => false

/-- the atom's specifier is the one `_get_specifier` computes from its own fields -/
def _root_.DepLogic.Atom.WF (a : Atom) : Prop := getSpecifier a.name a.op a.value a.reversed = some a.spec

/-- the atom evaluates as its specifier view says -/
def _root_.DepLogic.Atom.Coherent (env : Env) (a : Atom) : Prop := sem env (.expr a) = holds env a.name a.spec

/-- canonical, cached clause texts right, and no bound is a post-release (`C06.Nice`).  (With a
    post-release upper bound the `~=` rendering of `RangeSpecifier._simplified_form` drops the suffix
    — known finding D4a — and `from_specifier` would then build an atom that means something else.) -/
def _root_.DepLogic.ASpec.Canon : ASpec → Prop
  | .ver s => C06.Nice s
  | .gen _ => True

/-- the version the environment gives to `name`, if it is one -/
def envVer (env : Env) (name : String) : Option Ver :=
  match env name with
  | some (.str t) => SpecParse.parseVer (trimS t)
  | _ => none

/-- a specifier on `python_version` that does not tell `X.Y` from `X.Y.Z`: read on the environment's
    python_full_version it admits what it admits on its python_version.  (True of views with bounds
    `X.Y`, `X.Y.0`, …; false of `>= 3.8.1`.) -/
def PvSem (env : Env) : ASpec → Prop
  | .ver sp => ∀ pv f, envVer env "python_version" = some pv → envVer env "python_full_version" = some f →
      (sp.mem pv ↔ sp.mem f)
  | .gen _ => True

/-- a plain final release with at most two significant components (`3.8`, `3.8.0`, `4`) -/
def Pv2 (v : Ver) : Prop := Spec.FinalV v ∧ ∀ i, 2 ≤ i → VOrd.nth0 v.release i = 0

/-- every version stored in a python_version view has at most two significant components: what
    `python_version` atoms with operands `X`, `X.Y` (and `X.Y.0` as from_specifier writes them) have,
    and what `&`, `|` preserve -/
def PvBounds : ASpec → Prop
  | .ver sp => Spec.BoundsIn Pv2 sp
  | .gen _ => True

/-- both views are of the kind the variable has -/
def SameKind (n : String) (s : ASpec) : Prop :=
  match s with
  | .ver _ => versionLikeNames.contains n = true
  | .gen _ => n ≠ "extra" ∧ setNames.contains n = false

/-- a `python_version` atom read as a constraint on `python_full_version` — what
    `_normalize_python_version_specifier` computes — means what the atom means.  (False of operands
    outside the well-defined class, e.g. `python_version >= "3.8.1"`.) -/
def NormGood (env : Env) (a : Atom) : Prop :=
  a.name = "python_version" → ∀ ns, normalizePythonVersion a = some ns →
    holds env "python_full_version" ns = sem env (.expr a) ∧ ns.Canon ∧ SameKind "python_full_version" ns

/-- atoms of the well-defined classes, in an environment where they behave -/
def GoodAtom (env : Env) (a : Atom) : Prop :=
  a.WF ∧
  (if a.name = "extra" then a.op = .eq ∨ a.op = .ne
   else if setNames.contains a.name then a.reversed = true ∧ (a.op = .in_ ∨ a.op = .notIn)
   else if versionLikeNames.contains a.name then
     -- an atom whose specifier view is not exact (`"3.8" ~= python_version`, ...) is opaque: never merged
     a.exactView = false ∨
     (a.Coherent env ∧ a.spec.Canon ∧ NormGood env a)
   else StrName a.name ∨ a.exactView = false)

def Good (env : Env) : M → Prop
  | .expr a => GoodAtom env a
  | .eqU n _ => StrName n
  | .neM n _ => StrName n
  | _ => True

theorem strName_not_versionLike {n : String} (h : StrName n) : versionLikeNames.contains n = false := h.2.1

/-- a well-formed atom on a plain string variable carries the `GenericSpecifier` of its fields -/
theorem wf_str_spec (a : Atom) (hw : a.WF) (hn : StrName a.name) :
    ∃ g, a.op.toGOp? a.reversed = some g ∧ a.spec = .gen ⟨g, a.value⟩ := by
  unfold Atom.WF getSpecifier at hw
  simp only [hn.2.1, Bool.not_false, if_true] at hw
  cases hg : a.op.toGOp? a.reversed with
  | none => simp [hg] at hw
  | some g => simp [hg] at hw; exact ⟨g, rfl, hw.symm⟩

theorem str_le_iff (a b : String) : decide (¬ a < b) = decide (b ≤ a) := by
  by_cases h : a < b
  · simp [h, String.not_le.2 h]
  · simp [h, String.not_lt.1 h]

/-- coherence of plain string atoms is a theorem: `_evaluate` and `GenericSpecifier.__contains__`
    compute the same thing (both operand orders, all operators) -/
theorem str_coherent (env : Env) (a : Atom) (hw : a.WF) (hn : StrName a.name) : a.Coherent env := by
  obtain ⟨g, hg, hs⟩ := wf_str_spec a hw hn
  unfold Atom.Coherent
  rw [hs]
  simp only [sem, holds, Atom.eval]
  have h1 : (a.name == "extra") = false := by simpa using hn.2.2.1
  have h2 : (a.name == "extras" || a.name == "dependency_groups") = false := by
    have := hn.2.2.2; simp [setNames] at this; simp [this]
  simp only [h1, Bool.false_eq_true, if_false, h2, hn.1]
  cases henv : env a.name with
  | none => rfl
  | some ev =>
    cases ev with
    | set xs => rfl
    | str t =>
      simp only []
      rcases a with ⟨name, op, value, rev, spec⟩
      simp only at hg ⊢
      cases rev <;> cases op <;> simp [MOp.toGOp?] at hg <;> subst hg <;>
        simp [strOp, MOp.reflect, GSpec.contains, GSpec.containsWith, Option.getD, bne, eq_comm] <;>
        (rw [Bool.eq_iff_iff]; simp only [beq_iff_eq]; exact ⟨Eq.symm, Eq.symm⟩)


/-! ### the specifier views: `&`, `|`, `==` respect `holds` -/

theorem Range.beq_mem (a b : Range Ver) (h : a.beq b = true) (v : Ver) : a.mem v ↔ b.mem v := by
  have tr := @LinPre.le_trans Ver _
  rcases a with ⟨mn, mx, i, j, t⟩
  rcases b with ⟨mn', mx', i', j', t'⟩
  cases mn <;> cases mx <;> cases mn' <;> cases mx' <;> simp [Range.beq] at h <;>
    simp [Range.mem] <;> grind

theorem zipAll_mem (xs ys : List (Range Ver)) (hl : xs.length = ys.length)
    (h : ((xs.zip ys).all fun p => p.1.beq p.2) = true) (v : Ver) :
    (∃ r ∈ xs, r.mem v) ↔ (∃ r ∈ ys, r.mem v) := by
  induction xs generalizing ys with
  | nil => cases ys <;> simp_all
  | cons x xs ih =>
    cases ys with
    | nil => simp at hl
    | cons y ys =>
      simp only [List.zip_cons_cons, List.all_cons, Bool.and_eq_true] at h
      have := ih ys (by simpa using hl) h.2
      have hxy := Range.beq_mem x y h.1 v
      simp only [List.mem_cons, exists_eq_or_imp, hxy, this]

/-- Python-equal version specifiers admit the same versions -/
theorem Spec.beq_mem (a b : Spec Ver) (h : a.beq b = true) (v : Ver) : a.mem v ↔ b.mem v := by
  cases a <;> cases b <;> simp [Spec.beq, Spec.isAny] at h <;> simp [Spec.mem]
  · rename_i r; exact Spec.isAny_mem r h v
  · rename_i r; exact Spec.isAny_mem r h v
  · rename_i x y; exact Range.beq_mem x y h v
  · rename_i xs _ ys _
    exact zipAll_mem xs ys h.1 (by rw [List.all_eq_true]; intro p hp; exact h.2 p.1 p.2 hp) v

theorem holds_ver_mem (env : Env) (name : String) (s : Spec Ver) :
    holds env name (.ver s) =
      (match s with
       | .empty => false
       | .any => true
       | s => match env name with
         | some (.str t) => (match SpecParse.parseVer (trimS t) with | some v => decide (s.mem v) | none => false)
         | _ => false) := by
  cases s <;> rfl

/-- `holds` of a version specifier, uniformly: the membership of the environment's version when
    there is one; without one only the universal specifier holds -/
theorem holds_ver (env : Env) (name : String) (s : Spec Ver) :
    holds env name (.ver s) =
      (match envVer env name with
       | some v => decide (s.mem v)
       | none => decide (s = .any)) := by
  unfold envVer
  cases s <;> simp only [holds, Spec.mem] <;> (cases env name with
    | none => simp
    | some ev => cases ev with
      | set _ => simp
      | str t => cases hp : SpecParse.parseVer (trimS t) <;> simp [hp] <;> rfl)


/-- the environment binds every variable the way PEP 508 environments do -/
structure EnvTotal (env : Env) : Prop where
  str : ∀ n, n ≠ "extra" → setNames.contains n = false → ∃ t, env n = some (.str t)
  ver : ∀ n, versionLikeNames.contains n = true → (envVer env n).isSome = true
  /-- interpreter and kernel versions are final releases (`3.12.1`, not `3.13.0rc1`) -/
  verFinal : ∀ n v, envVer env n = some v → v.isFinal = true
  /-- `python_version` is `major.minor` of `python_full_version` -/
  py : ∀ f, envVer env "python_full_version" = some f →
    ∃ X Y zs, f = fin (X :: Y :: zs) ∧ envVer env "python_version" = some (fin [X, Y])
  extra : (env "extra").isSome = true
  sets : ∀ n, setNames.contains n = true → ∃ xs, env n = some (.set xs)

theorem holds_gen (env : Env) (he : EnvTotal env) (n : String) (h1 : n ≠ "extra") (h2 : setNames.contains n = false)
    (g : GSpec) : ∃ t, env n = some (.str t) ∧ holds env n (.gen g) = g.contains t := by
  obtain ⟨t, ht⟩ := he.str n h1 h2
  exact ⟨t, ht, by simp [holds, ht]⟩

theorem holds_ofGRes (env : Env) (n t : String) (ht : env n = some (.str t)) (r : GRes) :
    holds env n (ASpec.ofGRes r) = r.contains t := by
  cases r <;> simp [ASpec.ofGRes, holds, ht, GRes.contains, GRes.containsWith, GSpec.contains]

theorem aspecAnd_holds (env : Env) (he : EnvTotal env) (n : String) (s1 s2 r : ASpec)
    (k1 : SameKind n s1) (k2 : SameKind n s2) (h : aspecAnd s1 s2 = some r) :
    holds env n r = (holds env n s1 && holds env n s2) := by
  cases s1 with
  | gen a =>
    cases s2 with
    | gen b =>
      simp only [aspecAnd, Option.map_eq_some_iff] at h
      obtain ⟨gr, hgr, rfl⟩ := h
      obtain ⟨t, ht, ha⟩ := holds_gen env he n k1.1 k1.2 a
      obtain ⟨_, ht', hb⟩ := holds_gen env he n k1.1 k1.2 b
      rw [ht] at ht'; cases ht'
      rw [holds_ofGRes env n t ht, ha, hb]
      exact C19.and_exact' a b gr hgr t
    | ver b => simp [aspecAnd] at h
  | ver a =>
    cases s2 with
    | gen b => simp [aspecAnd] at h
    | ver b =>
      simp only [aspecAnd, Option.some.injEq] at h
      subst h
      have hv := he.ver n k1
      cases hev : envVer env n with
      | none => simp [hev] at hv
      | some v =>
        simp only [holds_ver, hev]
        rw [Bool.eq_iff_iff]
        simp [Spec.and_mem]

theorem aspecOr_holds (env : Env) (he : EnvTotal env) (n : String) (s1 s2 r : ASpec)
    (k1 : SameKind n s1) (k2 : SameKind n s2) (c1 : s1.Canon) (c2 : s2.Canon) (h : aspecOr s1 s2 = some r) :
    holds env n r = (holds env n s1 || holds env n s2) ∧ r.Canon := by
  cases s1 with
  | gen a =>
    cases s2 with
    | gen b =>
      simp only [aspecOr, Option.map_eq_some_iff] at h
      obtain ⟨gr, hgr, rfl⟩ := h
      obtain ⟨t, ht, ha⟩ := holds_gen env he n k1.1 k1.2 a
      obtain ⟨_, ht', hb⟩ := holds_gen env he n k1.1 k1.2 b
      rw [ht] at ht'; cases ht'
      rw [holds_ofGRes env n t ht, ha, hb]
      refine ⟨C19.or_exact' a b gr hgr t, ?_⟩
      cases gr <;> simp [ASpec.ofGRes, ASpec.Canon, C06.nice_empty, C06.nice_any]
    | ver b => simp [aspecOr] at h
  | ver a =>
    cases s2 with
    | gen b => simp [aspecOr] at h
    | ver b =>
      simp only [aspecOr, Option.map_eq_some_iff] at h
      obtain ⟨s, hs, rfl⟩ := h
      obtain ⟨s', hs', hc, hm⟩ := Spec.or_spec a b c1.canon c2.canon
      rw [hs] at hs'; cases hs'
      have hv := he.ver n k1
      cases hev : envVer env n with
      | none => simp [hev] at hv
      | some v =>
        refine ⟨?_, C06.nice_or a b s c1 c2 hs⟩
        simp only [holds_ver, hev]
        rw [Bool.eq_iff_iff]
        simp [hm]

theorem aspecAnd_canon (s1 s2 r : ASpec) (c1 : s1.Canon) (c2 : s2.Canon) (h : aspecAnd s1 s2 = some r) : r.Canon := by
  cases s1 <;> cases s2 <;> simp [aspecAnd] at h
  · subst h; exact C06.nice_and _ _ c1 c2
  · obtain ⟨gr, _, rfl⟩ := h
    cases gr <;> simp [ASpec.ofGRes, ASpec.Canon, C06.nice_empty, C06.nice_any]

theorem ASpec.beq_holds (env : Env) (he : EnvTotal env) (n : String) (r s : ASpec) (k : SameKind n s)
    (h : r.beq s = true) : holds env n r = holds env n s := by
  cases r with
  | gen a =>
    cases s with
    | gen b => simp [ASpec.beq] at h; subst h; rfl
    | ver b => simp [ASpec.beq] at h
  | ver a =>
    cases s with
    | gen b => cases a <;> simp [ASpec.beq] at h
    | ver b =>
      simp only [ASpec.beq] at h
      simp only [holds_ver]
      have hv := he.ver n k
      cases hev : envVer env n with
      | some v => simp only []; rw [Bool.eq_iff_iff]; simp [Spec.beq_mem a b h v]
      | none => simp [hev] at hv


/-! ### `_merge_single_markers` -/

/-- C11 (second half): `from_specifier` turns a canonical version specifier without post-release
    bounds into a marker that means it -/
def FromSpecOk (env : Env) : Prop :=
  ∀ name s m, versionLikeNames.contains name = true → ASpec.Canon (.ver s) →
    fromSpecifier name (.ver s) = some m → GAll (Good env) m ∧ sem env m = holds env name (.ver s)

/-- the python_version / python_full_version merge -/
def PyMergeOk (env : Env) : Prop :=
  ∀ a b isAnd m, GoodAtom env a → GoodAtom env b → a.exactView = true → b.exactView = true →
    ((a.name == "python_version" && b.name == "python_full_version") ||
     (a.name == "python_full_version" && b.name == "python_version")) = true →
    mergePythonVersion a b isAnd = some m →
    GAll (Good env) m ∧ sem env m = bop isAnd (sem env (.expr a)) (sem env (.expr b))

theorem wf_ver_spec (a : Atom) (hw : a.WF) (hn : versionLikeNames.contains a.name = true) :
    ∃ s, a.spec = .ver s := by
  unfold Atom.WF getSpecifier at hw
  simp only [hn, Bool.not_true, Bool.false_eq_true, if_false] at hw
  split at hw <;> simp only [Option.map_eq_some_iff] at hw <;> (obtain ⟨s, _, hs⟩ := hw; exact ⟨s, hs.symm⟩)

theorem mkAtom_str (n : String) (hnv : versionLikeNames.contains n = false) (op : MOp) (value : String)
    (rev : Bool) (g : GOp) (hg : op.toGOp? rev = some g) :
    mkAtom n op value rev = some ⟨n, op, value, rev, .gen ⟨g, value⟩⟩ := by
  have hnv' : n ∉ versionLikeNames := by simpa using hnv
  simp [mkAtom, getSpecifier, hnv', hg]

/-- the marker operator a basic string-specifier operator came from -/
def gopToMOp : GOp → Option MOp
  | .eq => some .eq | .ne => some .ne | .in_ => some .in_ | .notIn => some .notIn
  | .gt => some .gt | .ge => some .ge | .lt => some .lt | .le => some .le
  | _ => none

theorem gen_fromSpecifier (env : Env) (n : String) (hn : StrName n) (g : GSpec) (op : MOp)
    (hop : gopToMOp g.op = some op) :
    fromSpecifier n (.gen g) = some (.expr ⟨n, op, g.value, false, .gen g⟩) ∧
    Good env (.expr ⟨n, op, g.value, false, .gen g⟩) ∧
    sem env (.expr ⟨n, op, g.value, false, .gen g⟩) = holds env n (.gen g) := by
  have hnv := hn.2.1
  rcases g with ⟨gop, value⟩
  have hto : op.toGOp? false = some gop := by
    cases gop <;> simp [gopToMOp] at hop <;> subst hop <;> rfl
  have hnv' : n ∉ versionLikeNames := by simpa using hnv
  have hns : n ∉ setNames := by simpa using hn.2.2.2
  have hwf : Atom.WF ⟨n, op, value, false, .gen ⟨gop, value⟩⟩ := by
    simp [Atom.WF, getSpecifier, hnv', hto]
  refine ⟨?_, ?_, ?_⟩
  · have := mkAtom_str n hnv op value false gop hto
    cases gop <;> simp [gopToMOp] at hop <;> subst hop <;>
      simp [fromSpecifier, ASpec.isAny, ASpec.isEmpty, this]
  · simp only [Good, GoodAtom]
    refine ⟨hwf, ?_⟩
    simp [hn.2.2.1, hns, hnv', hn]
  · exact str_coherent env _ hwf hn


theorem GSpec.and_spec_operand (a b g : GSpec) (h : a.and b = some (.spec g)) : g = a ∨ g = b := by
  rcases a with ⟨ao, av⟩
  rcases b with ⟨bo, bv⟩
  unfold GSpec.and GSpec.andWith at h
  split at h
  · simp at h; exact Or.inl h.symm
  · cases ao <;> cases bo <;> simp [GSpec.sort2, GOp.order] at h <;>
      (repeat' split at h) <;> (try simp at h) <;>
      first | exact Or.inl h.symm | exact Or.inr h.symm | exact Or.inl h.2.symm | exact Or.inr h.2.symm

theorem GSpec.or_spec_operand (a b g : GSpec) (h : a.or b = some (.spec g)) : g = a ∨ g = b := by
  rcases a with ⟨ao, av⟩
  rcases b with ⟨bo, bv⟩
  unfold GSpec.or GSpec.orWith at h
  split at h
  · simp at h; exact Or.inl h.symm
  · cases ao <;> cases bo <;> simp [GSpec.sort2, GOp.order] at h <;>
      (repeat' split at h) <;> (try simp at h) <;>
      first | exact Or.inl h.symm | exact Or.inr h.symm | exact Or.inl h.2.symm | exact Or.inr h.2.symm

/-- atoms on ordinary variables (string or version) are coherent, canonical, of the right kind -/
theorem exactView_of_strName (a : Atom) (h : StrName a.name) : a.exactView = true := by
  unfold Atom.exactView; rw [h.1, h.2.1]; simp

theorem good_ordinary (env : Env) (a : Atom) (ha : GoodAtom env a) (h1 : a.name ≠ "extra")
    (h2 : setNames.contains a.name = false) (hx : a.exactView = true) :
    a.Coherent env ∧ a.spec.Canon ∧ SameKind a.name a.spec := by
  obtain ⟨hw, hc⟩ := ha
  simp only [h1, if_false, h2, Bool.false_eq_true] at hc
  by_cases hv : versionLikeNames.contains a.name = true
  · simp only [hv, if_true] at hc
    replace hc := hc.resolve_left (by simp [hx])
    obtain ⟨s, hs⟩ := wf_ver_spec a hw hv
    exact ⟨hc.1, hc.2.1, by rw [hs]; exact hv⟩
  · simp only [hv, Bool.false_eq_true, if_false] at hc
    replace hc := hc.resolve_right (by simp [hx])
    obtain ⟨g, _, hs⟩ := wf_str_spec a hw hc
    exact ⟨str_coherent env a hw hc, by rw [hs]; trivial, by rw [hs]; exact ⟨h1, h2⟩⟩

theorem ofGRes_beq_gen (r : GRes) (g : GSpec) (h : (ASpec.ofGRes r).beq (.gen g) = false) : r ≠ .spec g := by
  rintro rfl
  simp [ASpec.ofGRes, ASpec.beq] at h

/-- the branch of `_merge_single_markers` where the specifier views could be combined -/
theorem merge_some_ok (env : Env) (he : EnvTotal env) (hF : FromSpecOk env) (a b : Atom) (isAnd : Bool)
    (ha : GoodAtom env a) (hb : GoodAtom env b) (hxa : a.exactView = true) (hxb : b.exactView = true)
    (hn : a.name = b.name) (h1 : a.name ≠ "extra")
    (h2 : setNames.contains a.name = false) (r : ASpec)
    (hr : (if isAnd then aspecAnd a.spec b.spec else aspecOr a.spec b.spec) = some r) (m : M)
    (hm : (if r.beq a.spec then some (.expr a) else if r.beq b.spec then some (.expr b)
           else fromSpecifier a.name r) = some m) :
    GAll (Good env) m ∧ sem env m = bop isAnd (sem env (.expr a)) (sem env (.expr b)) := by
  obtain ⟨ca, na, ka⟩ := good_ordinary env a ha h1 h2 hxa
  obtain ⟨cb, nb, kb⟩ := good_ordinary env b hb (hn ▸ h1) (hn ▸ h2) hxb
  rw [← hn] at kb
  have hsem : holds env a.name r = bop isAnd (sem env (.expr a)) (sem env (.expr b)) ∧ r.Canon := by
    unfold Atom.Coherent at ca cb
    rw [ca, cb, ← hn]
    cases isAnd with
    | true =>
      simp only [if_true] at hr
      exact ⟨by simpa [bop] using aspecAnd_holds env he a.name _ _ r ka kb hr, aspecAnd_canon _ _ r na nb hr⟩
    | false =>
      simp only [Bool.false_eq_true, if_false] at hr
      have := aspecOr_holds env he a.name _ _ r ka kb na nb hr
      exact ⟨by simpa [bop] using this.1, this.2⟩
  by_cases e1 : r.beq a.spec = true
  · simp only [e1, if_true, Option.some.injEq] at hm
    subst hm
    refine ⟨ha, ?_⟩
    rw [← hsem.1, ASpec.beq_holds env he a.name r a.spec ka e1]
    exact ca
  · simp only [e1, Bool.false_eq_true, if_false] at hm
    by_cases e2 : r.beq b.spec = true
    · simp only [e2, if_true, Option.some.injEq] at hm
      subst hm
      refine ⟨hb, ?_⟩
      rw [← hsem.1, ASpec.beq_holds env he a.name r b.spec kb e2, hn]
      exact cb
    · simp only [e2, Bool.false_eq_true, if_false] at hm
      rw [← hsem.1]
      cases r with
      | ver s =>
        cases hsa : a.spec with
        | ver sa =>
          have hvl : versionLikeNames.contains a.name = true := by rw [hsa] at ka; exact ka
          exact hF a.name s m hvl hsem.2 hm
        | gen ga =>
          -- a string merge that collapsed to the empty / universal specifier
          have hs : s = .empty ∨ s = .any := by
            rw [hsa] at hr
            cases hsb : b.spec with
            | ver _ => rw [hsb] at hr; cases isAnd <;> simp [aspecAnd, aspecOr] at hr
            | gen gb =>
              rw [hsb] at hr
              cases isAnd <;> simp [aspecAnd, aspecOr] at hr <;>
                (obtain ⟨gr, _, hg⟩ := hr; cases gr <;> simp [ASpec.ofGRes] at hg <;> simp [hg])
          rcases hs with rfl | rfl
          · simp [fromSpecifier, ASpec.isAny, ASpec.isEmpty, Spec.isAny, Spec.isEmpty] at hm
            subst hm; simp [GAll, sem, holds]
          · simp [fromSpecifier, ASpec.isAny, Spec.isAny] at hm
            subst hm; simp [GAll, sem, holds]
      | gen g =>
        -- a GenericSpecifier result is always one of the operands, so this branch is not reached
        exfalso
        cases hsa : a.spec with
        | ver _ => rw [hsa] at hr; cases isAnd <;> cases hsb : b.spec <;> simp [hsb, aspecAnd, aspecOr] at hr
        | gen ga =>
          cases hsb : b.spec with
          | ver _ => rw [hsa, hsb] at hr; cases isAnd <;> simp [aspecAnd, aspecOr] at hr
          | gen gb =>
            rw [hsa, hsb] at hr
            rw [hsa] at e1
            rw [hsb] at e2
            have key : g = ga ∨ g = gb := by
              cases isAnd with
              | true =>
                simp only [if_true, aspecAnd, Option.map_eq_some_iff] at hr
                obtain ⟨gr, hgr, hg⟩ := hr
                cases gr <;> simp [ASpec.ofGRes] at hg
                subst hg
                exact GSpec.and_spec_operand ga gb _ hgr
              | false =>
                simp only [Bool.false_eq_true, if_false, aspecOr, Option.map_eq_some_iff] at hr
                obtain ⟨gr, hgr, hg⟩ := hr
                cases gr <;> simp [ASpec.ofGRes] at hg
                subst hg
                exact GSpec.or_spec_operand ga gb _ hgr
            rcases key with rfl | rfl
            · simp [ASpec.beq] at e1
            · simp [ASpec.beq] at e2


theorem dedupS_pair (v1 v2 t : String) : (dedupS [v1, v2]).contains t = (t == v1 || t == v2) := by
  rw [Bool.eq_iff_iff]
  by_cases h : v2 = v1
  · subst h; simp [dedupS]
  · simp [dedupS, h, List.filter]

theorem dedupS_pair' (v1 v2 t : String) : decide (t ∈ dedupS [v1, v2]) = (t == v1 || t == v2) := by
  simpa using dedupS_pair v1 v2 t

/-- sem of a plain string atom, spelled out -/
theorem sem_str_atom (env : Env) (he : EnvTotal env) (a : Atom) (hw : a.WF) (hn : StrName a.name) :
    ∃ t g, env a.name = some (.str t) ∧ a.op.toGOp? a.reversed = some g ∧ a.spec = .gen ⟨g, a.value⟩ ∧
      sem env (.expr a) = (GSpec.mk g a.value).contains t := by
  obtain ⟨g, hg, hs⟩ := wf_str_spec a hw hn
  obtain ⟨t, ht, hh⟩ := holds_gen env he a.name hn.2.2.1 hn.2.2.2 ⟨g, a.value⟩
  have hc := str_coherent env a hw hn
  unfold Atom.Coherent at hc
  rw [hs, hh] at hc
  exact ⟨t, g, ht, hg, hs, hc⟩

/-- `extra == v` / `extra != v` in an environment: P or ¬P for P = "v is among the extras" -/
theorem sem_extra (env : Env) (o : MOp) (v : String) (r : Bool) (sp : ASpec) (ho : o = .eq ∨ o = .ne) (ev : EnvVal)
    (hev : env "extra" = some ev) :
    sem env (.expr ⟨"extra", o, v, r, sp⟩) =
      (if o = .eq then (ev.toList.map normalizeName).contains (normalizeName v)
       else !(ev.toList.map normalizeName).contains (normalizeName v)) := by
  rcases ho with rfl | rfl <;> simp [sem, Atom.eval, hev]

theorem extra_spec (o : MOp) (v : String) (r : Bool) (sp : ASpec) (ho : o = .eq ∨ o = .ne)
    (hw : Atom.WF ⟨"extra", o, v, r, sp⟩) : sp = .gen ⟨if o = .eq then .eq else .ne, v⟩ := by
  have e : "extra" ∉ versionLikeNames := by decide
  rcases ho with rfl | rfl <;> simp [Atom.WF, getSpecifier, e, MOp.toGOp?] at hw <;> simp [← hw]

theorem GSpec.and_contains (a b : GSpec) (ha : a.op = .contains ∨ a.op = .notContains) (r : GRes)
    (h : a.and b = some r) : a = b ∧ r = .spec a := by
  rcases a with ⟨ao, av⟩
  rcases b with ⟨bo, bv⟩
  unfold GSpec.and GSpec.andWith at h
  split at h
  · rename_i he; simp at h; exact ⟨he, h.symm⟩
  · simp only at ha
    rcases ha with rfl | rfl <;> cases bo <;> simp [GSpec.sort2, GOp.order] at h

theorem GSpec.or_contains (a b : GSpec) (ha : a.op = .contains ∨ a.op = .notContains) (r : GRes)
    (h : a.or b = some r) : a = b ∧ r = .spec a := by
  rcases a with ⟨ao, av⟩
  rcases b with ⟨bo, bv⟩
  unfold GSpec.or GSpec.orWith at h
  split at h
  · rename_i he; simp at h; exact ⟨he, h.symm⟩
  · simp only at ha
    rcases ha with rfl | rfl <;> cases bo <;> simp [GSpec.sort2, GOp.order] at h

/-- atoms on a set-valued variable: reversed membership, specifier `contains` / `not contains` -/
theorem set_atom_spec (env : Env) (a : Atom) (ha : GoodAtom env a) (h2 : setNames.contains a.name = true) :
    a.reversed = true ∧ (a.op = .in_ ∨ a.op = .notIn) ∧
    a.spec = .gen ⟨if a.op = .in_ then .contains else .notContains, a.value⟩ := by
  obtain ⟨hw, hc⟩ := ha
  have h1 : a.name ≠ "extra" := by
    intro e; rw [e] at h2; simp [setNames] at h2
  simp only [h1, if_false, h2, if_true] at hc
  have hnv : a.name ∉ versionLikeNames := by
    intro hv
    simp [setNames] at h2
    rcases h2 with e | e <;> rw [e] at hv <;> simp [versionLikeNames] at hv
  refine ⟨hc.1, hc.2, ?_⟩
  rcases a with ⟨n, o, v, r, sp⟩
  simp only at hc hnv ⊢
  obtain ⟨rfl, ho⟩ := hc
  rcases ho with rfl | rfl <;> simp [Atom.WF, getSpecifier, hnv, MOp.toGOp?] at hw <;> simp [← hw]

theorem mergeSingle_ok (env : Env) (he : EnvTotal env) (hF : FromSpecOk env) (hP : PyMergeOk env)
    (a b : Atom) (isAnd : Bool) (ha : GoodAtom env a) (hb : GoodAtom env b) (m : M)
    (h : mergeSingle a b isAnd = some m) :
    GAll (Good env) m ∧ sem env m = bop isAnd (sem env (.expr a)) (sem env (.expr b)) := by
  by_cases hsame : a.beq b = true
  · -- the same atom twice
    unfold mergeSingle at h
    rw [if_pos hsame] at h
    cases h
    refine ⟨ha, ?_⟩
    have : sem env (.expr b) = sem env (.expr a) := by
      simp only [sem, Atom.beq_eval env a b hsame]
    rw [this, bop_idem]
  have hguard : mergeSingleCore a b isAnd = some m ∧ a.exactView = true ∧ b.exactView = true := by
    unfold mergeSingle at h; rw [if_neg hsame] at h; split at h
    · rename_i hx; simp only [Bool.and_eq_true] at hx; exact ⟨h, hx.1, hx.2⟩
    · simp at h
  clear h
  obtain ⟨h, hxa, hxb⟩ := hguard
  unfold mergeSingleCore at h
  split at h
  · rename_i hpair
    exact hP a b isAnd m ha hb hxa hxb hpair h
  · split at h
    · simp at h
    · rename_i hne
      have hn : a.name = b.name := by simpa using hne
      split at h
      · simp at h
      · rename_i hex
        by_cases h1 : a.name = "extra"
        · -- `extra`: only atoms on the same value are merged
          have hval : a.value = b.value := by simpa [h1] using hex
          have h1b : b.name = "extra" := hn ▸ h1
          have hoa : a.op = .eq ∨ a.op = .ne := by have := ha.2; simpa [h1] using this
          have hob : b.op = .eq ∨ b.op = .ne := by have := hb.2; simpa [h1b] using this
          obtain ⟨ev, hev⟩ := Option.isSome_iff_exists.1 he.extra
          rcases a with ⟨an, ao, av, ar, asp⟩
          rcases b with ⟨bn, bo, bv, br, bsp⟩
          simp only at h1 h1b hval hoa hob
          subst h1 h1b hval
          have spa := extra_spec ao av ar asp hoa ha.1
          have spb := extra_spec bo av br bsp hob hb.1
          subst spa spb
          have hsa := sem_extra env ao av ar (.gen ⟨if ao = .eq then .eq else .ne, av⟩) hoa ev hev
          have hsb := sem_extra env bo av br (.gen ⟨if bo = .eq then .eq else .ne, av⟩) hob ev hev
          generalize (ev.toList.map normalizeName).contains (normalizeName av) = P at hsa hsb
          have hGa : Good env (.expr ⟨"extra", ao, av, ar, .gen ⟨if ao = .eq then .eq else .ne, av⟩⟩) := ha
          have hGb : Good env (.expr ⟨"extra", bo, av, br, .gen ⟨if bo = .eq then .eq else .ne, av⟩⟩) := hb
          have sem_any : sem env .any = true := rfl
          have sem_empty : sem env .empty = false := rfl
          rcases hoa with rfl | rfl <;> rcases hob with rfl | rfl <;> cases isAnd <;>
            simp only [reduceCtorEq, if_true, if_false] at hsa hsb hGa hGb h <;>
            simp [aspecAnd, aspecOr, GSpec.and, GSpec.or, GSpec.andWith, GSpec.orWith, GSpec.sort2, GOp.order,
              ASpec.ofGRes, ASpec.beq, fromSpecifier, ASpec.isAny, ASpec.isEmpty, Spec.isAny, Spec.isEmpty] at h <;>
            subst h <;> simp only [GAll, hsa, hsb, sem_any, sem_empty, bop] <;> cases P <;> simp_all
        · by_cases h2 : setNames.contains a.name = true
          · -- set-valued variables: only identical atoms are merged
            have h2b : setNames.contains b.name = true := hn ▸ h2
            obtain ⟨ra, oa, sa⟩ := set_atom_spec env a ha h2
            obtain ⟨rb, ob, sb⟩ := set_atom_spec env b hb h2b
            have hopa : (if a.op = MOp.in_ then GOp.contains else GOp.notContains) = .contains ∨
                (if a.op = MOp.in_ then GOp.contains else GOp.notContains) = .notContains := by
              rcases oa with e | e <;> simp [e]
            have key : ∀ r, (if isAnd then aspecAnd a.spec b.spec else aspecOr a.spec b.spec) = some r →
                a.spec = b.spec ∧ r = a.spec := by
              intro r hr
              rw [sa, sb] at hr ⊢
              cases isAnd with
              | true =>
                simp only [if_true, aspecAnd, Option.map_eq_some_iff] at hr
                obtain ⟨gr, hgr, rfl⟩ := hr
                obtain ⟨e1, e2⟩ := GSpec.and_contains _ _ hopa gr hgr
                exact ⟨by rw [e1], by rw [e2]; rfl⟩
              | false =>
                simp only [Bool.false_eq_true, if_false, aspecOr, Option.map_eq_some_iff] at hr
                obtain ⟨gr, hgr, rfl⟩ := hr
                obtain ⟨e1, e2⟩ := GSpec.or_contains _ _ hopa gr hgr
                exact ⟨by rw [e1], by rw [e2]; rfl⟩
            cases hr : (if isAnd then aspecAnd a.spec b.spec else aspecOr a.spec b.spec) with
            | none =>
              rw [hr] at h
              have e1 : (a.op == MOp.eq) = false := by rcases oa with e | e <;> simp [e]
              have e2 : (a.op == MOp.ne) = false := by rcases oa with e | e <;> simp [e]
              simp [e1, e2] at h
            | some r =>
              rw [hr] at h
              obtain ⟨hab, hra⟩ := key r hr
              have hbeq : r.beq a.spec = true := by rw [hra, sa]; simp [ASpec.beq]
              simp only [hbeq, if_true, Option.some.injEq] at h
              subst h
              refine ⟨ha, ?_⟩
              have hsame : b.beq a = true := by
                rw [sa, sb] at hab
                simp only [ASpec.gen.injEq, GSpec.mk.injEq] at hab
                have hop : a.op = b.op := by
                  rcases oa with e | e <;> rcases ob with f | f <;> simp [e, f] at hab ⊢
                simp [Atom.beq, hn, hop, hab.2, ra, rb]
              have : sem env (.expr b) = sem env (.expr a) := by
                simp only [sem, Atom.beq_eval env b a hsame]
              rw [this, bop_idem]
          · have h2' : setNames.contains a.name = false := by simpa using h2
            cases hr : (if isAnd then aspecAnd a.spec b.spec else aspecOr a.spec b.spec) with
            | some r =>
              rw [hr] at h
              exact merge_some_ok env he hF a b isAnd ha hb hxa hxb hn h1 h2' r hr m h
            | none =>
              rw [hr] at h
              simp only at h
              -- NotImplementedError: two `==` under `|`, two `!=` under `&` (string variables only)
              obtain ⟨_, na, ka⟩ := good_ordinary env a ha h1 h2' hxa
              obtain ⟨_, nb, kb⟩ := good_ordinary env b hb (hn ▸ h1) (hn ▸ h2') hxb
              have hnv : versionLikeNames.contains a.name = false := by
                cases hv : versionLikeNames.contains a.name with
                | false => rfl
                | true =>
                  exfalso
                  obtain ⟨sa', hsa⟩ := wf_ver_spec a ha.1 hv
                  obtain ⟨sb', hsb⟩ := wf_ver_spec b hb.1 (hn ▸ hv)
                  rw [hsa, hsb] at hr
                  cases isAnd with
                  | true => simp [aspecAnd] at hr
                  | false =>
                    rw [hsa] at na; rw [hsb] at nb
                    obtain ⟨r', hr', _⟩ := Spec.or_spec sa' sb' na.canon nb.canon
                    simp [aspecOr, hr'] at hr
              have hsn : StrName a.name := by
                have := ha.2
                have h2m : a.name ∉ setNames := by simpa using h2'
                have hnvm : a.name ∉ versionLikeNames := by simpa using hnv
                have h3 : StrName a.name ∨ a.exactView = false := by simpa [h1, h2m, hnvm] using this
                exact h3.resolve_right (by simp [hxa])
              have hsnb : StrName b.name := hn ▸ hsn
              obtain ⟨t, ga, hta, hga, _, hsa⟩ := sem_str_atom env he a ha.1 hsn
              obtain ⟨t', gb, htb, hgb, _, hsb⟩ := sem_str_atom env he b hb.1 hsnb
              rw [← hn, hta] at htb; cases htb
              split at h
              · rename_i hc
                simp only [Bool.and_eq_true, beq_iff_eq, Bool.not_eq_true'] at hc
                obtain ⟨⟨oa, ob⟩, rfl⟩ := hc
                simp only [Option.some.injEq] at h; subst h
                refine ⟨hsn, ?_⟩
                rw [oa] at hga; rw [ob] at hgb
                simp [MOp.toGOp?] at hga hgb; subst hga hgb
                rw [hsa, hsb]
                simp [sem, hta, dedupS_pair', bop, GSpec.contains, GSpec.containsWith]
              · split at h
                · rename_i hc
                  simp only [Bool.and_eq_true, beq_iff_eq] at hc
                  obtain ⟨⟨oa, ob⟩, rfl⟩ := hc
                  simp only [Option.some.injEq] at h; subst h
                  refine ⟨hsn, ?_⟩
                  rw [oa] at hga; rw [ob] at hgb
                  simp [MOp.toGOp?] at hga hgb; subst hga hgb
                  rw [hsa, hsb]
                  simp [sem, hta, dedupS_pair', bop, GSpec.contains, GSpec.containsWith, bne]
                · simp at h


/-! ### grouped atoms -/

theorem strName_env (env : Env) (he : EnvTotal env) (n : String) (hn : StrName n) : ∃ t, env n = some (.str t) :=
  he.str n hn.2.2.1 hn.2.2.2

theorem eqReplace_ok (env : Env) (n : String) (hn : StrName n) (t : String) (ht : env n = some (.str t)) (l : List String) :
    GAll (Good env) (eqReplace n l) ∧ sem env (eqReplace n l) = l.contains t := by
  have hnv : n ∉ versionLikeNames := by simpa using hn.2.1
  have hns : n ∉ setNames := by simpa using hn.2.2.2
  match l with
  | [] => simp [eqReplace, GAll, sem]
  | [v] =>
    have hwf : Atom.WF ⟨n, .eq, v, false, .gen ⟨.eq, v⟩⟩ := by simp [Atom.WF, getSpecifier, hnv, MOp.toGOp?]
    refine ⟨?_, ?_⟩
    · simp only [eqReplace, GAll, Good, GoodAtom]
      exact ⟨hwf, by simp [hn.2.2.1, hns, hnv, hn]⟩
    · have := str_coherent env _ hwf hn
      simp only [Atom.Coherent, holds, ht] at this
      simp only [eqReplace, this, GSpec.contains, GSpec.containsWith]
      rw [Bool.eq_iff_iff]; simp
  | a :: b :: rest => simp [eqReplace, GAll, Good, hn, sem, ht]

theorem neReplace_ok (env : Env) (n : String) (hn : StrName n) (t : String) (ht : env n = some (.str t)) (l : List String) :
    GAll (Good env) (neReplace n l) ∧ sem env (neReplace n l) = !l.contains t := by
  have hnv : n ∉ versionLikeNames := by simpa using hn.2.1
  have hns : n ∉ setNames := by simpa using hn.2.2.2
  match l with
  | [] => simp [neReplace, GAll, sem]
  | [v] =>
    have hwf : Atom.WF ⟨n, .ne, v, false, .gen ⟨.ne, v⟩⟩ := by simp [Atom.WF, getSpecifier, hnv, MOp.toGOp?]
    refine ⟨?_, ?_⟩
    · simp only [neReplace, GAll, Good, GoodAtom]
      exact ⟨hwf, by simp [hn.2.2.1, hns, hnv, hn]⟩
    · have := str_coherent env _ hwf hn
      simp only [Atom.Coherent, holds, ht] at this
      simp only [neReplace, this, GSpec.contains, GSpec.containsWith]
      rw [Bool.eq_iff_iff]; simp [bne]
  | a :: b :: rest => simp [neReplace, GAll, Good, hn, sem, ht]

/-- an atom on the same plain string variable as a group: its meaning is membership in its specifier -/
theorem group_atom (env : Env) (he : EnvTotal env) (b : Atom) (hb : GoodAtom env b) (n : String) (hn : StrName n)
    (hname : n = b.name) (t : String) (ht : env n = some (.str t)) :
    sem env (.expr b) = b.spec.containsStr t ∧
    (b.op = .eq → sem env (.expr b) = (t == b.value)) ∧ (b.op = .ne → sem env (.expr b) = (t != b.value)) := by
  subst hname
  obtain ⟨t', g, ht', hg, hs, hsem⟩ := sem_str_atom env he b hb.1 hn
  rw [ht] at ht'; cases ht'
  refine ⟨by rw [hsem, hs]; rfl, ?_, ?_⟩
  · intro ho; rw [ho] at hg; simp [MOp.toGOp?] at hg; subst hg
    rw [hsem]; simp [GSpec.contains, GSpec.containsWith]
  · intro ho; rw [ho] at hg; simp [MOp.toGOp?] at hg; subst hg
    rw [hsem]; simp [GSpec.contains, GSpec.containsWith]


theorem sem_eqU (env : Env) (n t : String) (ht : env n = some (.str t)) (vs : List String) :
    sem env (.eqU n vs) = vs.contains t := by simp [sem, ht]
theorem sem_neM (env : Env) (n t : String) (ht : env n = some (.str t)) (vs : List String) :
    sem env (.neM n vs) = !vs.contains t := by simp [sem, ht]

theorem contains_filter (l : List String) (p : String → Bool) (t : String) :
    (l.filter p).contains t = (l.contains t && p t) := by
  rw [Bool.eq_iff_iff]
  simp [List.mem_filter]

theorem contains_append (l1 l2 : List String) (t : String) : (l1 ++ l2).contains t = (l1.contains t || l2.contains t) := by
  rw [Bool.eq_iff_iff]; simp

theorem l_eq_in (vs : List String) (t v : String) (h2 : vs.contains v = true) :
    ((t == v) && !vs.contains t) = false := by
  by_cases e : t = v
  · subst e; have : t ∈ vs := by simpa using h2
    simp [this]
  · simp [e]

theorem l_eq_notin (vs : List String) (t v : String) (h2 : ¬ vs.contains v = true) :
    ((t == v) && !vs.contains t) = (t == v) := by
  by_cases e : t = v
  · subst e; simp at h2; simp [h2]
  · simp [e]

theorem l_ne_in (vs : List String) (t v : String) (h2 : vs.contains v = true) :
    ((t != v) && !vs.contains t) = !vs.contains t := by
  by_cases e : t = v
  · subst e; have : t ∈ vs := by simpa using h2
    simp [this]
  · simp [e, bne]

theorem l_ne_append (vs : List String) (t v : String) :
    ((t != v) && !vs.contains t) = !(vs ++ [v]).contains t := by
  rw [contains_append]
  by_cases e : t = v
  · subst e; simp
  · simp [e, bne]

theorem l_none_sat (vs : List String) (p : String → Bool) (t : String) (h4 : ¬ (vs.any p) = true) :
    (p t && !vs.contains t) = p t := by
  by_cases e : p t = true
  · have : vs.contains t = false := by
      cases hc : vs.contains t with
      | false => rfl
      | true =>
        exfalso; apply h4
        rw [List.any_eq_true]
        exact ⟨t, by simpa using hc, e⟩
    have h' : t ∉ vs := by simpa using this
    simp [h', e]
  · simp [e]

theorem sem_empty' (env : Env) : sem env .empty = false := rfl
theorem sem_any' (env : Env) : sem env .any = true := rfl

theorem singleAnd_ok (env : Env) (he : EnvTotal env) (hF : FromSpecOk env) (hP : PyMergeOk env) (x y : M)
    (sx : x.isSingle = true) (sy : y.isSingle = true) (gx : Good env x) (gy : Good env y) :
    match singleAnd x y with
    | .done m => GAll (Good env) m ∧ sem env m = (sem env x && sem env y)
    | .pair p q => (p = x ∧ q = y) ∨ (p = y ∧ q = x) := by
  cases x with
  | expr a =>
    cases y with
    | expr b =>
      simp only [singleAnd]
      cases hm : mergeSingle a b true with
      | none => simp
      | some m => simpa [bop] using mergeSingle_ok env he hF hP a b true gx gy m hm
    | eqU n vs =>
      simp only [singleAnd]
      by_cases hn : n = a.name
      · simp only [hn, bne_self_eq_false, Bool.false_eq_true, if_false]
        subst hn
        obtain ⟨t, ht⟩ := strName_env env he _ gy
        obtain ⟨r1, r2⟩ := eqReplace_ok env _ gy t ht (vs.filter fun v => a.spec.containsStr v)
        refine ⟨r1, ?_⟩
        rw [r2, contains_filter, (group_atom env he a gx _ gy rfl t ht).1, sem_eqU env _ t ht, Bool.and_comm]
      · have : (n != a.name) = true := by simpa using hn
        simp [this]
    | neM n vs =>
      simp only [singleAnd]
      by_cases hn : n = a.name
      · simp only [hn, bne_self_eq_false, Bool.false_eq_true, if_false]
        subst hn
        obtain ⟨t, ht⟩ := strName_env env he _ gy
        obtain ⟨ga1, ga2, ga3⟩ := group_atom env he a gx _ gy rfl t ht
        rw [sem_neM env _ t ht]
        by_cases h1 : a.op = .eq
        · simp only [h1, beq_self_eq_true, if_true]
          by_cases h2 : vs.contains a.value = true
          · simp only [h2, if_true, GAll, true_and]
            rw [sem_empty', ga2 h1, l_eq_in vs t _ h2]
          · simp only [h2, Bool.false_eq_true, if_false]
            refine ⟨gx, ?_⟩
            rw [ga2 h1, l_eq_notin vs t _ h2]
        · have h1' : (a.op == MOp.eq) = false := by simpa using h1
          simp only [h1', Bool.false_eq_true, if_false]
          by_cases h3 : a.op = .ne
          · simp only [h3, beq_self_eq_true, if_true]
            by_cases h2 : vs.contains a.value = true
            · simp only [h2, if_true]
              refine ⟨gy, ?_⟩
              rw [sem_neM env _ t ht, ga3 h3, l_ne_in vs t _ h2]
            · simp only [h2, Bool.false_eq_true, if_false]
              refine ⟨gy, ?_⟩
              rw [sem_neM env _ t ht, ga3 h3, l_ne_append]
          · have h3' : (a.op == MOp.ne) = false := by simpa using h3
            simp only [h3', Bool.false_eq_true, if_false]
            by_cases h4 : (vs.any fun v => a.spec.containsStr v) = true
            · simp [h4]
            · simp only [h4, Bool.not_false, if_true]
              refine ⟨gx, ?_⟩
              rw [ga1, l_none_sat vs (fun v => a.spec.containsStr v) t h4]
      · have : (n != a.name) = true := by simpa using hn
        simp [this]
    | any | empty | multi _ | union _ => simp [isSingle] at sy
  | eqU n vs =>
    obtain ⟨t, ht⟩ := strName_env env he _ gx
    cases y with
    | expr b =>
      simp only [singleAnd]
      by_cases hn : n = b.name
      · simp only [hn, bne_self_eq_false, Bool.false_eq_true, if_false]
        subst hn
        obtain ⟨r1, r2⟩ := eqReplace_ok env _ gx t ht (vs.filter fun v => b.spec.containsStr v)
        refine ⟨r1, ?_⟩
        rw [r2, contains_filter, (group_atom env he b gy _ gx rfl t ht).1, sem_eqU env _ t ht]
      · have : (n != b.name) = true := by simpa using hn
        simp [this]
    | eqU m ws =>
      simp only [singleAnd]
      by_cases hn : n = m
      · subst hn
        simp only [bne_self_eq_false, Bool.false_eq_true, if_false]
        obtain ⟨r1, r2⟩ := eqReplace_ok env _ gx t ht (ws.filter fun v => vs.contains v)
        exact ⟨r1, by rw [r2, contains_filter, sem_eqU env _ t ht, sem_eqU env _ t ht, Bool.and_comm]⟩
      · have : (n != m) = true := by simpa using hn
        simp [this]
    | neM m ws =>
      simp only [singleAnd]
      by_cases hn : n = m
      · subst hn
        simp only [bne_self_eq_false, Bool.false_eq_true, if_false]
        obtain ⟨r1, r2⟩ := eqReplace_ok env _ gx t ht (vs.filter fun v => !ws.contains v)
        exact ⟨r1, by rw [r2, contains_filter, sem_eqU env _ t ht, sem_neM env _ t ht]⟩
      · have : (n != m) = true := by simpa using hn
        simp [this]
    | any | empty | multi _ | union _ => simp [isSingle] at sy
  | neM n vs =>
    obtain ⟨t, ht⟩ := strName_env env he _ gx
    cases y with
    | expr b =>
      simp only [singleAnd]
      by_cases hn : n = b.name
      · simp only [hn, bne_self_eq_false, Bool.false_eq_true, if_false]
        subst hn
        obtain ⟨ga1, ga2, ga3⟩ := group_atom env he b gy _ gx rfl t ht
        rw [sem_neM env _ t ht]
        by_cases h1 : b.op = .eq
        · simp only [h1, beq_self_eq_true, if_true]
          by_cases h2 : vs.contains b.value = true
          · simp only [h2, if_true, GAll, true_and]
            rw [sem_empty', ga2 h1, Bool.and_comm, l_eq_in vs t _ h2]
          · simp only [h2, Bool.false_eq_true, if_false]
            refine ⟨gy, ?_⟩
            rw [ga2 h1, Bool.and_comm, l_eq_notin vs t _ h2]
        · have h1' : (b.op == MOp.eq) = false := by simpa using h1
          simp only [h1', Bool.false_eq_true, if_false]
          by_cases h3 : b.op = .ne
          · simp only [h3, beq_self_eq_true, if_true]
            by_cases h2 : vs.contains b.value = true
            · simp only [h2, if_true]
              refine ⟨gx, ?_⟩
              rw [sem_neM env _ t ht, ga3 h3, Bool.and_comm, l_ne_in vs t _ h2]
            · simp only [h2, Bool.false_eq_true, if_false]
              refine ⟨gx, ?_⟩
              rw [sem_neM env _ t ht, ga3 h3, Bool.and_comm, l_ne_append]
          · have h3' : (b.op == MOp.ne) = false := by simpa using h3
            simp only [h3', Bool.false_eq_true, if_false]
            by_cases h4 : (vs.any fun v => b.spec.containsStr v) = true
            · simp [h4]
            · simp only [h4, Bool.not_false, if_true]
              refine ⟨gy, ?_⟩
              rw [ga1, Bool.and_comm, l_none_sat vs (fun v => b.spec.containsStr v) t h4]
      · have : (n != b.name) = true := by simpa using hn
        simp [this]
    | eqU m ws =>
      simp only [singleAnd]
      by_cases hn : n = m
      · subst hn
        simp only [bne_self_eq_false, Bool.false_eq_true, if_false]
        obtain ⟨r1, r2⟩ := eqReplace_ok env _ gx t ht (ws.filter fun v => !vs.contains v)
        exact ⟨r1, by rw [r2, contains_filter, sem_eqU env _ t ht, sem_neM env _ t ht, Bool.and_comm]⟩
      · have : (n != m) = true := by simpa using hn
        simp [this]
    | neM m ws =>
      simp only [singleAnd]
      by_cases hn : n = m
      · subst hn
        simp only [bne_self_eq_false, Bool.false_eq_true, if_false]
        refine ⟨gx, ?_⟩
        rw [sem_neM env _ t ht, sem_neM env _ t ht, sem_neM env _ t ht, contains_append, contains_filter]
        cases vs.contains t <;> cases ws.contains t <;> rfl
      · have : (n != m) = true := by simpa using hn
        simp [this]
    | any | empty | multi _ | union _ => simp [isSingle] at sy
  | any | empty | multi _ | union _ => simp [isSingle] at sx


theorem o_eq_in (vs : List String) (t v : String) (h2 : vs.contains v = true) :
    (vs.contains t || (t == v)) = vs.contains t := by
  by_cases e : t = v
  · subst e; have : t ∈ vs := by simpa using h2
    simp [this]
  · simp [e]

theorem o_eq_append (vs : List String) (t v : String) : (vs.contains t || (t == v)) = (vs ++ [v]).contains t := by
  rw [contains_append]
  by_cases e : t = v
  · subst e; simp
  · simp [e]

theorem o_ne_in (vs : List String) (t v : String) (h2 : vs.contains v = true) : (vs.contains t || (t != v)) = true := by
  by_cases e : t = v
  · subst e; have : t ∈ vs := by simpa using h2
    simp [this]
  · simp [e, bne]

theorem o_ne_notin (vs : List String) (t v : String) (h2 : ¬ vs.contains v = true) :
    (vs.contains t || (t != v)) = (t != v) := by
  by_cases e : t = v
  · subst e; have : t ∉ vs := by simpa using h2
    simp [this]
  · simp [e, bne]

theorem o_all_sat (vs : List String) (p : String → Bool) (t : String) (h4 : vs.all p = true) :
    (vs.contains t || p t) = p t := by
  by_cases e : vs.contains t = true
  · have : p t = true := (List.all_eq_true.1 h4) t (by simpa using e)
    simp [this]
  · have : vs.contains t = false := by simpa using e
    rw [this]; simp

theorem neg_and (a b : Bool) : (!(a && !b)) = (!a || b) := by cases a <;> cases b <;> rfl

theorem singleOr_ok (env : Env) (he : EnvTotal env) (hF : FromSpecOk env) (hP : PyMergeOk env) (x y : M)
    (sx : x.isSingle = true) (sy : y.isSingle = true) (gx : Good env x) (gy : Good env y) :
    match singleOr x y with
    | .done m => GAll (Good env) m ∧ sem env m = (sem env x || sem env y)
    | .pair p q => (p = x ∧ q = y) ∨ (p = y ∧ q = x) := by
  cases x with
  | expr a =>
    cases y with
    | expr b =>
      simp only [singleOr]
      cases hm : mergeSingle a b false with
      | none => simp
      | some m => simpa [bop] using mergeSingle_ok env he hF hP a b false gx gy m hm
    | eqU n vs =>
      simp only [singleOr]
      by_cases hn : n = a.name
      · simp only [hn, bne_self_eq_false, Bool.false_eq_true, if_false]
        subst hn
        obtain ⟨t, ht⟩ := strName_env env he _ gy
        obtain ⟨ga1, ga2, ga3⟩ := group_atom env he a gx _ gy rfl t ht
        rw [sem_eqU env _ t ht]
        by_cases h1 : a.op = .eq
        · simp only [h1, beq_self_eq_true, if_true]
          by_cases h2 : vs.contains a.value = true
          · simp only [h2, if_true]
            refine ⟨gy, ?_⟩
            rw [sem_eqU env _ t ht, ga2 h1, Bool.or_comm, o_eq_in vs t _ h2]
          · simp only [h2, Bool.false_eq_true, if_false]
            refine ⟨gy, ?_⟩
            rw [sem_eqU env _ t ht, ga2 h1, Bool.or_comm, o_eq_append]
        · have h1' : (a.op == MOp.eq) = false := by simpa using h1
          simp only [h1', Bool.false_eq_true, if_false]
          by_cases h3 : a.op = .ne
          · simp only [h3, beq_self_eq_true, if_true]
            by_cases h2 : vs.contains a.value = true
            · simp only [h2, if_true, GAll, true_and]
              rw [sem_any', ga3 h3, Bool.or_comm, o_ne_in vs t _ h2]
            · simp only [h2, Bool.false_eq_true, if_false]
              refine ⟨gx, ?_⟩
              rw [ga3 h3, Bool.or_comm, o_ne_notin vs t _ h2]
          · have h3' : (a.op == MOp.ne) = false := by simpa using h3
            simp only [h3', Bool.false_eq_true, if_false]
            by_cases h4 : (vs.all fun v => a.spec.containsStr v) = true
            · simp only [h4, if_true]
              refine ⟨gx, ?_⟩
              rw [ga1, Bool.or_comm, o_all_sat vs (fun v => a.spec.containsStr v) t h4]
            · simp [h4]
      · have : (n != a.name) = true := by simpa using hn
        simp [this]
    | neM n vs =>
      simp only [singleOr]
      by_cases hn : n = a.name
      · simp only [hn, bne_self_eq_false, Bool.false_eq_true, if_false]
        subst hn
        obtain ⟨t, ht⟩ := strName_env env he _ gy
        obtain ⟨r1, r2⟩ := neReplace_ok env _ gy t ht (vs.filter fun v => !a.spec.containsStr v)
        refine ⟨r1, ?_⟩
        rw [r2, contains_filter, (group_atom env he a gx _ gy rfl t ht).1, sem_neM env _ t ht, neg_and, Bool.or_comm]
      · have : (n != a.name) = true := by simpa using hn
        simp [this]
    | any | empty | multi _ | union _ => simp [isSingle] at sy
  | eqU n vs =>
    obtain ⟨t, ht⟩ := strName_env env he _ gx
    cases y with
    | expr b =>
      simp only [singleOr]
      by_cases hn : n = b.name
      · simp only [hn, bne_self_eq_false, Bool.false_eq_true, if_false]
        subst hn
        obtain ⟨ga1, ga2, ga3⟩ := group_atom env he b gy _ gx rfl t ht
        rw [sem_eqU env _ t ht]
        by_cases h1 : b.op = .eq
        · simp only [h1, beq_self_eq_true, if_true]
          by_cases h2 : vs.contains b.value = true
          · simp only [h2, if_true]
            refine ⟨gx, ?_⟩
            rw [sem_eqU env _ t ht, ga2 h1, o_eq_in vs t _ h2]
          · simp only [h2, Bool.false_eq_true, if_false]
            refine ⟨gx, ?_⟩
            rw [sem_eqU env _ t ht, ga2 h1, o_eq_append]
        · have h1' : (b.op == MOp.eq) = false := by simpa using h1
          simp only [h1', Bool.false_eq_true, if_false]
          by_cases h3 : b.op = .ne
          · simp only [h3, beq_self_eq_true, if_true]
            by_cases h2 : vs.contains b.value = true
            · simp only [h2, if_true, GAll, true_and]
              rw [sem_any', ga3 h3, o_ne_in vs t _ h2]
            · simp only [h2, Bool.false_eq_true, if_false]
              refine ⟨gy, ?_⟩
              rw [ga3 h3, o_ne_notin vs t _ h2]
          · have h3' : (b.op == MOp.ne) = false := by simpa using h3
            simp only [h3', Bool.false_eq_true, if_false]
            by_cases h4 : (vs.all fun v => b.spec.containsStr v) = true
            · simp only [h4, if_true]
              refine ⟨gy, ?_⟩
              rw [ga1, o_all_sat vs (fun v => b.spec.containsStr v) t h4]
            · simp [h4]
      · have : (n != b.name) = true := by simpa using hn
        simp [this]
    | eqU m ws =>
      simp only [singleOr]
      by_cases hn : n = m
      · subst hn
        simp only [bne_self_eq_false, Bool.false_eq_true, if_false]
        refine ⟨gx, ?_⟩
        rw [sem_eqU env _ t ht, sem_eqU env _ t ht, sem_eqU env _ t ht, contains_append, contains_filter]
        cases vs.contains t <;> cases ws.contains t <;> rfl
      · have : (n != m) = true := by simpa using hn
        simp [this]
    | neM m ws =>
      simp only [singleOr]
      by_cases hn : n = m
      · subst hn
        simp only [bne_self_eq_false, Bool.false_eq_true, if_false]
        obtain ⟨r1, r2⟩ := neReplace_ok env _ gx t ht (ws.filter fun v => !vs.contains v)
        refine ⟨r1, ?_⟩
        rw [r2, contains_filter, sem_eqU env _ t ht, sem_neM env _ t ht]
        cases vs.contains t <;> cases ws.contains t <;> rfl
      · have : (n != m) = true := by simpa using hn
        simp [this]
    | any | empty | multi _ | union _ => simp [isSingle] at sy
  | neM n vs =>
    obtain ⟨t, ht⟩ := strName_env env he _ gx
    cases y with
    | expr b =>
      simp only [singleOr]
      by_cases hn : n = b.name
      · simp only [hn, bne_self_eq_false, Bool.false_eq_true, if_false]
        subst hn
        obtain ⟨r1, r2⟩ := neReplace_ok env _ gx t ht (vs.filter fun v => !b.spec.containsStr v)
        refine ⟨r1, ?_⟩
        rw [r2, contains_filter, (group_atom env he b gy _ gx rfl t ht).1, sem_neM env _ t ht, neg_and]
      · have : (n != b.name) = true := by simpa using hn
        simp [this]
    | eqU m ws =>
      simp only [singleOr]
      by_cases hn : n = m
      · subst hn
        simp only [bne_self_eq_false, Bool.false_eq_true, if_false]
        obtain ⟨r1, r2⟩ := neReplace_ok env _ gx t ht (vs.filter fun v => !ws.contains v)
        refine ⟨r1, ?_⟩
        rw [r2, contains_filter, sem_eqU env _ t ht, sem_neM env _ t ht]
        cases vs.contains t <;> cases ws.contains t <;> rfl
      · have : (n != m) = true := by simpa using hn
        simp [this]
    | neM m ws =>
      simp only [singleOr]
      by_cases hn : n = m
      · subst hn
        simp only [bne_self_eq_false, Bool.false_eq_true, if_false]
        obtain ⟨r1, r2⟩ := neReplace_ok env _ gx t ht (ws.filter fun v => vs.contains v)
        refine ⟨r1, ?_⟩
        rw [r2, contains_filter, sem_neM env _ t ht, sem_neM env _ t ht]
        cases vs.contains t <;> cases ws.contains t <;> rfl
      · have : (n != m) = true := by simpa using hn
        simp [this]
    | any | empty | multi _ | union _ => simp [isSingle] at sy
  | any | empty | multi _ | union _ => simp [isSingle] at sx

/-- the single-marker layer is sound, given the two facts about the version bridge -/
theorem singleSound (env : Env) (he : EnvTotal env) (hF : FromSpecOk env) (hP : PyMergeOk env) :
    SingleSound env (Good env) where
  and_ok := singleAnd_ok env he hF hP
  or_ok := singleOr_ok env he hF hP

end M
end DepLogic
