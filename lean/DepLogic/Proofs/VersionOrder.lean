import DepLogic.Model.Pep440
/-
  The PEP 440 order on final releases, read as sequences: release lists compare as
  zero-padded infinite sequences.  From that: `==V.*` (prefix match) is the interval
  `[V.0, V+1.0)` on final releases – the wildcard lemma shared by C04, C08, C11.
-/
namespace DepLogic
namespace VOrd
open LinPre

/-- i-th release segment, `0` beyond the end -/
def nth0 (l : List Nat) (i : Nat) : Nat := l.getD i 0

@[simp] theorem nth0_nil (i : Nat) : nth0 [] i = 0 := by simp [nth0]
@[simp] theorem nth0_cons_zero (a : Nat) (l : List Nat) : nth0 (a :: l) 0 = a := by simp [nth0]
@[simp] theorem nth0_cons_succ (a : Nat) (l : List Nat) (i : Nat) : nth0 (a :: l) (i + 1) = nth0 l i := by simp [nth0]

/-- strictly smaller as zero-padded sequences -/
def seqLt (x y : List Nat) : Prop := ∃ k, (∀ i, i < k → nth0 x i = nth0 y i) ∧ nth0 x k < nth0 y k

theorem seqLt_cons (a b : Nat) (as bs : List Nat) :
    seqLt (a :: as) (b :: bs) ↔ a < b ∨ (a = b ∧ seqLt as bs) := by
  constructor
  · rintro ⟨k, h1, h2⟩
    cases k with
    | zero => left; simpa using h2
    | succ k =>
      right
      refine ⟨by simpa using h1 0 (by omega), k, ?_, by simpa using h2⟩
      intro i hi
      simpa using h1 (i + 1) (by omega)
  · rintro (h | ⟨rfl, k, h1, h2⟩)
    · exact ⟨0, by simp, by simpa using h⟩
    · refine ⟨k + 1, ?_, by simpa using h2⟩
      intro i hi
      cases i with
      | zero => simp
      | succ i => simpa using h1 i (by omega)

/-- no trailing zero -/
def Str (l : List Nat) : Prop := l.getLast? ≠ some 0

theorem Str_tail (a : Nat) (l : List Nat) (h : Str (a :: l)) (hl : l ≠ []) : Str l := by
  unfold Str at h ⊢
  cases l with
  | nil => exact absurd rfl hl
  | cons b bs => simpa [List.getLast?_cons_cons] using h

theorem Str_first_nonzero : ∀ (y : List Nat), y ≠ [] → Str y → ∃ k, (∀ i, i < k → nth0 y i = 0) ∧ 0 < nth0 y k := by
  intro y
  induction y with
  | nil => intro h; exact absurd rfl h
  | cons b bs ih =>
    intro _ hs
    by_cases hb : b = 0
    · subst hb
      have hbs : bs ≠ [] := by
        rintro rfl
        simp [Str] at hs
      obtain ⟨k, h1, h2⟩ := ih hbs (Str_tail 0 bs hs hbs)
      refine ⟨k + 1, ?_, by simpa using h2⟩
      intro i hi
      cases i with
      | zero => simp
      | succ i => simpa using h1 i (by omega)
    · exact ⟨0, by simp, by simp; omega⟩

/-- on lists without trailing zeros the lexicographic order is the sequence order -/
theorem lex_iff_seqLt : ∀ (x y : List Nat), Str x → Str y → (x < y ↔ seqLt x y) := by
  intro x
  induction x with
  | nil =>
    intro y _ hy
    cases y with
    | nil => simp [seqLt]
    | cons b bs =>
      simp only [List.nil_lt_cons, true_iff]
      obtain ⟨k, h1, h2⟩ := Str_first_nonzero (b :: bs) (by simp) hy
      exact ⟨k, fun i hi => by simp [h1 i hi], by simpa using h2⟩
  | cons a as ih =>
    intro y hx hy
    cases y with
    | nil =>
      simp only [List.not_lt_nil, false_iff]
      rintro ⟨k, _, h2⟩
      simp at h2
    | cons b bs =>
      rw [List.cons_lt_cons_iff, seqLt_cons]
      have key : as < bs ↔ seqLt as bs := by
        by_cases ha : as = []
        · subst ha
          by_cases hb : bs = []
          · subst hb; simp [seqLt]
          · exact ih bs (by simp [Str]) (Str_tail b bs hy hb)
        · by_cases hb : bs = []
          · subst hb
            exact ih [] (Str_tail a as hx ha) (by simp [Str])
          · exact ih bs (Str_tail a as hx ha) (Str_tail b bs hy hb)
      rw [key]

/-! ### `stripZeros` -/

theorem stripZeros_append_zero (l : List Nat) : Ver.stripZeros (l ++ [0]) = Ver.stripZeros l := by
  simp [Ver.stripZeros, List.reverse_append, List.dropWhile_cons]

theorem stripZeros_append_nonzero (l : List Nat) (x : Nat) (hx : x ≠ 0) : Ver.stripZeros (l ++ [x]) = l ++ [x] := by
  simp [Ver.stripZeros, List.reverse_append, List.dropWhile_cons, hx]

theorem nth0_append_zero (l : List Nat) (i : Nat) : nth0 (l ++ [0]) i = nth0 l i := by
  simp only [nth0, List.getD_eq_getElem?_getD]
  by_cases hi : i < l.length
  · simp [List.getElem?_append_left hi]
  · by_cases hi2 : i = l.length
    · subst hi2; simp
    · have h1 : l.length ≤ i := by omega
      have h2 : (l ++ [0]).length ≤ i := by simp; omega
      rw [List.getElem?_eq_none h1, List.getElem?_eq_none h2]

/-- induction from the right, phrased on the reversed list -/
theorem stripZeros_spec_rev : ∀ (r : List Nat),
    Str (Ver.stripZeros r.reverse) ∧ ∀ i, nth0 (Ver.stripZeros r.reverse) i = nth0 r.reverse i := by
  intro r
  induction r with
  | nil => simp [Ver.stripZeros, Str]
  | cons x r ih =>
    rw [List.reverse_cons]
    by_cases hx : x = 0
    · subst hx
      rw [stripZeros_append_zero]
      exact ⟨ih.1, fun i => by rw [ih.2 i, nth0_append_zero]⟩
    · rw [stripZeros_append_nonzero _ x hx]
      exact ⟨by simp [Str, hx], fun _ => rfl⟩

theorem stripZeros_spec (l : List Nat) : Str (Ver.stripZeros l) ∧ ∀ i, nth0 (Ver.stripZeros l) i = nth0 l i := by
  have := stripZeros_spec_rev l.reverse
  simpa using this

theorem seqLt_congr (x x' y y' : List Nat) (hx : ∀ i, nth0 x i = nth0 x' i) (hy : ∀ i, nth0 y i = nth0 y' i) :
    seqLt x y ↔ seqLt x' y' := by
  unfold seqLt
  constructor
  · rintro ⟨k, h1, h2⟩
    exact ⟨k, fun i hi => by rw [← hx, ← hy]; exact h1 i hi, by rw [← hx, ← hy]; exact h2⟩
  · rintro ⟨k, h1, h2⟩
    exact ⟨k, fun i hi => by rw [hx, hy]; exact h1 i hi, by rw [hx, hy]; exact h2⟩

theorem strip_lt_iff (x y : List Nat) : Ver.stripZeros x < Ver.stripZeros y ↔ seqLt x y := by
  rw [lex_iff_seqLt _ _ (stripZeros_spec x).1 (stripZeros_spec y).1]
  exact seqLt_congr _ _ _ _ (stripZeros_spec x).2 (stripZeros_spec y).2


/-! ### the version key -/

/-- release part of the key (`+1`, terminated by `0`) followed by a suffix: lexicographic on
    the release first, then on the suffix -/
theorem enc_lt_iff (sa sb : List Nat) : ∀ (x y : List Nat),
    (x.map (· + 1) ++ 0 :: sa < y.map (· + 1) ++ 0 :: sb) ↔ (x < y ∨ (x = y ∧ sa < sb)) := by
  intro x
  induction x with
  | nil =>
    intro y
    cases y with
    | nil => simp [List.cons_lt_cons_iff]
    | cons b bs => simp [List.cons_lt_cons_iff]
  | cons a as ih =>
    intro y
    cases y with
    | nil => simp [List.cons_lt_cons_iff]
    | cons b bs =>
      simp only [List.map_cons, List.cons_append, List.cons_lt_cons_iff, ih bs, List.cons.injEq]
      constructor
      · rintro (h | ⟨h1, h2 | ⟨h2, h3⟩⟩)
        · exact Or.inl (Or.inl (by omega))
        · exact Or.inl (Or.inr ⟨by omega, h2⟩)
        · exact Or.inr ⟨⟨by omega, h2⟩, h3⟩
      · rintro ((h | ⟨h1, h2⟩) | ⟨⟨h1, h2⟩, h3⟩)
        · exact Or.inl (by omega)
        · exact Or.inr ⟨by omega, Or.inl h2⟩
        · exact Or.inr ⟨by omega, Or.inr ⟨h2, h3⟩⟩

/-- the pre/post/dev part of the key -/
def suffixKey (v : Ver) : List Nat :=
  (match v.pre, v.post, v.dev with
   | none, none, some _ => [0, 0]
   | none, _, _ => [4, 0]
   | some (k, n), _, _ => [k.rank, n]) ++
  (match v.post with
   | none => [0]
   | some n => [n + 1]) ++
  (match v.dev with
   | none => [1, 0]
   | some n => [0, n])

theorem key_eq (v : Ver) : v.key = v.epoch :: ((Ver.stripZeros v.release).map (· + 1) ++ 0 :: suffixKey v) := by
  rcases v with ⟨e, r, pre, post, dev⟩
  cases pre <;> cases post <;> cases dev <;> simp [Ver.key, suffixKey, List.append_assoc]

/-- `a < b` on versions: epoch, then release as a zero-padded sequence, then the suffix -/
theorem lt_iff (a b : Ver) :
    lt a b ↔ (a.epoch < b.epoch ∨ (a.epoch = b.epoch ∧
      (seqLt a.release b.release ∨ (Ver.stripZeros a.release = Ver.stripZeros b.release ∧ suffixKey a < suffixKey b)))) := by
  show ¬ (b.key ≤ a.key) ↔ _
  rw [List.not_le, key_eq a, key_eq b, List.cons_lt_cons_iff, enc_lt_iff, strip_lt_iff]

theorem suffixKey_final (v : Ver) (h : v.isFinal = true) : suffixKey v = [4, 0, 0, 1, 0] := by
  rcases v with ⟨e, r, pre, post, dev⟩
  cases pre <;> cases post <;> cases dev <;> simp [Ver.isFinal] at h <;> rfl

/-- between two final releases only epoch and release matter -/
theorem lt_final (a b : Ver) (ha : a.isFinal = true) (hb : b.isFinal = true) :
    lt a b ↔ (a.epoch < b.epoch ∨ (a.epoch = b.epoch ∧ seqLt a.release b.release)) := by
  rw [lt_iff, suffixKey_final a ha, suffixKey_final b hb]
  simp [List.lt_irrefl]

/-- a final release below `b` in the release part is below `b`, whatever `b`'s suffix -/
theorem lt_of_seqLt (a b : Ver) (he : a.epoch = b.epoch) (h : seqLt a.release b.release) : lt a b := by
  rw [lt_iff]; exact Or.inr ⟨he, Or.inl h⟩

theorem seqLt_irrefl (x : List Nat) : ¬ seqLt x x := by
  rintro ⟨k, _, h⟩; omega

theorem seqLt_asymm (x y : List Nat) (h : seqLt x y) : ¬ seqLt y x := by
  rintro ⟨k', h1', h2'⟩
  obtain ⟨k, h1, h2⟩ := h
  rcases Nat.lt_trichotomy k k' with hk | hk | hk
  · have := h1' k hk; omega
  · subst hk; omega
  · have := h1 k' hk; omega

/-- sequences are totally ordered: not below and not above means equal everywhere -/
theorem seq_trichotomy (x y : List Nat) (h1 : ¬ seqLt x y) (h2 : ¬ seqLt y x) : ∀ i, nth0 x i = nth0 y i := by
  intro i
  induction i using Nat.strongRecOn with
  | _ i ih =>
    rcases Nat.lt_trichotomy (nth0 x i) (nth0 y i) with h | h | h
    · exact absurd ⟨i, ih, h⟩ h1
    · exact h
    · exact absurd ⟨i, fun j hj => (ih j hj).symm, h⟩ h2


/-! ### the wildcard lemma -/

/-- `v` has the release prefix `rel` (zero-padded) -/
def agrees (rel v : List Nat) : Prop := ∀ i, i < rel.length → nth0 v i = nth0 rel i

theorem nth0_append_left (a b : List Nat) (i : Nat) (h : i < a.length) : nth0 (a ++ b) i = nth0 a i := by
  simp [nth0, List.getD_eq_getElem?_getD, List.getElem?_append_left h]

theorem nth0_append_at (a : List Nat) (x : Nat) : nth0 (a ++ [x]) a.length = x := by
  simp [nth0, List.getD_eq_getElem?_getD]

theorem nth0_beyond (a : List Nat) (i : Nat) (h : a.length ≤ i) : nth0 a i = 0 := by
  simp [nth0, List.getD_eq_getElem?_getD, List.getElem?_eq_none h]

/-- the sequences in `[init.last, init.(last+1))` are exactly those with prefix `init.last` -/
theorem wild_seq (init : List Nat) (last : Nat) (v : List Nat) :
    (¬ seqLt v (init ++ [last]) ∧ seqLt v (init ++ [last + 1])) ↔ agrees (init ++ [last]) v := by
  constructor
  · rintro ⟨h1, k, h2, h3⟩
    have hk : k ≤ init.length := by
      by_cases hk : k ≤ init.length
      · exact hk
      · have hl : (init ++ [last + 1]).length ≤ k := by simp only [List.length_append, List.length_cons, List.length_nil]; omega
        rw [nth0_beyond (init ++ [last + 1]) k hl] at h3; omega
    have hagree : ∀ i, i < init.length → nth0 v i = nth0 init i := by
      intro i hi
      by_cases hik : i < k
      · rw [h2 i hik, nth0_append_left _ _ _ hi]
      · -- k ≤ i < |init|: then v is below `init.last` at k
        exfalso
        apply h1
        have hkl : k < init.length := by omega
        refine ⟨k, fun j hj => ?_, ?_⟩
        · rw [h2 j hj, nth0_append_left _ _ _ (by omega), nth0_append_left _ _ _ (by omega)]
        · rw [nth0_append_left _ _ _ hkl] at h3 ⊢
          exact h3
    intro i hi
    simp only [List.length_append, List.length_cons, List.length_nil] at hi
    by_cases hil : i < init.length
    · rw [hagree i hil, nth0_append_left _ _ _ hil]
    · have : i = init.length := by omega
      subst this
      rw [nth0_append_at]
      -- v at |init| is < last+1 (if k = |init|) ; and not < last
      have hkeq : k = init.length := by
        by_cases hkl : k < init.length
        · exfalso
          have := hagree k hkl
          rw [nth0_append_left _ _ _ hkl] at h3
          omega
        · omega
      subst hkeq
      rw [nth0_append_at] at h3
      by_cases hlt : nth0 v init.length < last
      · exfalso; apply h1
        refine ⟨init.length, fun j hj => ?_, by rw [nth0_append_at]; exact hlt⟩
        rw [hagree j hj, nth0_append_left _ _ _ hj]
      · omega
  · intro h
    constructor
    · rintro ⟨k, _, h3⟩
      by_cases hk : k < (init ++ [last]).length
      · have := h k hk; omega
      · rw [nth0_beyond (init ++ [last]) k (by omega)] at h3; omega
    · refine ⟨init.length, fun j hj => ?_, ?_⟩
      · rw [h j (by simp; omega), nth0_append_left _ _ _ hj, nth0_append_left _ _ _ hj]
      · rw [h init.length (by simp), nth0_append_at, nth0_append_at]; omega

theorem seqLt_append_zero_right (x y : List Nat) : seqLt x (y ++ [0]) ↔ seqLt x y :=
  seqLt_congr _ _ _ _ (fun _ => rfl) (nth0_append_zero y)

theorem prefixMatch_iff (rel v : List Nat) : Pep440.prefixMatch rel v = true ↔ agrees rel v := by
  unfold Pep440.prefixMatch agrees
  simp only [beq_iff_eq]
  constructor
  · intro h i hi
    have : nth0 ((padZeros v rel.length).take rel.length) i = nth0 rel i := by rw [h]
    rw [← this]
    simp only [nth0, List.getD_eq_getElem?_getD, List.getElem?_take, hi, if_true, padZeros]
    by_cases hv : i < v.length
    · simp [List.getElem?_append_left hv]
    · rw [List.getElem?_append_right (by omega), List.getElem?_eq_none (by omega)]
      simp only [List.getElem?_replicate]
      split <;> rfl
  · intro h
    apply List.ext_getElem?
    intro i
    by_cases hi : i < rel.length
    · have := h i hi
      simp only [nth0, List.getD_eq_getElem?_getD] at this
      rw [List.getElem?_take, if_pos hi]
      simp only [padZeros]
      by_cases hv : i < v.length
      · rw [List.getElem?_append_left hv]
        rw [List.getElem?_eq_getElem hv, List.getElem?_eq_getElem hi] at this ⊢
        simpa using this
      · rw [List.getElem?_append_right (by omega), List.getElem?_eq_none (by omega : v.length ≤ i)] at *
        rw [List.getElem?_eq_getElem hi] at this ⊢
        simp only [Option.getD_none, Option.getD_some] at this
        rw [List.getElem?_replicate]
        simp only [← this]
        split
        · rfl
        · exfalso; omega
    · rw [List.getElem?_take, if_neg hi, List.getElem?_eq_none (by omega)]


/-! ### wildcard and compatible-release clauses on final releases -/

theorem le_iff_not_lt (a b : Ver) : le a b ↔ ¬ lt b a := by
  show le a b ↔ ¬ ¬ le a b
  exact ⟨fun h hn => hn h, fun h => Decidable.not_not.1 h⟩

theorem nextSeries_eq (p : Ver) (n : Nat) (hi : Ver) (h : p.nextSeries n = some hi) :
    ∃ init last, p.release.take n = init ++ [last] ∧ hi = Ver.releaseVersion p.epoch (init ++ [last + 1]) := by
  unfold Ver.nextSeries at h
  cases hr : (p.release.take n).reverse with
  | nil => simp [hr] at h
  | cons last initr =>
    simp only [hr, Option.some.injEq] at h
    refine ⟨initr.reverse, last, ?_, h.symm⟩
    have := congrArg List.reverse hr
    simpa using this

/-- `==V.*` on a final candidate: prefix matching is membership in `[V.0, V+1.0)` -/
theorem wild_mem (p v hi : Ver) (hv : v.isFinal = true) (h : p.nextSeries p.release.length = some hi) :
    (le (Ver.releaseVersion p.epoch p.release) v ∧ lt v hi) ↔ Pep440.wildMatch p v = true := by
  obtain ⟨init, last, htake, rfl⟩ := nextSeries_eq p _ hi h
  have hrel : p.release = init ++ [last] := by simpa using htake
  have hlof : (Ver.releaseVersion p.epoch p.release).isFinal = true := rfl
  have hhif : (Ver.releaseVersion p.epoch (init ++ [last + 1])).isFinal = true := rfl
  rw [le_iff_not_lt, lt_final v _ hv hlof, lt_final v _ hv hhif]
  simp only [Ver.releaseVersion, Pep440.wildMatch, Bool.and_eq_true, beq_iff_eq, prefixMatch_iff]
  rw [seqLt_append_zero_right, seqLt_append_zero_right, hrel, ← wild_seq init last v.release]
  constructor
  · rintro ⟨h1, h2⟩
    have he : p.epoch = v.epoch := by
      rcases h2 with h2 | ⟨h2, _⟩
      · exfalso; exact h1 (Or.inl h2)
      · exact h2.symm
    refine ⟨he, fun hs => h1 (Or.inr ⟨he.symm, hs⟩), ?_⟩
    rcases h2 with h2 | ⟨_, h2⟩
    · omega
    · exact h2
  · rintro ⟨he, h1, h2⟩
    refine ⟨?_, Or.inr ⟨he.symm, h2⟩⟩
    rintro (h | ⟨_, h⟩)
    · omega
    · exact h1 h

/-- a final `v` at or above `V` (any suffix on `V`) is not below `V` in the release part -/
theorem not_seqLt_of_le (V v : Ver) (he : V.epoch = v.epoch) (h : le V v) : ¬ seqLt v.release V.release := by
  intro hs
  exact (le_iff_not_lt V v).1 h (lt_of_seqLt v V he.symm hs)

theorem epoch_le_of_le (V v : Ver) (h : le V v) : V.epoch ≤ v.epoch := by
  by_cases hlt : v.epoch < V.epoch
  · exfalso
    exact (le_iff_not_lt V v).1 h ((lt_iff v V).2 (Or.inl hlt))
  · omega

/-- `~=V` on a final candidate: `>=V` and prefix match on all but the last release segment -/
theorem compat_mem (V v hi : Ver) (hv : v.isFinal = true) (hlen : 2 ≤ V.release.length)
    (h : V.nextSeries (V.release.length - 1) = some hi) :
    (le V v ∧ lt v hi) ↔
      (le V v ∧ Pep440.wildMatch { epoch := V.epoch, release := V.release.dropLast } v = true) := by
  obtain ⟨init, last, htake, rfl⟩ := nextSeries_eq V _ hi h
  have hdl : V.release.dropLast = init ++ [last] := by
    rw [← htake, List.dropLast_eq_take]
  have hhif : (Ver.releaseVersion V.epoch (init ++ [last + 1])).isFinal = true := rfl
  constructor
  · rintro ⟨h1, h2⟩
    refine ⟨h1, ?_⟩
    rw [lt_final v _ hv hhif] at h2
    simp only [Ver.releaseVersion] at h2
    rw [seqLt_append_zero_right] at h2
    have hel := epoch_le_of_le V v h1
    have he : V.epoch = v.epoch := by
      rcases h2 with h2 | ⟨h2, _⟩ <;> omega
    simp only [Pep440.wildMatch, he, beq_self_eq_true, Bool.true_and, prefixMatch_iff, hdl]
    rw [← wild_seq init last v.release]
    have hs2 : seqLt v.release (init ++ [last + 1]) := by
      rcases h2 with h2 | ⟨_, h2⟩
      · omega
      · exact h2
    refine ⟨?_, hs2⟩
    -- v is not below V's release, and V's release extends `init.last`
    intro hs
    apply not_seqLt_of_le V v he h1
    obtain ⟨k, k1, k2⟩ := hs
    have hk : k < (init ++ [last]).length := by
      by_cases hk : k < (init ++ [last]).length
      · exact hk
      · rw [nth0_beyond (init ++ [last]) k (by omega)] at k2; omega
    have hpre : ∀ i, i < (init ++ [last]).length → nth0 V.release i = nth0 (init ++ [last]) i := by
      intro i hi
      rw [← hdl]
      simp only [nth0, List.getD_eq_getElem?_getD, List.dropLast_eq_take, List.getElem?_take]
      have hlen' : (init ++ [last]).length = V.release.length - 1 := by
        rw [← hdl, List.length_dropLast]
      rw [if_pos (by omega)]
    exact ⟨k, fun i hi => by rw [k1 i hi, hpre i (by omega)], by rw [hpre k hk]; exact k2⟩
  · rintro ⟨h1, h2⟩
    refine ⟨h1, ?_⟩
    simp only [Pep440.wildMatch, Bool.and_eq_true, beq_iff_eq, prefixMatch_iff, hdl] at h2
    rw [lt_final v _ hv hhif]
    simp only [Ver.releaseVersion]
    rw [seqLt_append_zero_right]
    exact Or.inr ⟨h2.1.symm, ((wild_seq init last v.release).2 h2.2).2⟩

end VOrd
end DepLogic
