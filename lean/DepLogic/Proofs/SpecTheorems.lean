import DepLogic.Proofs.InvertLemmas
/-
  `Spec.and / or / invert`: exact meaning and canonical shape of the result.
-/
namespace DepLogic
open LinPre
namespace Spec
variable {α : Type} [LinPre α]

theorem canon_union_good {rs : List (Range α)} {t} (h : Canon (.union rs t)) : Good rs :=
  ⟨h.2.1, h.2.2⟩

theorem isAny_mem (r : Range α) (h : r.isAny = true) (v : α) : r.mem v := by
  rcases r with ⟨mn, mx, _, _, _⟩
  cases mn <;> cases mx <;> simp [Range.isAny] at h <;> simp [Range.mem]

theorem LMem_singleton (r : Range α) (v : α) : LMem [r] v ↔ r.mem v := by simp [LMem]

theorem good_singleton (r : Range α) (h : r.WF) : Good [r] := ⟨by simpa using h, by simp⟩

/-! ### `&` -/

theorem and_mem (a b : Spec α) (v : α) : (a.and b).mem v ↔ (a.mem v ∧ b.mem v) := by
  cases a with
  | empty => simp [Spec.and, mem]
  | any => simp [Spec.and, mem]
  | range r =>
    cases b with
    | empty => simp [Spec.and, mem]
    | any => simp [Spec.and, mem]
    | range o =>
      have := Range.and_mem r o v
      cases h : r.and o <;> rw [h] at this <;> simpa [Spec.and, h, mem] using this
    | union ys yt =>
      unfold Spec.and
      by_cases hr : r.isAny = true
      · simp [hr, mem, isAny_mem r hr v]
      · rw [Bool.not_eq_true] at hr
        simp only [hr, Bool.false_eq_true, if_false]
        rw [fromRanges_mem, andProduct_mem]
        simp [mem, LMem, and_comm]
  | union xs xt =>
    cases b with
    | empty => simp [Spec.and, mem]
    | any => simp [Spec.and, mem]
    | range o =>
      unfold Spec.and
      by_cases hr : o.isAny = true
      · simp [hr, mem, isAny_mem o hr v]
      · rw [Bool.not_eq_true] at hr
        simp only [hr, Bool.false_eq_true, if_false]
        rw [fromRanges_mem, andProduct_mem]
        simp [mem, LMem]
    | union ys yt =>
      unfold Spec.and
      rw [fromRanges_mem, andProduct_mem]
      simp [mem, LMem]

theorem and_canon (a b : Spec α) (ha : Canon a) (hb : Canon b) : Canon (a.and b) := by
  cases a with
  | empty => simp [Spec.and, Canon]
  | any => simpa [Spec.and] using hb
  | range r =>
    cases b with
    | empty => simp [Spec.and, Canon]
    | any => simpa [Spec.and] using ha
    | range o =>
      have := Range.and_WF r o ha hb
      cases h : r.and o <;> rw [h] at this <;> simpa [Spec.and, h, Canon] using this
    | union ys yt =>
      unfold Spec.and
      by_cases hr : r.isAny = true
      · simpa [hr] using hb
      · rw [Bool.not_eq_true] at hr
        simp only [hr, Bool.false_eq_true, if_false]
        exact fromRanges_canon _ (andProduct_good _ _ (canon_union_good hb) (good_singleton r ha))
  | union xs xt =>
    cases b with
    | empty => simp [Spec.and, Canon]
    | any => simpa [Spec.and] using ha
    | range o =>
      unfold Spec.and
      by_cases hr : o.isAny = true
      · simpa [hr] using ha
      · rw [Bool.not_eq_true] at hr
        simp only [hr, Bool.false_eq_true, if_false]
        exact fromRanges_canon _ (andProduct_good _ _ (canon_union_good ha) (good_singleton o hb))
    | union ys yt =>
      unfold Spec.and
      exact fromRanges_canon _ (andProduct_good _ _ (canon_union_good ha) (canon_union_good hb))

/-! ### `|` -/

/-- what `a | b` is required to be -/
def OrSpec (a : Spec α) (bm : α → Prop) (res : Option (Spec α)) : Prop :=
  ∃ r, res = some r ∧ Canon r ∧ ∀ v, r.mem v ↔ (a.mem v ∨ bm v)

theorem any_range_canon : Canon (.range (o : Range α)) ↔ o.WF := Iff.rfl

theorem unionOrRange_spec (xs : List (Range α)) (xt : Option (Clause α)) (hx : Canon (.union xs xt))
    (o : Range α) (ho : o.WF) : OrSpec (.union xs xt) o.mem (unionOrRange xs o) := by
  unfold unionOrRange OrSpec
  by_cases hr : o.isAny = true
  · simp only [hr, if_true]
    exact ⟨_, rfl, ho, fun v => by simp [mem, isAny_mem o hr v]⟩
  · rw [Bool.not_eq_true] at hr
    simp only [hr, Bool.false_eq_true, if_false]
    obtain ⟨ys, hys, _, hg, hm, _⟩ := orLoop_spec xs o ho (canon_union_good hx)
    refine ⟨fromRanges ys, by simp [hys], fromRanges_canon ys hg, ?_⟩
    intro v
    rw [fromRanges_mem, hm v]
    simp [mem, LMem, or_comm]

theorem orRange_spec (s : Spec α) (hs : Canon s) (o : Range α) (ho : o.WF) :
    OrSpec s o.mem (orRange s o) := by
  cases s with
  | empty => exact ⟨_, rfl, ho, fun v => by simp [mem]⟩
  | any => exact ⟨_, rfl, trivial, fun v => by simp [mem]⟩
  | range a =>
    have h1 := Range.or_WF a o hs ho
    have h2 := fun v => Range.or_mem a o hs ho v
    cases h : a.or o with
    | one r =>
      simp only [h] at h1 h2
      exact ⟨.range r, by simp [orRange, h], h1, fun v => by simpa [mem] using h2 v⟩
    | two x y =>
      simp only [h] at h1 h2
      refine ⟨.union [x, y] none, by simp [orRange, h], ⟨by simp, ?_, ?_⟩, fun v => ?_⟩
      · intro r hr
        simp only [List.mem_cons, List.not_mem_nil, or_false] at hr
        rcases hr with rfl | rfl
        · exact h1.1
        · exact h1.2.1
      · simp [h1.2.2]
      · have := h2 v
        simp [mem, this]
  | union xs xt => exact unionOrRange_spec xs xt hs o ho

theorem orFold_spec (ys : List (Range α)) : ∀ (s : Spec α), Canon s → (∀ y ∈ ys, y.WF) →
    OrSpec s (LMem ys) (orFold s ys) := by
  induction ys with
  | nil =>
    intro s hs _
    exact ⟨s, rfl, hs, fun v => by simp [LMem]⟩
  | cons y rest ih =>
    intro s hs hy
    obtain ⟨s', hs', hc', hm'⟩ := orRange_spec s hs y (hy y (by simp))
    obtain ⟨r, hr, hc, hm⟩ := ih s' hc' (fun z hz => hy z (by simp [hz]))
    refine ⟨r, ?_, hc, ?_⟩
    · simp [orFold, hs', hr]
    · intro v
      rw [hm v, hm' v]
      simp [LMem, or_assoc]

theorem or_spec (a b : Spec α) (ha : Canon a) (hb : Canon b) : OrSpec a b.mem (a.or b) := by
  cases a with
  | empty => exact ⟨b, by simp [Spec.or], hb, fun v => by simp [mem]⟩
  | any => exact ⟨.any, by simp [Spec.or], trivial, fun v => by simp [mem]⟩
  | range r =>
    cases b with
    | empty => exact ⟨_, rfl, ha, fun v => by simp [mem]⟩
    | any => exact ⟨.any, rfl, trivial, fun v => by simp [mem]⟩
    | range o => exact orRange_spec (.range r) ha o hb
    | union ys yt =>
      obtain ⟨s, h1, h2, h3⟩ := unionOrRange_spec ys yt hb r ha
      exact ⟨s, h1, h2, fun v => by rw [h3 v]; simp [mem, or_comm]⟩
  | union xs xt =>
    cases b with
    | empty => exact ⟨_, rfl, ha, fun v => by simp [mem]⟩
    | any => exact ⟨.any, rfl, trivial, fun v => by simp [mem]⟩
    | range o => exact unionOrRange_spec xs xt ha o hb
    | union ys yt =>
      obtain ⟨s, h1, h2, h3⟩ := orFold_spec ys (.union xs xt) ha hb.2.1
      exact ⟨s, h1, h2, fun v => by rw [h3 v]; simp [mem, LMem]⟩

/-! ### `~` -/

theorem lowPiece_mem (f : Range α) (m : α) (hm : f.min = some m) (v : α) :
    ({ max := some m, incMax := !f.incMin } : Range α).mem v ↔ below f v := by
  simp [below, hm, Range.mem]

theorem highPiece_mem (f : Range α) (m : α) (hm : f.max = some m) (v : α) :
    ({ min := some m, incMin := !f.incMax } : Range α).mem v ↔ above f v := by
  simp [above, hm, Range.mem]

theorem invertRange_mem (r : Range α) (v : α) : (invertRange r).mem v ↔ ¬ r.mem v := by
  rw [not_mem_iff]
  cases hmn : r.min with
  | none =>
    cases hmx : r.max with
    | none => simp [invertRange, hmn, hmx, mem, below, above]
    | some mx =>
      have := highPiece_mem r mx hmx v
      simp only [invertRange, hmn, hmx, mem, this]
      simp [below, hmn]
  | some mn =>
    cases hmx : r.max with
    | none =>
      have := lowPiece_mem r mn hmn v
      simp only [invertRange, hmn, hmx, mem, this]
      simp [above, hmx]
    | some mx =>
      have h1 := highPiece_mem r mx hmx v
      have h2 := lowPiece_mem r mn hmn v
      simp only [invertRange, hmn, hmx, mem, List.mem_cons, List.not_mem_nil, or_false,
        exists_eq_or_imp, exists_eq_left, h1, h2]

theorem invertRange_canon (r : Range α) (h : r.WF) : Canon (invertRange r) := by
  have tot := @LinPre.le_total α _
  rcases r with ⟨mn, mx, i, a, t⟩
  cases mn <;> cases mx <;> revert h <;>
    simp [invertRange, Canon, Range.WF, Range.ctorOk, sep] <;> grind (splits := 40)

theorem invertUnion_mem (rs : List (Range α)) (t) (h : Canon (.union rs t)) (v : α) :
    (invertUnion rs).mem v ↔ ¬ LMem rs v := by
  have hg := canon_union_good h
  match rs, h with
  | [], h => exact absurd h.1 (by simp)
  | f :: rest, _ =>
    simp only [invertUnion]
    rw [fromRanges_mem]
    have hp := List.pairwise_cons.1 hg.2
    have hf := hg.1 f (by simp)
    have key := gaps_mem f rest hg v
    have hfirst : LMem (firstPiece f) v ↔ below f v := by
      cases hm : f.min with
      | none => simp [firstPiece, LMem, below, hm]
      | some m => simpa [firstPiece, LMem, hm] using lowPiece_mem f m hm v
    have happ : ∀ (l1 l2 : List (Range α)), LMem (l1 ++ l2) v ↔ (LMem l1 v ∨ LMem l2 v) := by
      intro l1 l2; simp [LMem, or_and_right, exists_or]
    rw [happ, hfirst, key]
    simp only [LMem, List.mem_cons, exists_eq_or_imp, not_or, not_exists, not_and]
    constructor
    · rintro (h | ⟨h1, h2⟩)
      · exact ⟨(not_mem_iff f v).2 (Or.inl h), fun r hr => not_mem_of_below_sep f r hf (hp.1 r hr) v h⟩
      · exact ⟨(not_mem_iff f v).2 (Or.inr h1), h2⟩
    · rintro ⟨h1, h2⟩
      rcases (not_mem_iff f v).1 h1 with h | h
      · exact Or.inl h
      · exact Or.inr ⟨h, h2⟩

theorem invertUnion_canon (rs : List (Range α)) (t) (h : Canon (.union rs t)) :
    Canon (invertUnion rs) := by
  have hg := canon_union_good h
  match rs, h with
  | [], h => exact absurd h.1 (by simp)
  | f :: rest, _ =>
    simp only [invertUnion]
    apply fromRanges_canon
    have hp := List.pairwise_cons.1 hg.2
    have hf := hg.1 f (by simp)
    cases hm : f.min with
    | none =>
      simp only [firstPiece, hm, List.nil_append]
      exact ⟨gaps_WF _ hg.2, gaps_pairwise _ hg⟩
    | some m =>
      simp only [firstPiece, hm, List.singleton_append]
      constructor
      · intro r hr
        simp only [List.mem_cons] at hr
        rcases hr with rfl | hr
        · simp [Range.WF, Range.ctorOk]
        · exact gaps_WF _ hg.2 r hr
      · rw [List.pairwise_cons]
        refine ⟨?_, gaps_pairwise _ hg⟩
        intro g hgm
        obtain ⟨b', hb', hsome, hmin, hinc⟩ := gaps_min (f :: rest) hg.2 g hgm
        have hbb : b' = f ∨ sep f b' := by
          simp only [List.mem_cons] at hb'
          rcases hb' with h | h
          · exact Or.inl h
          · exact Or.inr (hp.1 b' h)
        exact sep_piece f b' _ g hf (hg.1 b' hb') hbb (by simp [hm]) rfl (by simp [hm]) hmin hinc hsome

theorem invert_mem (a : Spec α) (ha : Canon a) (v : α) : (a.invert).mem v ↔ ¬ a.mem v := by
  cases a with
  | empty => simp [invert, mem]
  | any => simp [invert, mem]
  | range r => exact invertRange_mem r v
  | union rs t => simpa [invert, mem, LMem] using invertUnion_mem rs t ha v

theorem invert_canon (a : Spec α) (ha : Canon a) : Canon (a.invert) := by
  cases a with
  | empty => simp [invert, Canon]
  | any => simp [invert, Canon]
  | range r => exact invertRange_canon r ha
  | union rs t => exact invertUnion_canon rs t ha

end Spec
end DepLogic
