import DepLogic.Proofs.RangeLemmas
/-
  List-level lemmas: the pairwise product of `UnionSpecifier.__and__`, the ordered
  merge loop of `UnionSpecifier.__or__`, the gap walk of `UnionSpecifier.__invert__`.
-/
namespace DepLogic
open LinPre
namespace Spec
variable {α : Type} [LinPre α]

/-- membership in a list of ranges -/
def LMem (rs : List (Range α)) (v : α) : Prop := ∃ r ∈ rs, r.mem v

/-- every range non-degenerate, ranges ascending and separated -/
def Good (rs : List (Range α)) : Prop := (∀ r ∈ rs, r.WF) ∧ rs.Pairwise sep

theorem fromRanges_mem (rs : List (Range α)) (v : α) : (fromRanges rs).mem v ↔ LMem rs v := by
  match rs with
  | [] => simp [fromRanges, mem, LMem]
  | [r] => simp [fromRanges, mem, LMem]
  | a :: b :: rest => simp [fromRanges, mem, LMem]

theorem fromRanges_canon (rs : List (Range α)) (h : Good rs) : Canon (fromRanges rs) := by
  match rs with
  | [] => simp [fromRanges, Canon]
  | [r] => simpa [fromRanges, Canon, Good] using h.1
  | a :: b :: rest =>
    simp only [fromRanges, Canon]
    exact ⟨by simp, h.1, h.2⟩

omit [LinPre α] in
theorem fromRanges_isEmpty (rs : List (Range α)) : (fromRanges rs).isEmpty = rs.isEmpty := by
  match rs with
  | [] => rfl
  | [r] => rfl
  | a :: b :: rest => rfl

/-! ### `&` : the pairwise product -/

theorem andProduct_mem (xs ys : List (Range α)) (v : α) :
    LMem (andProduct xs ys) v ↔ (LMem xs v ∧ LMem ys v) := by
  unfold LMem andProduct
  constructor
  · rintro ⟨r, hr, hv⟩
    rw [List.mem_flatMap] at hr
    obtain ⟨a, ha, hr⟩ := hr
    rw [List.mem_filterMap] at hr
    obtain ⟨b, hb, hab⟩ := hr
    have := (Range.and_mem a b v)
    rw [hab] at this
    exact ⟨⟨a, ha, (this.1 hv).1⟩, ⟨b, hb, (this.1 hv).2⟩⟩
  · rintro ⟨⟨a, ha, hav⟩, ⟨b, hb, hbv⟩⟩
    have := (Range.and_mem a b v)
    cases hab : a.and b with
    | none => rw [hab] at this; exact (this.2 ⟨hav, hbv⟩).elim
    | some r =>
      rw [hab] at this
      exact ⟨r, List.mem_flatMap.2 ⟨a, ha, List.mem_filterMap.2 ⟨b, hb, hab⟩⟩, this.2 ⟨hav, hbv⟩⟩

theorem andProduct_good (xs ys : List (Range α)) (hx : Good xs) (hy : Good ys) :
    Good (andProduct xs ys) := by
  constructor
  · intro r hr
    unfold andProduct at hr
    rw [List.mem_flatMap] at hr
    obtain ⟨a, ha, hr⟩ := hr
    rw [List.mem_filterMap] at hr
    obtain ⟨b, hb, hab⟩ := hr
    have := Range.and_WF a b (hx.1 a ha) (hy.1 b hb)
    rw [hab] at this; exact this
  · unfold andProduct
    rw [List.pairwise_flatMap]
    constructor
    · intro a _
      rw [List.pairwise_filterMap]
      refine hy.2.imp ?_
      intro b b' hbb r hr r' hr'
      have h1 := Range.and_sep_right a b b' (Or.inr hbb)
      rw [hr] at h1
      have h2 := Range.and_sep_left a b' r (Or.inr h1)
      rw [hr'] at h2; exact h2
    · refine hx.2.imp ?_
      intro a a' haa r hr r' hr'
      rw [List.mem_filterMap] at hr hr'
      obtain ⟨b, _, hab⟩ := hr
      obtain ⟨b', _, hab'⟩ := hr'
      have h1 := Range.and_sep_right a b a' (Or.inl haa)
      rw [hab] at h1
      have h2 := Range.and_sep_left a' b' r (Or.inl h1)
      rw [hab'] at h2; exact h2

/-! ### `|` : the ordered merge loop -/

theorem orLoop_spec (xs : List (Range α)) : ∀ (o : Range α), o.WF → Good xs →
    ∃ ys, orLoop o xs = some ys ∧ ys ≠ [] ∧ Good ys ∧ (∀ v, LMem ys v ↔ (o.mem v ∨ LMem xs v)) ∧
      (∀ c : Range α, sep c o → (∀ x ∈ xs, sep c x) → ∀ y ∈ ys, sep c y) := by
  induction xs with
  | nil =>
    intro o ho _
    refine ⟨[o], rfl, by simp, ⟨by simpa using ho, by simp⟩, ?_, ?_⟩
    · intro v; simp [LMem]
    · intro c hc _ y hy; simp at hy; subst hy; exact hc
  | cons r rest ih =>
    intro o ho hx
    have hr : r.WF := hx.1 r (by simp)
    have hrest : Good rest := ⟨fun x hx' => hx.1 x (by simp [hx']), (List.pairwise_cons.1 hx.2).2⟩
    have hrsep : ∀ x ∈ rest, sep r x := (List.pairwise_cons.1 hx.2).1
    unfold orLoop
    by_cases hc : r.canCombine o = true
    · simp only [hc, if_true]
      have h1 := Range.or_one_of_canCombine o r ho hr hc
      have h2 := Range.or_WF o r ho hr
      have h3 := fun v => Range.or_mem o r ho hr v
      have h4 := fun c h1 h2 => Range.or_one_sep_left o r c h1 h2
      cases hor : o.or r with
      | two a b => rw [hor] at h1; exact h1.elim
      | one x =>
        rw [hor] at h2 h3 h4
        simp only at h2 h3 h4 ⊢
        obtain ⟨ys, hys, hne, hg, hm, hs⟩ := ih x h2 hrest
        refine ⟨ys, hys, hne, hg, ?_, ?_⟩
        · intro v
          rw [hm v, h3 v]
          simp only [LMem, List.mem_cons, exists_eq_or_imp]
          constructor
          · rintro (h | h)
            · rcases h with h | h
              · exact Or.inl h
              · exact Or.inr (Or.inl h)
            · exact Or.inr (Or.inr h)
          · rintro (h | h | h)
            · exact Or.inl (Or.inl h)
            · exact Or.inl (Or.inr h)
            · exact Or.inr h
        · intro c hco hcx y hy
          exact hs c (h4 c hco (hcx r (by simp))) (fun x hx' => hcx x (by simp [hx'])) y hy
    · have hc' : r.canCombine o = false := by simpa using hc
      simp only [hc', Bool.false_eq_true, if_false]
      by_cases hl : o.allowsLower r = true
      · simp only [hl, if_true]
        have hsep := Range.sep_of_not_canCombine_lower r o hr ho hc' hl
        refine ⟨o :: r :: rest, rfl, by simp, ⟨?_, ?_⟩, ?_, ?_⟩
        · intro x hx'
          simp only [List.mem_cons] at hx'
          rcases hx' with h | h | h
          · subst h; exact ho
          · subst h; exact hr
          · exact hrest.1 x h
        · rw [List.pairwise_cons]
          refine ⟨?_, hx.2⟩
          intro x hx'
          simp only [List.mem_cons] at hx'
          rcases hx' with h | h
          · subst h; exact hsep
          · exact Range.sep_trans o r x hr hsep (hrsep x h)
        · intro v; simp [LMem]
        · intro c hco hcx y hy
          simp only [List.mem_cons] at hy
          rcases hy with h | h
          · subst h; exact hco
          · exact hcx y (by simpa using h)
      · have hl' : o.allowsLower r = false := by simpa using hl
        simp only [hl', Bool.false_eq_true, if_false]
        have hsep := Range.sep_of_not_canCombine_not_lower r o hr ho hc' hl'
        obtain ⟨ys, hys, hne, hg, hm, hs⟩ := ih o ho hrest
        refine ⟨r :: ys, by simp [hys], by simp, ⟨?_, ?_⟩, ?_, ?_⟩
        · intro x hx'
          simp only [List.mem_cons] at hx'
          rcases hx' with h | h
          · subst h; exact hr
          · exact hg.1 x h
        · rw [List.pairwise_cons]
          exact ⟨fun y hy => hs r hsep hrsep y hy, hg.2⟩
        · intro v
          simp only [LMem, List.mem_cons, exists_eq_or_imp]
          have := hm v
          simp only [LMem] at this
          rw [this]
          constructor
          · rintro (h | h | h)
            · exact Or.inr (Or.inl h)
            · exact Or.inl h
            · exact Or.inr (Or.inr h)
          · rintro (h | h | h)
            · exact Or.inr (Or.inl h)
            · exact Or.inl h
            · exact Or.inr (Or.inr h)
        · intro c hco hcx y hy
          simp only [List.mem_cons] at hy
          rcases hy with h | h
          · rw [h]; exact hcx r (by simp)
          · exact hs c hco (fun x hx' => hcx x (by simp [hx'])) y h

end Spec
end DepLogic
