import DepLogic.Model.Version
import DepLogic.Model.Spec
import DepLogic.Model.Generic
import DepLogic.Model.Pep440
import DepLogic.Model.SpecParse
/-
  Text encodings of model values for the line protocol (harness ⇄ driver).
  Part of the trusted correspondence machinery, not of any theorem.
-/
namespace DepLogic
namespace Codec
open SpecParse

def parseBool : String → Option Bool
  | "t" => some true | "f" => some false | _ => none

def showBool (b : Bool) : String := if b then "t" else "f"

def parseOptVer (s : String) : Option (Option Ver) :=
  if s == "-" then some none else (parseVer s).map some

def showOptVer : Option Ver → String
  | none => "-" | some v => v.str

def clauseText (c : Clause Ver) : String :=
  c.op.str ++ c.ver.str ++ (if c.wild then ".*" else "")

def parseOptText (s : String) : Option (Option (Clause Ver)) :=
  if s == "-" then some none else (parseClauseL s.toList).map some
def showOptText : Option (Clause Ver) → String
  | none => "-" | some t => clauseText t

/-- `R(min,max,incMin,incMax,text)` -/
def parseRange (s : String) : Option (Range Ver) :=
  if s.startsWith "R(" && s.endsWith ")" then
    let body := ((s.drop 2).dropEnd 1).toString
    match body.splitOn "," with
    | [a, b, c, d, e] =>
      match parseOptVer a, parseOptVer b, parseBool c, parseBool d, parseOptText e with
      | some mn, some mx, some i, some j, some t =>
        some { min := mn, max := mx, incMin := i, incMax := j, text := t }
      | _, _, _, _, _ => none
    | _ => none
  else none

def showRange (r : Range Ver) : String :=
  "R(" ++ showOptVer r.min ++ "," ++ showOptVer r.max ++ "," ++ showBool r.incMin ++ "," ++
    showBool r.incMax ++ "," ++ showOptText r.text ++ ")"

/-- `E`, `A`, `R(...)`, `U[R(...);R(...)]{text}` -/
def parseSpec (s : String) : Option (Spec Ver) :=
  if s == "E" then some .empty
  else if s == "A" then some .any
  else if s.startsWith "R(" then (parseRange s).map .range
  else if s.startsWith "U[" && s.endsWith "}" then
    match ((s.drop 2).dropEnd 1).toString.splitOn "]{" with
    | [rs, t] =>
      let parts := if rs.isEmpty then [] else (rs.splitOn ";").map parseRange
      if parts.any Option.isNone then none
      else (parseOptText t).map fun t' => .union (parts.filterMap id) t'
    | _ => none
  else none

def showSpec : Spec Ver → String
  | .empty => "E"
  | .any => "A"
  | .range r => showRange r
  | .union rs t => "U[" ++ ";".intercalate (rs.map showRange) ++ "]{" ++ showOptText t ++ "}"

def showGRes : GRes → String
  | .empty => "E"
  | .any => "A"
  | .spec g => "S\t" ++ g.op.str ++ "\t" ++ g.value


def showClauses (cs : List (Clause Ver)) : String := ",".intercalate (cs.map clauseText)

def showSText : SText → String
  | .empty => "<empty>"
  | .alts as => "||".intercalate (as.map showClauses)

end Codec
end DepLogic
