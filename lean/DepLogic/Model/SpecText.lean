import DepLogic.Model.Version
import DepLogic.Model.Spec
/-
  Text layer of version specifiers at *token* level:
  * `fromClause`        — `_from_pkg_specifier` (specifiers/__init__.py), after the `fix:` that computes
                           wildcard / compatible-release bounds from the parsed `Version`
  * `fromSpecifierSet`  — `from_specifierset` (fold of `&` from `RangeSpecifier()`, written order)
  * `parseAlts`         — `parse_version_specifier` (`<empty>`, `||`, `SpecifierSet`)
  * `Range.strClauses`, `unionSimplified`, `Spec.str` — `_simplified_form` / `__str__` of
                           range.py:41-84 and union.py:30-82
  Splitting a string into clauses and a clause into (operator, version, `.*`) is packaging's
  parser: modelled by the codec for canonical spellings, not verified.
-/
namespace DepLogic
open LinPre

namespace Ver

/-- `_release_version(epoch, release)`: `Version(f"{epoch}!{release}.0")` -/
def releaseVersion (epoch : Nat) (rel : List Nat) : Ver := { epoch := epoch, release := rel ++ [0] }

/-- `_next_series(version, length)`; `none` = `IndexError` on an empty slice (unreachable:
    packaging rejects `~=N`) -/
def nextSeries (v : Ver) (len : Nat) : Option Ver :=
  match (v.release.take len).reverse with
  | [] => none
  | last :: init => some (releaseVersion v.epoch (init.reverse ++ [last + 1]))

end Ver

/-- `_from_pkg_specifier` -/
def fromClause (c : Clause Ver) : Option (Spec Ver) :=
  match c.op, c.wild with
  | .gt, _ => some (.range { min := some c.ver, incMin := false, text := some c })
  | .ge, _ => some (.range { min := some c.ver, incMin := true, text := some c })
  | .lt, _ => some (.range { max := some c.ver, incMax := false, text := some c })
  | .le, _ => some (.range { max := some c.ver, incMax := true, text := some c })
  | .eq, false => some (.range { min := some c.ver, max := some c.ver, incMin := true, incMax := true, text := some c })
  | .eq, true =>
    (c.ver.nextSeries c.ver.release.length).map fun mx =>
      .range { min := some (Ver.releaseVersion c.ver.epoch c.ver.release), max := some mx,
               incMin := true, incMax := false, text := some c }
  | .compat, _ =>
    (c.ver.nextSeries (c.ver.release.length - 1)).map fun mx =>
      .range { min := some c.ver, max := some mx, incMin := true, incMax := false, text := some c }
  | .ne, false =>
    some (.union [{ max := some c.ver, incMax := false }, { min := some c.ver, incMin := false }] (some c))
  | .ne, true =>
    (c.ver.nextSeries c.ver.release.length).map fun right =>
      .union [{ max := some (Ver.releaseVersion c.ver.epoch c.ver.release), incMax := false },
              { min := some right, incMin := true }] (some c)

/-- `from_specifierset`: `functools.reduce(operator.and_, map(_from_pkg_specifier, spec), RangeSpecifier())` -/
def fromSpecifierSet (cs : List (Clause Ver)) : Option (Spec Ver) :=
  cs.foldl (fun acc c => acc.bind fun a => (fromClause c).map fun s => a.and s) (some (.range {}))

/-- one `||` alternative of a specifier string -/
inductive Alt where
  | empty                             -- the text `<empty>`
  | clauses (cs : List (Clause Ver))  -- a comma separated specifier set (possibly no clause: "")
deriving Repr, DecidableEq

def parseAlt : Alt → Option (Spec Ver)
  | .empty => some .empty
  | .clauses cs => fromSpecifierSet cs

/-- `parse_version_specifier`: `functools.reduce(operator.or_, map(parse_version_specifier, spec.split("||")))` -/
def parseAlts : List Alt → Option (Spec Ver)
  | [] => none
  | a :: rest =>
    rest.foldl (fun acc x => acc.bind fun s => (parseAlt x).bind fun t => s.or t) (parseAlt a)

/-! ### rendering -/

/-- `first_different_index` (utils.py:66-73) -/
def firstDifferentIndex : List Nat → List Nat → Nat
  | a :: as, b :: bs => if a != b then 0 else
      match as, bs with
      | [], _ => 1
      | _, [] => 1
      | _, _ => firstDifferentIndex as bs + 1
  | _, _ => 1

/-- `pad_zeros` -/
def padZeros (l : List Nat) (n : Nat) : List Nat := l ++ List.replicate (n - l.length) 0

def twoClauses (r : Range Ver) (mn mx : Ver) : List (Clause Ver) :=
  [{ op := if r.incMin then .ge else .gt, ver := mn }, { op := if r.incMax then .le else .lt, ver := mx }]

/-- the `~=` detection of `RangeSpecifier._simplified_form` (range.py:59-78), for an
    inclusive-exclusive range with distinct bounds -/
def compatForm (mn mx : Ver) : Bool :=
  let minS := mn.epoch :: mn.release
  let maxS := mx.epoch :: mx.release
  let L := Nat.max minS.length maxS.length
  let minS := padZeros minS L
  let maxS := padZeros maxS L
  let fd := firstDifferentIndex minS maxS
  if fd ≥ L - 1 || fd == 0 then false
  else if maxS.getD fd 0 != minS.getD fd 0 + 1 then false
  else (maxS.drop (fd + 1)).all (· == 0) && !mx.isPrerelease && mn.release.length == fd + 1

/-- `RangeSpecifier.__str__` as a comma separated clause list (range.py:41-84) -/
def Range.strClauses (r : Range Ver) : List (Clause Ver) :=
  match r.text with
  | some c => [c]
  | none =>
    match r.min, r.max with
    | none, none => []
    | none, some mx => [{ op := if r.incMax then .le else .lt, ver := mx }]
    | some mn, none => [{ op := if r.incMin then .ge else .gt, ver := mn }]
    | some mn, some mx =>
      if eqv mn mx then [{ op := .eq, ver := mn }]
      else if !r.incMin || r.incMax then twoClauses r mn mx
      else if compatForm mn mx then [{ op := .compat, ver := mn }]
      else twoClauses r mn mx

/-- `RangeSpecifier.is_simple()`: `_simplified_form is not None` -/
def Range.isSimple (r : Range Ver) : Bool := r.strClauses.length ≤ 1

/-- the `!=X.*` detection of `UnionSpecifier._simplified_form` for `(-inf, lm) ∪ [rm, +inf)`:
    the version `X` if the form applies -/
def wildForm (lm rm : Ver) : Option Ver :=
  let ls := lm.epoch :: lm.release
  let rs' := rm.epoch :: rm.release
  let L := Nat.max ls.length rs'.length
  let ls := padZeros ls L
  let rs' := padZeros rs' L
  let fd := firstDifferentIndex ls rs'
  if 0 < fd && fd < L && rs'.getD fd 0 == ls.getD fd 0 + 1 &&
     ((ls.drop (fd + 1)) ++ (rs'.drop (fd + 1))).all (· == 0) &&
     !((ls.drop (fd + 1)) ++ (rs'.drop (fd + 1))).isEmpty
  then some { epoch := lm.epoch, release := (ls.drop 1).take fd }
  else none

/-- `UnionSpecifier._simplified_form` (union.py:30-82, after the `fix:`) -/
def unionSimplified (rs : List (Range Ver)) (text : Option (Clause Ver)) : Option (Clause Ver) :=
  match text with
  | some c => some c
  | none =>
    match rs with
    | [left, right] =>
      match left.min, right.max, left.max, right.min with
      | none, none, some lm, some rm =>
        if eqv lm rm then some { op := .ne, ver := lm }
        else if !left.incMax && right.incMin then
          if lm.isPrerelease || rm.isPrerelease || lm.isPostrelease || rm.isPostrelease then none
          else (wildForm lm rm).map fun p => { op := .ne, ver := p, wild := true }
        else none
      | _, _, _, _ => none
    | _ => none

/-- rendered text of a specifier, structured -/
inductive SText where
  | empty                                    -- `<empty>`
  | alts (as : List (List (Clause Ver)))     -- `||`-joined comma lists
deriving Repr

/-- `__str__` of every specifier class -/
def Spec.str : Spec Ver → SText
  | .empty => .empty
  | .any => .alts [[]]
  | .range r => .alts [r.strClauses]
  | .union rs t =>
    match unionSimplified rs t with
    | some c => .alts [[c]]
    | none => .alts (rs.map Range.strClauses)

def SText.toAlts : SText → List Alt
  | .empty => [.empty]
  | .alts as => as.map .clauses

/-- `is_simple()` of a version specifier -/
def Spec.isSimple : Spec Ver → Bool
  | .range r => r.isSimple
  | .union rs t => (unionSimplified rs t).isSome
  | _ => false

end DepLogic
