import DepLogic.Model.Range
/-
  Model of `specifiers/union.py`, `specifiers/special.py` and of CPython's binary
  operator dispatch between the specifier classes (`NotImplemented` → reflected
  method).  `ArbitrarySpecifier` (`===`) is *not* modelled: every property excludes
  it or allows it to raise; the harness checks it against the oracle directly.
-/
namespace DepLogic
open LinPre

/-- A version specifier object. `union rs text`: `UnionSpecifier(ranges, simplified)`. -/
inductive Spec (α : Type) where
  | empty                                   -- EmptySpecifier()
  | any                                     -- AnySpecifier()
  | range (r : Range α)                     -- RangeSpecifier(...)
  | union (rs : List (Range α)) (text : Option (Clause α))  -- UnionSpecifier(...)
deriving Repr, DecidableEq

namespace Spec
variable {α : Type} [LinPre α]

/-- `UnionSpecifier._from_ranges` (union.py:84-91). -/
def fromRanges : List (Range α) → Spec α
  | [] => .empty
  | [r] => .range r
  | rs => .union rs none

/-- Interval reading. -/
def mem : Spec α → α → Prop
  | .empty, _ => False
  | .any, _ => True
  | .range r, v => r.mem v
  | .union rs _, v => ∃ r ∈ rs, r.mem v

instance (s : Spec α) (v : α) : Decidable (s.mem v) := by
  cases s <;> unfold mem <;> exact inferInstance

def isEmpty : Spec α → Bool
  | .empty => true
  | _ => false

def isAny : Spec α → Bool
  | .any => true
  | .range r => r.isAny
  | _ => false

/-- `RangeSpecifier.__invert__` (range.py:91-104). -/
def invertRange (r : Range α) : Spec α :=
  match r.min, r.max with
  | none, none => .empty
  | some mn, none => .range { max := some mn, incMax := !r.incMin }
  | none, some mx => .range { min := some mx, incMin := !r.incMax }
  | some mn, some mx =>
    .union [{ max := some mn, incMax := !r.incMin }, { min := some mx, incMin := !r.incMax }] none

/-- the `zip(self.ranges, self.ranges[1:])` gap walk of `UnionSpecifier.__invert__`,
    followed by the optional last piece. -/
def gaps : List (Range α) → List (Range α)
  | [] => []
  | [l] =>
    match l.max with
    | none => []
    | some mx => [{ min := some mx, incMin := !l.incMax }]
  | a :: b :: rest =>
    { min := a.max, incMin := !a.incMax, max := b.min, incMax := !b.incMin } :: gaps (b :: rest)

/-- `if (first := self.ranges[0]).min is not None: to_union.append(...)` -/
def firstPiece (f : Range α) : List (Range α) :=
  match f.min with
  | none => []
  | some mn => [{ max := some mn, incMax := !f.incMin }]

/-- `UnionSpecifier.__invert__` (union.py:103-122).  Note: the middle pieces are built
    with `RangeSpecifier(min=a.max, include_min=not a.include_max, …)`, whose constructor
    raises when `a.max is None`; `gapsOk` says it does not. -/
def invertUnion (rs : List (Range α)) : Spec α :=
  fromRanges ((match rs with | [] => [] | f :: _ => firstPiece f) ++ gaps rs)

/-- `for range in self.ranges` loop of `UnionSpecifier.__or__` (union.py:128-147) with a
    `RangeSpecifier` operand.  `none`: `other | range` came back as a union although
    `can_combine` said yes (the Python would then fail with AttributeError). -/
def orLoop (other : Range α) : List (Range α) → Option (List (Range α))
  | [] => some [other]
  | r :: rest =>
    if r.canCombine other then
      match other.or r with
      | .one x => orLoop x rest
      | .two _ _ => none
    else if other.allowsLower r then some (other :: r :: rest)
    else (orLoop other rest).map (r :: ·)

/-- pairwise product of `UnionSpecifier.__and__` (union.py:138-143). -/
def andProduct (xs ys : List (Range α)) : List (Range α) :=
  xs.flatMap fun a => ys.filterMap fun b => a.and b

/-- `a & b` with CPython dispatch. -/
def and : Spec α → Spec α → Spec α
  | .empty, _ => .empty                       -- EmptySpecifier.__and__
  | .any, o => o                              -- AnySpecifier.__and__
  | .range _, .empty => .empty                -- NotImplemented → EmptySpecifier.__rand__
  | .range r, .any => .range r                -- NotImplemented → AnySpecifier.__rand__
  | .range a, .range b =>
    match a.and b with
    | none => .empty
    | some r => .range r
  | .range a, .union ys yt =>                 -- NotImplemented → UnionSpecifier.__rand__
    if a.isAny then .union ys yt else fromRanges (andProduct ys [a])
  | .union _ _, .empty => .empty
  | .union xs xt, .any => .union xs xt
  | .union xs xt, .range o =>
    if o.isAny then .union xs xt else fromRanges (andProduct xs [o])
  | .union xs _, .union ys _ => fromRanges (andProduct xs ys)

/-- `UnionSpecifier.__or__` with a range operand.  `none` = crash. -/
def unionOrRange (xs : List (Range α)) (o : Range α) : Option (Spec α) :=
  if o.isAny then some (.range o) else (orLoop o xs).map fromRanges

/-- `result | range` in the fold of `UnionSpecifier.__or__(union)`; `result` is whatever
    the previous step returned. -/
def orRange (s : Spec α) (o : Range α) : Option (Spec α) :=
  match s with
  | .empty => some (.range o)
  | .any => some .any
  | .range a =>
    match a.or o with
    | .one r => some (.range r)
    | .two x y => some (.union [x, y] none)
  | .union xs _ => unionOrRange xs o

def orFold (s : Spec α) : List (Range α) → Option (Spec α)
  | [] => some s
  | r :: rest => (orRange s r).bind fun s' => orFold s' rest

/-- `a | b` with CPython dispatch.  `none` = the Python crashes (never, for canonical
    operands: theorem `Spec.or_isSome`). -/
def or : Spec α → Spec α → Option (Spec α)
  | .empty, o => some o
  | .any, _ => some .any
  | .range r, .empty => some (.range r)       -- NotImplemented → EmptySpecifier.__ror__
  | .range _, .any => some .any               -- NotImplemented → AnySpecifier.__ror__
  | .range a, .range b => orRange (.range a) b
  | .range a, .union ys _ => unionOrRange ys a  -- NotImplemented → UnionSpecifier.__ror__
  | .union xs xt, .empty => some (.union xs xt)
  | .union _ _, .any => some .any
  | .union xs _, .range o => unionOrRange xs o
  | .union xs xt, .union ys _ => orFold (.union xs xt) ys

/-- `~a`. -/
def invert : Spec α → Spec α
  | .empty => .any
  | .any => .empty
  | .range r => invertRange r
  | .union rs _ => invertUnion rs

/-- Python `a == b` between specifier objects, with the `NotImplemented` → reflected
    `__eq__` → identity fallback. -/
def beq : Spec α → Spec α → Bool
  | .empty, .empty => true
  | .empty, _ => false
  | .any, o => o.isAny                         -- AnySpecifier.__eq__: other.is_any()
  | .range r, .any => r.isAny                  -- dataclass eq NotImplemented → reflected
  | .range a, .range b => a.beq b
  | .range _, _ => false
  | .union xs _, .union ys _ =>
    xs.length == ys.length && (xs.zip ys).all fun p => p.1.beq p.2
  | .union _ _, _ => false

/-- The canonical shape C05 names.  `sep a b`: `a` lies strictly below `b` and they do
    not touch (`a.max < b.min`, or equal bounds both exclusive). -/
def sep (a b : Range α) : Prop :=
  match a.max, b.min with
  | some x, some y => lt x y ∨ (eqv x y ∧ a.incMax = false ∧ b.incMin = false)
  | _, _ => False

instance (a b : Range α) : Decidable (sep a b) := by
  unfold sep; cases a.max <;> cases b.min <;> exact inferInstance

def Canon : Spec α → Prop
  | .empty => True
  | .any => True
  | .range r => r.WF
  | .union rs _ => 2 ≤ rs.length ∧ (∀ r ∈ rs, r.WF) ∧ rs.Pairwise sep

instance (s : Spec α) : Decidable (Canon s) := by
  cases s <;> unfold Canon <;> exact inferInstance

end Spec
end DepLogic
