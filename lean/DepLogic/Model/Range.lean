import DepLogic.Model.Order
/-
  Model of `src/dep_logic/specifiers/range.py` (class `RangeSpecifier`), function by
  function, same branch order, same operand returned.  Generic in the bound type.
-/
namespace DepLogic
open LinPre

/-- `RangeSpecifier(min, max, include_min, include_max, simplified)`.
    `none` is Python `None` (unbounded).  `text` is the `simplified` field
    (`compare=False`): the clause the range was parsed from, if any. -/
structure Range (α : Type) where
  min : Option α := none
  max : Option α := none
  incMin : Bool := false
  incMax : Bool := false
  text : Option (Clause α) := none
deriving Repr, DecidableEq

namespace Range
variable {α : Type} [LinPre α]

/-- `__post_init__` guard: the constructor raises `InvalidSpecifier` otherwise. -/
def ctorOk (r : Range α) : Bool :=
  !(r.min.isNone && r.incMin) && !(r.max.isNone && r.incMax)

/-- Interval reading of a range ("membership read structurally from the bounds"). -/
def mem (r : Range α) (v : α) : Prop :=
  (match r.min with
   | none => True
   | some m => lt m v ∨ (eqv m v ∧ r.incMin = true)) ∧
  (match r.max with
   | none => True
   | some m => lt v m ∨ (eqv v m ∧ r.incMax = true))

instance (r : Range α) (v : α) : Decidable (r.mem v) := by
  unfold mem; cases r.min <;> cases r.max <;> exact inferInstance

/-- `is_any` -/
def isAny (r : Range α) : Bool := r.min.isNone && r.max.isNone

/-- `allows_lower` (range.py:112-123) -/
def allowsLower (s o : Range α) : Bool :=
  match o.min with
  | none => false
  | some om =>
    match s.min with
    | none => true
    | some sm => decide (lt sm om) || (decide (eqv sm om) && s.incMin && !o.incMin)

/-- `allows_higher` (range.py:125-136) -/
def allowsHigher (s o : Range α) : Bool :=
  match o.max with
  | none => false
  | some om =>
    match s.max with
    | none => true
    | some sm => decide (lt om sm) || (decide (eqv sm om) && s.incMax && !o.incMax)

/-- `is_strictly_lower` (range.py:138-149) -/
def isStrictlyLower (s o : Range α) : Bool :=
  match s.max, o.min with
  | some sm, some om =>
    decide (lt sm om) || (decide (eqv sm om) && (!s.incMax || !o.incMin))
  | _, _ => false

/-- `is_adjacent_to` (range.py:151-157) -/
def isAdjacentTo (s o : Range α) : Bool :=
  match s.max, o.min with
  | some sm, some om => decide (eqv sm om) && (s.incMax != o.incMin)
  | _, _ => false

/-- `is_superset` (range.py:164-183) -/
def isSuperset (s o : Range α) : Bool :=
  let minLower :=
    match s.min with
    | none => true
    | some sm =>
      match o.min with
      | none => false
      | some om => decide (lt sm om) || (decide (eqv sm om) && !(!s.incMin && o.incMin))
  let maxHigher :=
    match s.max with
    | none => true
    | some sm =>
      match o.max with
      | none => false
      | some om => decide (lt om sm) || (decide (eqv sm om) && !(!s.incMax && o.incMax))
  minLower && maxHigher

/-- `can_combine` (range.py:188-193) -/
def canCombine (s o : Range α) : Bool :=
  if s.allowsLower o then !s.isStrictlyLower o || s.isAdjacentTo o
  else !o.isStrictlyLower s || o.isAdjacentTo s

/-- `__and__` on two ranges (range.py:195-227); `none` is `EmptySpecifier()`. -/
def and (s o : Range α) : Option (Range α) :=
  if s.isSuperset o then some o
  else if o.isSuperset s then some s
  else
    let lowerFirst := s.allowsLower o
    if (if lowerFirst then s.isStrictlyLower o else o.isStrictlyLower s) then none
    else
      let (mn, imn) := if lowerFirst then (o.min, o.incMin) else (s.min, s.incMin)
      let (mx, imx) := if s.allowsHigher o then (o.max, o.incMax) else (s.max, s.incMax)
      some { min := mn, max := mx, incMin := imn, incMax := imx, text := none }

/-- Result of `RangeSpecifier.__or__`: one range or `UnionSpecifier((a, b))`. -/
inductive OrRes (α : Type) where
  | one (r : Range α)
  | two (a b : Range α)
deriving Repr, DecidableEq

/-- `__or__` on two ranges (range.py:229-263). -/
def or (s o : Range α) : OrRes α :=
  if s.isSuperset o then .one s
  else if o.isSuperset s then .one o
  else
    let lowerFirst := s.allowsLower o
    if lowerFirst && (s.isStrictlyLower o && !s.isAdjacentTo o) then .two s o
    else if !lowerFirst && (o.isStrictlyLower s && !o.isAdjacentTo s) then .two o s
    else
      let (mn, imn) := if lowerFirst then (s.min, s.incMin) else (o.min, o.incMin)
      let (mx, imx) := if s.allowsHigher o then (s.max, s.incMax) else (o.max, o.incMax)
      .one { min := mn, max := mx, incMin := imn, incMax := imx, text := none }

/-- dataclass `__eq__` on two ranges: `(min, max, include_min, include_max)` tuples,
    `Version.__eq__` is key equality, `simplified` is `compare=False`. -/
def beq (a b : Range α) : Bool :=
  (match a.min, b.min with
   | none, none => true
   | some x, some y => decide (eqv x y)
   | _, _ => false) &&
  (match a.max, b.max with
   | none, none => true
   | some x, some y => decide (eqv x y)
   | _, _ => false) &&
  (a.incMin == b.incMin) && (a.incMax == b.incMax)

/-- Non-degenerate: admits at least its own bounds' neighbourhood.  Every range the
    library constructs from a parsed clause or from an operator satisfies this. -/
def WF (r : Range α) : Prop :=
  r.ctorOk = true ∧
  match r.min, r.max with
  | some a, some b => lt a b ∨ (eqv a b ∧ r.incMin = true ∧ r.incMax = true)
  | _, _ => True

instance (r : Range α) : Decidable r.WF := by
  unfold WF; cases r.min <;> cases r.max <;> exact inferInstance

end Range
end DepLogic
