import DepLogic.Model.Order
/-
  Public PEP 440 versions as `packaging.version.Version` holds them, and their order
  (`Version._key`, packaging/version.py `_cmpkey`).  Local versions (`+x`) are outside
  every specifier claim and are not modelled.
-/
namespace DepLogic

inductive PreKind where
  | a | b | rc
deriving DecidableEq, Repr

def PreKind.rank : PreKind → Nat
  | .a => 1 | .b => 2 | .rc => 3

def PreKind.str : PreKind → String
  | .a => "a" | .b => "b" | .rc => "rc"

/-- `Version(epoch, release, pre, post, dev)`; `release` as written (trailing zeros kept:
    `1.0` and `1.0.0` are different values that compare equal). -/
structure Ver where
  epoch : Nat := 0
  release : List Nat
  pre : Option (PreKind × Nat) := none
  post : Option Nat := none
  dev : Option Nat := none
deriving DecidableEq, Repr

namespace Ver

/-- drop trailing zeros (`_cmpkey`: `reversed(dropwhile(lambda x: x == 0, reversed(release)))`) -/
def stripZeros (l : List Nat) : List Nat := (l.reverse.dropWhile (· == 0)).reverse

/-- `_cmpkey` flattened into one list compared lexicographically.  Release components are
    shifted by one and terminated by `0`, so that a shorter release sorts first and the
    fixed-length suffix (pre, post, dev ranks) is compared only for equal releases –
    exactly Python's tuple comparison of `(epoch, release, pre, post, dev)`.
    pre: `-inf` (dev release without pre/post) ↦ `[0,0]`, a/b/rc n ↦ `[1..3,n]`, `+inf` ↦ `[4,0]`;
    post: `-inf` ↦ `[0]`, n ↦ `[n+1]`;  dev: n ↦ `[0,n]`, `+inf` ↦ `[1,0]`. -/
def key (v : Ver) : List Nat :=
  [v.epoch] ++ (stripZeros v.release).map (· + 1) ++ [0] ++
  (match v.pre, v.post, v.dev with
   | none, none, some _ => [0, 0]
   | none, _, _ => [4, 0]
   | some (k, n), _, _ => [k.rank, n]) ++
  (match v.post with
   | none => [0]
   | some n => [n + 1]) ++
  (match v.dev with
   | none => [1, 0]
   | some n => [0, n])

instance : LinPre Ver where
  le a b := a.key ≤ b.key
  decLe := fun a b => inferInstanceAs (Decidable (a.key ≤ b.key))
  le_refl a := List.le_refl a.key
  le_trans _ _ _ := List.le_trans
  le_total a b := List.le_total a.key b.key

/-- `Version.is_prerelease`: `dev is not None or pre is not None` -/
def isPrerelease (v : Ver) : Bool := v.dev.isSome || v.pre.isSome
def isPostrelease (v : Ver) : Bool := v.post.isSome
/-- final release: `N(.N)*` with no suffix and epoch written or not -/
def isFinal (v : Ver) : Bool := v.pre.isNone && v.post.isNone && v.dev.isNone

/-- `str(Version)` -/
def str (v : Ver) : String :=
  (if v.epoch != 0 then toString v.epoch ++ "!" else "") ++
  ".".intercalate (v.release.map toString) ++
  (match v.pre with | none => "" | some (k, n) => k.str ++ toString n) ++
  (match v.post with | none => "" | some n => ".post" ++ toString n) ++
  (match v.dev with | none => "" | some n => ".dev" ++ toString n)

end Ver
end DepLogic
