import DepLogic.Model.Marker
/-
  Line-protocol text for markers (trusted correspondence machinery).
  Strings are percent-encoded so that tokens can be separated by single blanks.
-/
namespace DepLogic
namespace MarkerCodec
open M

def hexDigit (n : Nat) : Char := if n < 10 then Char.ofNat (48 + n) else Char.ofNat (55 + n)

def needsEsc (c : Char) : Bool :=
  c == '%' || c == ' ' || c == ':' || c == '[' || c == ']' || c == '(' || c == ')' || c == ',' ||
  c == '\t' || c == ';' || c == '=' || c == '{' || c == '}' || c == '"' || c.toNat < 32 || c.toNat > 126

def enc (s : String) : String :=
  if s.isEmpty then "%e" else
  String.ofList (s.toList.flatMap fun c =>
    if needsEsc c && c.toNat < 256 then ['%', hexDigit (c.toNat / 16), hexDigit (c.toNat % 16)] else [c])

def hexVal (c : Char) : Nat :=
  if c.isDigit then c.toNat - 48 else if 'A' ≤ c && c ≤ 'F' then c.toNat - 55 else 0

def dec (s : String) : String :=
  if s == "%e" then "" else
  let rec go : List Char → List Char
    | '%' :: a :: b :: rest => Char.ofNat (hexVal a * 16 + hexVal b) :: go rest
    | c :: rest => c :: go rest
    | [] => []
  String.ofList (go s.toList)

mutual
def showM : M → String
  | .any => "any"
  | .empty => "empty"
  | .expr a => "(a " ++ enc a.name ++ " " ++ enc a.op.str ++ " " ++ enc a.value ++ " " ++ (if a.reversed then "t" else "f") ++ ")"
  | .eqU n vs => "(eq " ++ enc n ++ " " ++ " ".intercalate (vs.map enc) ++ ")"
  | .neM n vs => "(ne " ++ enc n ++ " " ++ " ".intercalate (vs.map enc) ++ ")"
  | .multi ms => "(and" ++ showList ms ++ ")"
  | .union ms => "(or" ++ showList ms ++ ")"
def showList : List M → String
  | [] => ""
  | m :: ms => " " ++ showM m ++ showList ms
end

mutual
/-- packaging's parsed list in the protocol's token syntax (harness `enc_ast`) -/
def showItem : PItem → String
  | .atom v l o r => "a:" ++ (if v then "t" else "f") ++ ":" ++ enc l ++ ":" ++ enc o ++ ":" ++ enc r
  | .group its => "[" ++ showItems its ++ " ]"
  | .and_ => "and"
  | .or_ => "or"
def showItems : List PItem → String
  | [] => ""
  | it :: its => " " ++ showItem it ++ showItems its
end

/-- expressions over parsed leaves -/
inductive Expr where
  | leaf (p : PItem)
  | and (a b : Expr)
  | or (a b : Expr)
  | only (names : List String) (a : Expr)
  | exclude (name : String) (a : Expr)
  | rawMulti (xs : List Expr)     -- `MultiMarker(*xs)`: the constructor, not `of`
  | rawUnion (xs : List Expr)     -- `MarkerUnion(*xs)`
  | litEmpty
  | litAny

/-- tokens → PItem group; `[ item item … ]` -/
partial def parseItems (toks : List String) (acc : List PItem) : Option (List PItem × List String) :=
  match toks with
  | "]" :: rest => some (acc.reverse, rest)
  | "[" :: rest =>
    match parseItems rest [] with
    | some (items, rest') => parseItems rest' (.group items :: acc)
    | none => none
  | "and" :: rest => parseItems rest (.and_ :: acc)
  | "or" :: rest => parseItems rest (.or_ :: acc)
  | t :: rest =>
    match t.splitOn ":" with
    | ["a", v, lhs, op, rhs] => parseItems rest (.atom (v == "t") (dec lhs) (dec op) (dec rhs) :: acc)
    | _ => none
  | [] => none

mutual
partial def parseExprs (n : Nat) (toks : List String) (acc : List Expr) : Option (List Expr × List String) :=
  match n with
  | 0 => some (acc.reverse, toks)
  | n + 1 => (parseExpr toks).bind fun (x, r) => parseExprs n r (x :: acc)
partial def parseExpr (toks : List String) : Option (Expr × List String) :=
  match toks with
  | "E" :: rest => some (.litEmpty, rest)
  | "A" :: rest => some (.litAny, rest)
  | "M" :: n :: rest => n.toNat?.bind fun k => (parseExprs k rest []).map fun (xs, r) => (.rawMulti xs, r)
  | "U" :: n :: rest => n.toNat?.bind fun k => (parseExprs k rest []).map fun (xs, r) => (.rawUnion xs, r)
  | "P" :: "[" :: rest =>
    (parseItems rest []).map fun (items, rest') => (.leaf (.group items), rest')
  | "&" :: rest =>
    (parseExpr rest).bind fun (a, r1) => (parseExpr r1).map fun (b, r2) => (.and a b, r2)
  | "|" :: rest =>
    (parseExpr rest).bind fun (a, r1) => (parseExpr r1).map fun (b, r2) => (.or a b, r2)
  | "only" :: names :: rest =>
    (parseExpr rest).map fun (a, r) => (.only ((names.splitOn ",").map dec) a, r)
  | "exclude" :: name :: rest =>
    (parseExpr rest).map fun (a, r) => (.exclude (dec name) a, r)
  | _ => none
end

mutual
def Expr.run (fuel : Nat) : Expr → Option M
  | .leaf p => build fuel p
  | .and a b => (a.run fuel).bind fun x => (b.run fuel).map fun y => M.and fuel x y
  | .or a b => (a.run fuel).bind fun x => (b.run fuel).map fun y => M.or fuel x y
  | .only ns a => (a.run fuel).map fun x => M.only fuel x ns
  | .exclude n a => (a.run fuel).map fun x => M.exclude fuel x n
  | .rawMulti xs => (Expr.runList fuel xs).map (mkMulti fuel)
  | .rawUnion xs => (Expr.runList fuel xs).map (mkUnion fuel)
  | .litEmpty => some .empty
  | .litAny => some .any
def Expr.runList (fuel : Nat) : List Expr → Option (List M)
  | [] => some []
  | x :: xs => (x.run fuel).bind fun m => (Expr.runList fuel xs).map (m :: ·)
end

/-- `k=v;k={a,b}` -/
def parseEnv (s : String) : Env :=
  let pairs := (s.splitOn ";").filterMap fun kv =>
    match kv.splitOn "=" with
    | [k, v] =>
      if v.startsWith "{" then
        let inner := ((v.drop 1).dropEnd 1).toString
        some (dec k, EnvVal.set (if inner.isEmpty then [] else (inner.splitOn ",").map dec))
      else some (dec k, EnvVal.str (dec v))
    | _ => none
  fun k => (pairs.find? fun p => p.1 == k).map (·.2)

end MarkerCodec
end DepLogic
