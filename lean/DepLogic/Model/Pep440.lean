import DepLogic.Model.SpecText
/-
  Reference semantics of one PEP 440 clause on a *final release* candidate, written from
  PEP 440 / `packaging.specifiers` independently of `fromClause`: ordered comparison by
  version key, `==V`/`!=V` by key equality, `==V.*`/`!=V.*` by release-prefix matching,
  `~=V` as `>=V, ==V[:-1].*`.  (For pre/post/dev candidates PEP 440 has extra exclusion
  rules; C04 is stated for final releases, where they never fire.)
-/
namespace DepLogic
open LinPre
namespace Pep440

/-- does `v`'s release, zero-padded, start with `pre` ? -/
def prefixMatch (pre v : List Nat) : Bool :=
  (padZeros v pre.length).take pre.length == pre

/-- `==V.*` on a final candidate: same epoch, release prefix match -/
def wildMatch (p v : Ver) : Bool :=
  p.epoch == v.epoch && prefixMatch p.release v.release

/-- `none`: the clause is not a valid PEP 440 clause (`~=N`) -/
def matchesFinal (c : Clause Ver) (v : Ver) : Option Bool :=
  match c.op, c.wild with
  | .gt, _ => some (decide (lt c.ver v))
  | .ge, _ => some (decide (le c.ver v))
  | .lt, _ => some (decide (lt v c.ver))
  | .le, _ => some (decide (le v c.ver))
  | .eq, false => some (decide (eqv c.ver v))
  | .ne, false => some (!decide (eqv c.ver v))
  | .eq, true => some (wildMatch c.ver v)
  | .ne, true => some (!wildMatch c.ver v)
  | .compat, _ =>
    if c.ver.release.length < 2 then none
    else some (decide (le c.ver v) &&
               wildMatch { epoch := c.ver.epoch, release := c.ver.release.dropLast } v)


/-- all clauses of a comma list match (`SpecifierSet(text).contains(v)` on a final `v`);
    `none` if a clause is not valid PEP 440 -/
def allMatch (cs : List (Clause Ver)) (v : Ver) : Option Bool :=
  cs.foldl (fun acc c => acc.bind fun a => (matchesFinal c v).map fun b => a && b) (some true)

end Pep440

/-- `RangeSpecifier.contains`: `SpecifierSet(str(self)).contains(version)` -/
def Range.containsFinal (r : Range Ver) (v : Ver) : Option Bool := Pep440.allMatch r.strClauses v

/-- `v in spec` for a final release `v`: `__contains__` of special.py (after the `fix:`),
    `RangeSpecifier.contains`, `UnionSpecifier.contains` (any member range) -/
def Spec.containsFinal : Spec Ver → Ver → Option Bool
  | .empty, _ => some false
  | .any, _ => some true
  | .range r, v => r.containsFinal v
  | .union rs _, v =>
    rs.foldl (fun acc r => acc.bind fun a => (r.containsFinal v).map fun b => a || b) (some false)

end DepLogic
