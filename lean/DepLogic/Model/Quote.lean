/-
  Marker string literals: how dep-logic writes one (`_quote`, markers/single.py) and how packaging reads one
  (tokenizer regex `('[^']*')|("[^"]*")`, then `ast.literal_eval` of the token as Python source).
  Character lists throughout, so that the round trip can be proved (`C07.quote_roundtrip`).
-/
namespace DepLogic
namespace Quote

def nul : Char := Char.ofNat 0

/-- what `_quote` writes for one character; `dq`: the literal is written in double quotes -/
def escChar (dq : Bool) (c : Char) : List Char :=
  if c = '\\' then ['\\', '\\']
  else if c = '\n' then ['\\', 'n']
  else if c = '\r' then ['\\', 'r']
  else if c = nul then ['\\', 'u', '0', '0', '0', '0']     -- the `fix:` for D36 (a Lean `Char` is never a surrogate)
  else if dq && c = '"' then ['\\', 'x', '2', '2']
  else [c]

/-- `_quote(value)`: single quotes around a value that contains a double quote and no single quote,
    double quotes (and `\x22`) otherwise -/
def quoteL (v : List Char) : List Char :=
  if v.contains '"' && !v.contains '\'' then '\'' :: v.flatMap (escChar false) ++ ['\'']
  else '"' :: v.flatMap (escChar true) ++ ['"']

def hexVal? (c : Char) : Option Nat :=
  if '0' ≤ c ∧ c ≤ '9' then some (c.toNat - 48)
  else if 'a' ≤ c ∧ c ≤ 'f' then some (c.toNat - 87)
  else if 'A' ≤ c ∧ c ≤ 'F' then some (c.toNat - 55)
  else none

def consO (c : Char) (r : Option (List Char)) : Option (List Char) := r.map (c :: ·)

/-- reader state: plain text, just after a backslash, or inside `\\xHH` / `\\uHHHH` with `left` digits to go -/
inductive St where
  | normal
  | esc
  | hex (left acc : Nat)
deriving DecidableEq, Repr

/-- one character of the body of a Python string literal delimited by `q` (not raw, not triple-quoted): the next
    state and the character produced, if any.  `none`: SyntaxError / ValueError (a raw line break, a raw NUL, the
    delimiter, bad hex digits), a lone surrogate (not a Lean `Char`), or an escape this model does not cover (octal,
    `\\N{..}`, `\\U`, and the unknown escapes Python keeps verbatim with a warning) -/
def step (q : Char) : St → Char → Option (St × Option Char)
  | .normal, c =>
    if c = '\\' then some (.esc, none)
    else if c = q || c = '\n' || c = '\r' || c = nul then none
    else some (.normal, some c)
  | .esc, e =>
    if e = '\\' then some (.normal, some '\\')
    else if e = 'n' then some (.normal, some '\n')
    else if e = 'r' then some (.normal, some '\r')
    else if e = 't' then some (.normal, some '\t')
    else if e = '\'' then some (.normal, some '\'')
    else if e = '"' then some (.normal, some '"')
    else if e = 'x' then some (.hex 2 0, none)
    else if e = 'u' then some (.hex 4 0, none)
    else none
  | .hex left acc, c =>
    match hexVal? c with
    | none => none
    | some d =>
      let n := 16 * acc + d
      if left ≤ 1 then
        (if 0xD800 ≤ n ∧ n ≤ 0xDFFF then none else some (.normal, some (Char.ofNat n)))
      else some (.hex (left - 1) n, none)

/-- the body of the literal -> its value; a dangling backslash or unfinished escape is an error -/
def run (q : Char) : St → List Char → Option (List Char)
  | st, [] => if st = .normal then some [] else none
  | st, c :: r =>
    match step q st c with
    | none => none
    | some (st', some o) => consO o (run q st' r)
    | some (st', none) => run q st' r

def pyUnescape (q : Char) (body : List Char) : Option (List Char) := run q .normal body

/-- packaging's QUOTED_STRING token at the head of `s`: (delimiter, body, what follows the token) -/
def scanQuoted (s : List Char) : Option (Char × List Char × List Char) :=
  match s with
  | q :: r =>
    if q = '"' || q = '\'' then
      match r.dropWhile (· != q) with
      | _ :: rest => some (q, r.takeWhile (· != q), rest)
      | [] => none
    else none
  | [] => none

/-- the value packaging reads from the literal at the head of `s`, and the rest of the text -/
def readLiteral (s : List Char) : Option (List Char × List Char) :=
  match scanQuoted s with
  | some (q, body, rest) => (pyUnescape q body).map fun v => (v, rest)
  | none => none

end Quote
end DepLogic
