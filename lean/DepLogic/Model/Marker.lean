import DepLogic.Model.Quote
import DepLogic.Model.SpecParse
import DepLogic.Model.Generic
import DepLogic.Model.Pep440
/-
  Model of `src/dep_logic/markers/*` and the marker part of `src/dep_logic/utils.py`
  (after the `fix:` commits recorded in known_findings.json).

  * atoms (`MarkerExpression`), grouped atoms (`EqualityMarkerUnion`, `InequalityMultiMarker`),
    their specifier view (`_get_specifier`), `from_specifier`, `_merge_single_markers`,
    `_merge_python_version_single_markers`, `_normalize_python_version_specifier`;
  * the engine: `flatten_items`, `MultiMarker.of`, `MarkerUnion.of`, `union_simplify`,
    `intersect_simplify`, `cnf`, `dnf`, `intersection`, `union`, `&`/`|` dispatch, `only`,
    `exclude`, `without_extras`, `__str__` — one mutual block, structurally recursive on a
    fuel argument (every call passes `fuel`, the callee matches on `fuel + 1`);
  * `_build_markers` on packaging's parsed marker list;
  * `_evaluate`.

  The specifier of an atom is computed when the atom is built (`Atom.spec`); the Python
  computes it lazily.  Atoms whose specifier does not exist (bad version text, `===`, `~=`
  on a string variable) are outside the model: `build` answers `none`.
-/
namespace DepLogic

inductive MOp where
  | lt | le | eq | ne | ge | gt | compat | in_ | notIn
deriving DecidableEq, Repr

namespace MOp
def str : MOp → String
  | lt => "<" | le => "<=" | eq => "==" | ne => "!=" | ge => ">=" | gt => ">" | compat => "~="
  | in_ => "in" | notIn => "not in"

def ofString? : String → Option MOp
  | "<" => some lt | "<=" => some le | "==" => some eq | "!=" => some ne | ">=" => some ge | ">" => some gt
  | "~=" => some compat | "in" => some in_ | "not in" => some notIn
  | _ => none

/-- `get_reflect_op` -/
def reflect : MOp → MOp
  | lt => gt | le => ge | gt => lt | ge => le | o => o

def ofCOp : COp → MOp
  | .gt => gt | .ge => ge | .lt => lt | .le => le | .eq => eq | .ne => ne | .compat => compat

/-- as a string-specifier operator (`GenericSpecifier._op_map`); `~=` is not one -/
def toGOp? (reversed : Bool) : MOp → Option GOp
  | eq => some .eq | ne => some .ne
  | in_ => some (if reversed then .contains else .in_)
  | notIn => some (if reversed then .notContains else .notIn)
  | gt => some .gt | ge => some .ge | lt => some .lt | le => some .le
  | compat => none
end MOp

/-- the specifier view of an atom: a version specifier (also `EmptySpecifier`/`AnySpecifier`,
    whatever the variable) or a `GenericSpecifier` -/
inductive ASpec where
  | ver (s : Spec Ver)
  | gen (g : GSpec)
deriving Repr, DecidableEq

namespace ASpec
def isAny : ASpec → Bool
  | .ver s => s.isAny
  | .gen _ => false
def isEmpty : ASpec → Bool
  | .ver s => s.isEmpty
  | .gen _ => false

/-- Python `==` between specifier objects of possibly different classes -/
def beq : ASpec → ASpec → Bool
  | .ver a, .ver b => a.beq b
  | .gen a, .gen b => decide (a = b)
  | .ver .any, .gen _ => false     -- AnySpecifier.__eq__: other.is_any()
  | _, _ => false

def ofGRes : GRes → ASpec
  | .empty => .ver .empty
  | .any => .ver .any
  | .spec g => .gen g

/-- `value in specifier` as `EqualityMarkerUnion`/`InequalityMultiMarker` ask it (string atoms) -/
def containsStr : ASpec → String → Bool
  | .gen g, v => g.contains v
  | .ver .empty, _ => false
  | .ver .any, _ => true
  | .ver _, _ => false            -- not reached: grouped atoms only exist for string variables
end ASpec

/-- `MarkerExpression(name, op, value, reversed, _specifier)`; `spec` is `.specifier` -/
structure Atom where
  name : String
  op : MOp
  value : String
  reversed : Bool := false
  spec : ASpec
deriving Repr

/-- dataclass `__eq__` of `MarkerExpression`: (name, op, value, reversed); `_specifier` is `compare=False` -/
def Atom.beq (a b : Atom) : Bool :=
  a.name == b.name && a.op == b.op && a.value == b.value && a.reversed == b.reversed

def versionLikeNames : List String := ["python_version", "python_full_version", "platform_release"]
/-- `MARKERS_REQUIRING_VERSION` of the `_evaluate` fix -/
def versionEvalNames : List String :=
  ["implementation_version", "platform_release", "python_full_version", "python_version"]

def trimS (s : String) : String := String.ofList (SpecParse.trimL s.toList)

/-- `parse_version_specifier(text)` restricted to what the model decodes; crashes of the
    operators are folded into `none` -/
def parseSpecOpt (text : String) : Option (Spec Ver) :=
  match SpecParse.parseSpecString text with
  | some (some s) => some s
  | _ => none

/-- `MarkerExpression._get_specifier` (single.py:126-144) -/
def getSpecifier (name : String) (op : MOp) (value : String) (reversed : Bool) : Option ASpec :=
  if !versionLikeNames.contains name then
    (op.toGOp? reversed).map fun g => .gen ⟨g, value⟩
  else if op == .in_ || op == .notIn then
    let parts := (value.splitOn ",").map fun part =>
      let splitted := (trimS part).splitOn "."
      let splitted :=
        if splitted.length < 3 then
          if name == "python_version" then splitted ++ ["*"] else splitted ++ ["0", "0"]
        else splitted
      (if op == .in_ then "==" else "!=") ++ ".".intercalate splitted
    (parseSpecOpt ((if op == .in_ then "||" else ",").intercalate parts)).map .ver
  else
    (parseSpecOpt (op.str ++ value)).map .ver

def mkAtom (name : String) (op : MOp) (value : String) (reversed : Bool) : Option Atom :=
  (getSpecifier name op value reversed).map fun s => ⟨name, op, value, reversed, s⟩

/-- markers.  `eqU`: `EqualityMarkerUnion(name, OrderedSet(values))`; `neM`: `InequalityMultiMarker` -/
inductive M where
  | any
  | empty
  | expr (a : Atom)
  | eqU (name : String) (vals : List String)
  | neM (name : String) (vals : List String)
  | multi (ms : List M)
  | union (ms : List M)
deriving Repr

namespace M

def isAny : M → Bool | .any => true | _ => false
def isEmpty : M → Bool | .empty => true | _ => false
def isSingle : M → Bool | .expr _ | .eqU _ _ | .neM _ _ => true | _ => false
def isMulti : M → Bool | .multi _ => true | _ => false
def isUnion : M → Bool | .union _ => true | _ => false
def singleName? : M → Option String
  | .expr a => some a.name | .eqU n _ => some n | .neM n _ => some n | _ => none

/-- `OrderedSet.__eq__` (after the `fix:`): same elements in the same order -/
def setEq (a b : List String) : Bool := a == b

mutual
/-- Python `==` between marker objects -/
def beq : M → M → Bool
  | .any, .any => true
  | .empty, .empty => true
  | .expr a, .expr b => a.beq b
  | .eqU n a, .eqU m b => n == m && setEq a b
  | .neM n a, .neM m b => n == m && setEq a b
  | .multi a, .multi b => beqList a b
  | .union a, .union b => beqList a b
  | _, _ => false
def beqList : List M → List M → Bool
  | [], [] => true
  | a :: as, b :: bs => beq a b && beqList as bs
  | _, _ => false
end

/-- `x in list` with Python `==` -/
def memB (x : M) (l : List M) : Bool := l.any (beq x)

/-- `tuple(sum(c) for c in zip(*xs))`: `zip` stops at the shortest tuple, and of no tuples is empty -/
def zipSum : List (List Nat) → List Nat
  | [] => []
  | [x] => x
  | x :: rest => List.zipWith (· + ·) x (zipSum rest)

mutual
/-- `complexity` (a tuple; `()` for a compound without children or containing one) -/
def complexity : M → List Nat
  | .eqU _ vs => [vs.length, 1]
  | .neM _ vs => [vs.length, 1]
  | .multi ms => zipSum (complexityList ms)
  | .union ms => zipSum (complexityList ms)
  | _ => [1, 1]
def complexityList : List M → List (List Nat)
  | [] => []
  | m :: ms => complexity m :: complexityList ms
end

/-- Python's `<` on tuples of ints -/
def cLess : List Nat → List Nat → Bool
  | [], [] => false
  | [], _ :: _ => true
  | _ :: _, [] => false
  | a :: as, b :: bs => a < b || (a == b && cLess as bs)

/-- `OrderedSet(iterable)`: first occurrences -/
def dedupS : List String → List String
  | [] => []
  | x :: xs => let r := dedupS xs; x :: r.filter (· != x)

/-- `EqualityMarkerUnion.replace` -/
def eqReplace (name : String) (vals : List String) : M :=
  match vals with
  | [] => .empty
  | [v] => .expr ⟨name, .eq, v, false, .gen ⟨.eq, v⟩⟩
  | _ => .eqU name vals

/-- `InequalityMultiMarker.replace` -/
def neReplace (name : String) (vals : List String) : M :=
  match vals with
  | [] => .any
  | [v] => .expr ⟨name, .ne, v, false, .gen ⟨.ne, v⟩⟩
  | _ => .neM name vals

/-! ### atoms: specifier → atom, merging -/

/-- the one clause a simple specifier renders as (`str(specifier)` of `from_specifier`) -/
def fsClause? : Spec Ver → Option (Clause Ver)
  | .range r => r.strClauses.head?
  | .union rs t => unionSimplified rs t
  | _ => none

/-- `python_full_version` operands `X` / `X.Y` are padded to `X.Y.0` — never for `~=`, wildcards,
    or versions with an epoch or a pre/post/dev segment (the `fix:` for D10) -/
def fsPad (name : String) (c : Clause Ver) : Bool :=
  name == "python_full_version" && c.op != .compat && !c.wild && c.ver.epoch == 0 &&
    c.ver.isFinal && c.ver.release.length < 3

/-- the operand text of the new atom -/
def fsText (name : String) (c : Clause Ver) : String :=
  if fsPad name c then ".".intercalate ((c.ver.release ++ List.replicate (3 - c.ver.release.length) 0).map toString)
  else c.ver.str ++ (if c.wild then ".*" else "")

/-- `MarkerExpression.from_specifier` (single.py:102-124, after the `fix:`); `none` = `None` -/
def fromSpecifier (name : String) (s : ASpec) : Option M :=
  if s.isAny then some .any
  else if s.isEmpty then some .empty
  else
    match s with
    | .gen g =>
      -- MarkerExpression(name, specifier.op, specifier.value)
      (match g.op with
       | .eq => some MOp.eq | .ne => some .ne | .in_ => some .in_ | .notIn => some .notIn
       | .gt => some .gt | .ge => some .ge | .lt => some .lt | .le => some .le
       | _ => none).bind fun op => (mkAtom name op g.value false).map .expr
    | .ver sp =>
      if !sp.isSimple then none
      else
        (fsClause? sp).bind fun c =>
          -- the new atom's specifier is derived from its own fields (the `fix:` for C10)
          (mkAtom name (MOp.ofCOp c.op) (fsText name c) false).map .expr

/-- `spec1 & spec2` / `spec1 | spec2` on the specifier views; `none` = NotImplementedError (or a
    class mix that cannot occur for two atoms of one variable) -/
def aspecAnd : ASpec → ASpec → Option ASpec
  | .gen a, .gen b => (a.and b).map ASpec.ofGRes
  | .ver a, .ver b => some (.ver (a.and b))
  | _, _ => none
def aspecOr : ASpec → ASpec → Option ASpec
  | .gen a, .gen b => (a.or b).map ASpec.ofGRes
  | .ver a, .ver b => (a.or b).map .ver
  | _, _ => none

/-- `value.split(".")` (on characters, so that it computes inside the kernel) -/
def splitDots (s : String) : List String := (SpecParse.splitOnChar '.' s.toList).map String.ofList

/-- `while len(splitted) > 2 and splitted[-1].isdigit() and int(splitted[-1]) == 0: splitted.pop()` -/
def dropZeroSegs (l : List String) : List String :=
  let rec go : List String → Nat → List String
    | r, 0 => r
    | [], _ => []
    | x :: rest, n + 1 =>
      if SpecParse.natOfDigits? x.toList == some 0 then go rest n else x :: rest
  (go l.reverse (l.length - 2)).reverse

/-- `splitted[-1] = str(int(splitted[-1]) + 1)` -/
def pvBump (l : List String) : Option (List String) :=
  match l.reverse with
  | [] => none
  | last :: init => (SpecParse.natOfDigits? last.toList).map fun n => (toString (n + 1) :: init).reverse

/-- the operator and operand segments of the normalised clause -/
def pvTarget (op : MOp) (splitted : List String) : Option (MOp × List String) :=
  match op with
  | .eq | .ne => some (op, splitted ++ ["*"])
  | .gt => (pvBump splitted).map fun l => (MOp.ge, l)
  | .le => (pvBump splitted).map fun l => (MOp.lt, l)
  | o => some (o, splitted)

/-- `_normalize_python_version_specifier` (single.py, after the `fix:`s); `none` = `None`: the operand cannot be
    re-read as a python_full_version constraint and the atom stays unmerged -/
def normalizePythonVersion (a : Atom) : Option ASpec :=
  if a.op == .in_ || a.op == .notIn then some a.spec
  else
    let s0 := (splitDots a.value).map trimS
    if s0.contains "*" then (if s0.length ≤ 3 then some a.spec else none)
    else
    -- the `fix:`: python_version has two components, "3.8.0" compares like "3.8" (not for `~=`)
    let s1 := if a.op != .compat then dropZeroSegs s0 else s0
    -- the `fix:`: more than two significant components, or a pre/post/dev segment: not a full-version constraint
    if s1.length > 2 || !(s1.all fun p => (SpecParse.natOfDigits? p.toList).isSome) then none
    else
      let s2 := if s1.length == 1 && a.op != .compat then s1 ++ ["0"] else s1
      (pvTarget a.op s2).bind fun (o, l) => (parseSpecOpt (o.str ++ ".".intercalate l)).map .ver

/-- `_merge_python_version_single_markers`; `isAnd`: merge_class is MultiMarker -/
def mergePythonVersion (m1 m2 : Atom) (isAnd : Bool) : Option M :=
  let (vm, fm) := if m1.name == "python_version" then (m1, m2) else (m2, m1)
  match normalizePythonVersion vm with
  | none => none
  | some ns =>
    match (if isAnd then aspecAnd ns fm.spec else aspecOr ns fm.spec) with
    | none => none
    | some merged =>
      if merged.beq ns then some (.expr vm)
      else fromSpecifier "python_full_version" merged

/-- `_has_exact_specifier` (after the `fix:`): a literal-on-the-left version atom is evaluated as
    `Specifier(op + env value).contains(literal)`, which is the mirrored forward comparison only for
    the six ordering/equality operators on a plain release literal -/
def _root_.DepLogic.Atom.exactView (a : Atom) : Bool :=
  -- the `fix:` for D24: implementation_version is compared as a version by `_evaluate` but as a string by its
  -- specifier view (it is not in `_VERSION_LIKE_MARKER_NAME`)
  if versionEvalNames.contains a.name && !versionLikeNames.contains a.name then false
  else if !versionLikeNames.contains a.name then true
  -- the `fix:` for D35: the operand of a comparison is one version, not a specifier expression
  else if a.op != .in_ && a.op != .notIn && (a.value.toList.contains ',' || a.value.toList.contains '|') then false
  -- the `fix:` for D40: `<` + `empty>` spells the `<empty>` keyword (D39's `==` + `=V` = `===V` has no specifier view in
  -- the model at all: `getSpecifier` is `none`)
  else if a.op == .lt && a.value.toList == ['e', 'm', 'p', 't', 'y', '>'] then false
  else if !a.reversed then true
  -- the `fix:` for D26: `"lit" in name` tests the literal against the value as a substring
  else if a.op == .in_ || a.op == .notIn then false
  else a.op != .compat && (splitDots a.value).all fun p => (SpecParse.natOfDigits? p.toList).isSome

/-- `_merge_single_markers` past the exact-specifier guard -/
def mergeSingleCore (m1 m2 : Atom) (isAnd : Bool) : Option M :=
  if (m1.name == "python_version" && m2.name == "python_full_version") ||
     (m1.name == "python_full_version" && m2.name == "python_version") then
    mergePythonVersion m1 m2 isAnd
  else if m1.name != m2.name then none
  else if m1.name == "extra" && m1.value != m2.value then none
  else
    match (if isAnd then aspecAnd m1.spec m2.spec else aspecOr m1.spec m2.spec) with
    | none =>
      if m1.op == .eq && m2.op == .eq && !isAnd then some (.eqU m1.name (dedupS [m1.value, m2.value]))
      else if m1.op == .ne && m2.op == .ne && isAnd then some (.neM m1.name (dedupS [m1.value, m2.value]))
      else none
    | some r =>
      if r.beq m1.spec then some (.expr m1)
      else if r.beq m2.spec then some (.expr m2)
      else fromSpecifier m1.name r

/-- `_merge_single_markers` (single.py:378-422); `none` = `None` -/
def mergeSingle (m1 m2 : Atom) (isAnd : Bool) : Option M :=
  if m1.beq m2 then some (.expr m1)      -- the `fix:` a389c12: an atom combined with itself
  else if m1.exactView && m2.exactView then mergeSingleCore m1 m2 isAnd else none

/-! ### the engine -/

/-- result of `x.__and__(y)` on two *single* markers, before the engine gets involved:
    `MultiMarker(self, other)` / `MarkerUnion(self, other)` is `.pair` -/
inductive SRes where
  | done (m : M)
  | pair (a b : M)

/-- `a & b` for single markers (`MarkerExpression/EqualityMarkerUnion/InequalityMultiMarker.__and__`
    with the `NotImplemented` → `__rand__` dispatch) -/
def singleAnd (x y : M) : SRes :=
  match x, y with
  | .expr a, .expr b =>
    match mergeSingle a b true with
    | some m => .done m
    | none => .pair x y
  | .eqU n vs, .expr b =>
    if n != b.name then .pair x y else .done (eqReplace n (vs.filter fun v => b.spec.containsStr v))
  | .expr a, .eqU n vs =>          -- NotImplemented → EqualityMarkerUnion.__rand__
    if n != a.name then .pair y x else .done (eqReplace n (vs.filter fun v => a.spec.containsStr v))
  | .eqU n vs, .eqU m ws =>         -- `self.values & other.values`: abc.Set.__and__ iterates `other`
    if n != m then .pair x y else .done (eqReplace n (ws.filter fun v => vs.contains v))
  | .eqU n vs, .neM m ws =>         -- same name: NotImplemented → InequalityMultiMarker.__rand__
    if n != m then .pair x y else .done (eqReplace n (vs.filter fun v => !ws.contains v))
  | .neM n vs, .expr b =>
    if n != b.name then .pair x y
    else if b.op == .eq then (if vs.contains b.value then .done .empty else .done (.expr b))
    else if b.op == .ne then
      (if vs.contains b.value then .done x else .done (.neM n (vs ++ [b.value])))
    else if !(vs.any fun v => b.spec.containsStr v) then .done (.expr b)
    else .pair x y
  | .expr a, .neM n vs =>           -- NotImplemented → InequalityMultiMarker.__rand__
    if n != a.name then .pair y x
    else if a.op == .eq then (if vs.contains a.value then .done .empty else .done (.expr a))
    else if a.op == .ne then
      (if vs.contains a.value then .done y else .done (.neM n (vs ++ [a.value])))
    else if !(vs.any fun v => a.spec.containsStr v) then .done (.expr a)
    else .pair y x
  | .neM n vs, .eqU m ws =>
    if n != m then .pair x y else .done (eqReplace m (ws.filter fun v => !vs.contains v))
  | .neM n vs, .neM m ws =>
    if n != m then .pair x y else .done (.neM n (vs ++ ws.filter fun v => !vs.contains v))
  | _, _ => .pair x y

/-- `a | b` for single markers -/
def singleOr (x y : M) : SRes :=
  match x, y with
  | .expr a, .expr b =>
    match mergeSingle a b false with
    | some m => .done m
    | none => .pair x y
  | .eqU n vs, .expr b =>
    if n != b.name then .pair x y
    else if b.op == .eq then
      (if vs.contains b.value then .done x else .done (.eqU n (vs ++ [b.value])))
    else if b.op == .ne then (if vs.contains b.value then .done .any else .done (.expr b))
    else if vs.all fun v => b.spec.containsStr v then .done (.expr b)
    else .pair x y
  | .expr a, .eqU n vs =>
    if n != a.name then .pair y x
    else if a.op == .eq then
      (if vs.contains a.value then .done y else .done (.eqU n (vs ++ [a.value])))
    else if a.op == .ne then (if vs.contains a.value then .done .any else .done (.expr a))
    else if vs.all fun v => a.spec.containsStr v then .done (.expr a)
    else .pair y x
  | .eqU n vs, .eqU m ws =>
    if n != m then .pair x y else .done (.eqU n (vs ++ ws.filter fun v => !vs.contains v))
  | .eqU n vs, .neM m ws =>
    if n != m then .pair x y else .done (neReplace m (ws.filter fun v => !vs.contains v))
  | .neM n vs, .expr b =>
    if n != b.name then .pair x y else .done (neReplace n (vs.filter fun v => !b.spec.containsStr v))
  | .expr a, .neM n vs =>
    if n != a.name then .pair y x else .done (neReplace n (vs.filter fun v => !a.spec.containsStr v))
  | .neM n vs, .eqU m ws =>
    if n != m then .pair x y else .done (neReplace n (vs.filter fun v => !ws.contains v))
  | .neM n vs, .neM m ws =>         -- `self.values & other.values` iterates `other`
    if n != m then .pair x y else .done (neReplace n (ws.filter fun v => vs.contains v))
  | _, _ => .pair x y

/-- replace element `i` -/
def setAt : List M → Nat → M → List M
  | [], _, _ => []
  | _ :: xs, 0, m => m :: xs
  | x :: xs, i + 1, m => x :: setAt xs i m

/-- cartesian product of `itertools.product(*lists)` -/
def product : List (List M) → List (List M)
  | [] => [[]]
  | l :: ls => let rest := product ls; l.flatMap fun x => rest.map fun r => x :: r

/-- `if x not in flattened: flattened.append(x)` -/
def addNew (acc : List M) (x : M) : List M := if memB x acc then acc else acc ++ [x]

/-- `flatten_items(items, MultiMarker)` (`isMultiCls = true`) / `(items, MarkerUnion)`; appends to `acc` -/
def flattenInto (isMultiCls : Bool) : Nat → List M → List M → List M
  | 0, items, acc => items.foldl addNew acc
  | fuel + 1, items, acc =>
    items.foldl (fun acc item =>
      match isMultiCls, item with
      | true, .multi ms => (flattenInto isMultiCls fuel ms []).foldl addNew acc
      | false, .union ms => (flattenInto isMultiCls fuel ms []).foldl addNew acc
      | _, _ => addNew acc item) acc

/-- `MultiMarker(*markers)` / `MarkerUnion(*markers)` constructors -/
def mkMulti (fuel : Nat) (ms : List M) : M := .multi (flattenInto true fuel ms [])
def mkUnion (fuel : Nat) (ms : List M) : M := .union (flattenInto false fuel ms [])

/-- what one `mark` of the inner `for i, mark in enumerate(new_markers)` loop decides -/
inductive Step where
  | next                 -- keep looking
  | replace (m : M)      -- `new_markers[i] = m; break`
  | abort                -- `return EmptyMarker()` / `return AnyMarker()`

/-- the inner loop: first decisive mark -/
def scan (f : M → Step) : List M → Nat → List M → Option (Option (List M))
  | _, _, [] => some none
  | whole, i, mark :: rest =>
    match f mark with
    | .next => scan f whole (i + 1) rest
    | .replace m => some (some (setAt whole i m))
    | .abort => none

/-- `m.markers if isinstance(m, MultiMarker) else [m]` -/
def multiChildren : M → List M
  | .multi xs => xs
  | x => [x]
/-- `m.markers if isinstance(m, MarkerUnion) else [m]` -/
def unionChildren : M → List M
  | .union xs => xs
  | x => [x]

/-- what `MultiMarker.of` (`isAnd`) / `MarkerUnion.of` does with one `mark` of `new_markers` and the
    incoming `marker`: `combine` is `mark & marker` / `mark | marker`, `simplify` is
    `mark.intersect_simplify(marker)` / `mark.union_simplify(marker)` -/
def decideWith (isAnd : Bool) (combine : M → M → M) (simplify : M → M → Option M) (mark marker : M) : Step :=
  if mark.isSingle then
    let nm := combine mark marker
    if (if isAnd then nm.isEmpty else nm.isAny) then .abort
    else if nm.isSingle then .replace nm
    else .next
  else if (if isAnd then mark.isUnion else mark.isMulti) then
    match simplify mark marker with
    | some r => .replace r
    | none => .next
  else .next

/-- body of the `for marker in old_markers` loop; the state is `new_markers`, `none` once the
    absorbing element was produced (`return EmptyMarker()` / `return AnyMarker()`) -/
def passStep (isAnd : Bool) (decide : M → M → Step) (flat : List M → List M)
    (st : Option (List M)) (marker : M) : Option (List M) :=
  match st with
  | none => none
  | some new =>
    if memB marker new then some new
    else if (if isAnd then marker.isAny else marker.isEmpty) then some new
    else
      match scan (fun mark => decide mark marker) new 0 new with
      | none => none
      | some (some new') => some (flat new')
      | some none => some (new ++ [marker])

/-- `while isinstance(unnormalized, (MultiMarker, MarkerUnion)) and len(unnormalized.markers) == 1` -/
def unwrapSingletons : Nat → M → M
  | 0, m => m
  | k + 1, m =>
    match m with
    | .multi [x] => unwrapSingletons k x
    | .union [x] => unwrapSingletons k x
    | x => x

mutual

/-- `a & b` (full dispatch) -/
def and : Nat → M → M → M
  | 0, a, b => .multi [a, b]
  | fuel + 1, a, b =>
    match a, b with
    | .any, o => o
    | .empty, _ => .empty
    | .multi _, o => intersection fuel [a, o]
    | .union _, o => intersection fuel [a, o]
    | s, .any => s                        -- NotImplemented → AnyMarker.__rand__ (returns other)
    | _, .empty => .empty
    | s, .multi _ => intersection fuel [b, s]   -- MultiMarker.__rand__ = __and__ : intersection(self, other)
    | s, .union _ => intersection fuel [b, s]
    | s, t =>
      match singleAnd s t with
      | .done m => m
      | .pair p q => mkMulti fuel [p, q]

/-- `a | b` (full dispatch) -/
def or : Nat → M → M → M
  | 0, a, b => .union [a, b]
  | fuel + 1, a, b =>
    match a, b with
    | .any, _ => .any
    | .empty, o => o
    | .multi _, o => unionOf fuel [a, o]
    | .union _, o => unionOf fuel [a, o]
    | _, .any => .any
    | s, .empty => s
    | s, .multi _ => unionOf fuel [b, s]
    | s, .union _ => unionOf fuel [b, s]
    | s, t =>
      match singleOr s t with
      | .done m => m
      | .pair p q => mkUnion fuel [p, q]

/-- one `for marker in old_markers` pass of `MultiMarker.of`; `none` = return EmptyMarker -/
def multiPass : Nat → List M → Option (List M)
  | 0, old => some old
  | fuel + 1, old =>
    old.foldl (passStep true (decideWith true (and fuel) (intersectSimplify fuel))
      (fun l => flattenInto true fuel l [])) (some [])

/-- the `while old_markers != new_markers` loop -/
def multiLoop : Nat → List M → List M → Option (List M)
  | 0, _, new => some new
  | fuel + 1, old, new =>
    if beqList old new then some new
    else
      match multiPass fuel new with
      | none => none
      | some new' => multiLoop fuel new new'

/-- `MultiMarker.of(*markers)` (multi.py:27-83) -/
def multiOf : Nat → List M → M
  | 0, ms => .multi ms
  | fuel + 1, ms =>
    match multiLoop fuel [] (flattenInto true fuel ms []) with
    | none => .empty
    | some new =>
      if new.any isEmpty then .empty
      else
        match new with
        | [] => .any
        | [m] => m
        | _ => mkMulti fuel new

def unionPass : Nat → List M → Option (List M)
  | 0, old => some old
  | fuel + 1, old =>
    old.foldl (passStep false (decideWith false (or fuel) (unionSimplify fuel))
      (fun l => flattenInto false fuel l [])) (some [])

def unionLoop : Nat → List M → List M → Option (List M)
  | 0, _, new => some new
  | fuel + 1, old, new =>
    if beqList old new then some new
    else
      match unionPass fuel new with
      | none => none
      | some new' => unionLoop fuel new new'

/-- `MarkerUnion.of(*markers)` (union.py:28-82) -/
def unionOfList : Nat → List M → M
  | 0, ms => .union ms
  | fuel + 1, ms =>
    match unionLoop fuel [] (flattenInto false fuel ms []) with
    | none => .any
    | some new =>
      if new.any isAny then .any
      else
        match new with
        | [] => .empty
        | [m] => m
        | _ => mkUnion fuel new

/-- `MultiMarker.union_simplify(self, other)` (multi.py:94-136, after the `fix:`s) -/
def unionSimplify : Nat → M → M → Option M
  | 0, _, _ => none
  | fuel + 1, self, other =>
    match self with
    | .multi ours =>
      if memB other ours then some other
      else
        match other with
        | .multi theirs =>
          if ours.all (memB · theirs) then some self
          else if theirs.all (memB · ours) then some other
          else
            let shared := ours.filter (memB · theirs)
            if shared.isEmpty then none
            else
              let unique := ours.filter (fun m => !memB m theirs)
              let otherUnique := theirs.filter (fun m => !memB m ours)
              let uu := or fuel (mkMulti fuel unique) (mkMulti fuel otherUnique)
              if uu.isSingle || uu.isAny then
                if uu.isAny then some (multiOf fuel shared)
                else some (and fuel uu (mkMulti fuel shared))
              else none
        | _ => none
    | _ => none

/-- `MarkerUnion.intersect_simplify(self, other)` (union.py:94-134, after the `fix:`s) -/
def intersectSimplify : Nat → M → M → Option M
  | 0, _, _ => none
  | fuel + 1, self, other =>
    match self with
    | .union ours =>
      if memB other ours then some other
      else
        match other with
        | .union theirs =>
          if ours.all (memB · theirs) then some self
          else if theirs.all (memB · ours) then some other
          else
            let shared := ours.filter (memB · theirs)
            if shared.isEmpty then none
            else
              let unique := ours.filter (fun m => !memB m theirs)
              let otherUnique := theirs.filter (fun m => !memB m ours)
              let ui := and fuel (mkUnion fuel unique) (mkUnion fuel otherUnique)
              if ui.isSingle || ui.isEmpty then
                if ui.isEmpty then some (unionOfList fuel shared)
                else some (or fuel ui (mkUnion fuel shared))
              else none
        | _ => none
    | _ => none

/-- `cnf(marker)` (utils.py:82-100) -/
def cnf : Nat → M → M
  | 0, m => m
  | fuel + 1, m =>
    match m with
    | .union ms =>
      multiOf fuel ((product ((ms.map (cnf fuel)).map multiChildren)).map (unionOfList fuel))
    | .multi ms => multiOf fuel (ms.map (cnf fuel))
    | x => x

/-- `dnf(marker)` (utils.py:103-121) -/
def dnf : Nat → M → M
  | 0, m => m
  | fuel + 1, m =>
    match m with
    | .multi ms =>
      unionOfList fuel ((product ((ms.map (dnf fuel)).map unionChildren)).map (multiOf fuel))
    | .union ms => unionOfList fuel (ms.map (dnf fuel))
    | x => x

/-- `intersection(*markers)`: `dnf(MultiMarker(*markers))` -/
def intersection : Nat → List M → M
  | 0, ms => .multi ms
  | fuel + 1, ms => dnf fuel (mkMulti fuel ms)

/-- `union(*markers)` (utils.py:130-151, after the `fix:`) -/
def unionOf : Nat → List M → M
  | 0, ms => .union ms
  | fuel + 1, ms =>
    let raw := mkUnion fuel (ms.filter fun m => !m.isEmpty)
    let unnormalized := unwrapSingletons (fuel + 1) raw
    let conjunction := cnf fuel unnormalized
    if !conjunction.isMulti then conjunction
    else
      let disjunction := dnf fuel conjunction
      if !disjunction.isUnion then disjunction
      else
        -- min(disjunction, conjunction, unnormalized, key=complexity): first minimal
        let best := if cLess (complexity conjunction) (complexity disjunction) then conjunction else disjunction
        if cLess (complexity unnormalized) (complexity best) then unnormalized else best

end

/-! ### `only` / `exclude` -/

/-- `exclude(marker_name)` -/
def exclude : Nat → M → String → M
  | 0, m, _ => m
  | fuel + 1, m, name =>
    match m with
    | .multi ms =>
      let kept := ms.filterMap fun c =>
        if c.isSingle && c.singleName? == some name then none
        else
          let e := exclude fuel c name
          if e.isEmpty then none else some e
      multiOf fuel kept
    | .union ms =>
      let kept := ms.filterMap fun c =>
        if c.isSingle && c.singleName? == some name then none else some (exclude fuel c name)
      if kept.isEmpty then .any else unionOfList fuel kept
    | .any => .any
    | .empty => .empty
    | s => if s.singleName? == some name then .any else s

/-- `only(*marker_names)` -/
def only : Nat → M → List String → M
  | 0, m, _ => m
  | fuel + 1, m, names =>
    match m with
    | .multi ms => multiOf fuel (ms.map fun c => only fuel c names)
    | .union ms => unionOfList fuel (ms.map fun c => only fuel c names)
    | .any => .any
    | .empty => .empty
    | s => match s.singleName? with
      | some n => if names.contains n then s else .any
      | none => s

/-! ### text -/

/-- `_quote(value)` (the `fix:`es for D27, D36): `Quote.quoteL` on the characters — backslashes doubled, line breaks
    and NUL escaped, single quotes around a value that contains a double quote (and no single quote), `\x22`
    otherwise.  Read back by packaging as the same value for every string: `C07.read_quote` -/
def quoteS (v : String) : String := String.ofList (Quote.quoteL v.toList)

def _root_.DepLogic.Atom.str (a : Atom) : String :=
  if a.reversed then quoteS a.value ++ " " ++ a.op.reflect.str ++ " " ++ a.name
  else a.name ++ " " ++ a.op.str ++ " " ++ quoteS a.value

mutual
/-- `__str__` -/
def str : M → String
  | .any => ""
  | .empty => "<empty>"
  | .expr a => a.str
  | .eqU n vs => " or ".intercalate (vs.map fun v => n ++ " == " ++ quoteS v)
  | .neM n vs => " and ".intercalate (vs.map fun v => n ++ " != " ++ quoteS v)
  | .multi ms => " and ".intercalate (strMultiChildren ms)
  | .union ms => " or ".intercalate (strList ms)
def strMultiChildren : List M → List String
  | [] => []
  | m :: ms =>
    (match m with
     | .expr _ | .multi _ => str m
     | _ => "(" ++ str m ++ ")") :: strMultiChildren ms
def strList : List M → List String
  | [] => []
  | m :: ms => str m :: strList ms
end

/-! ### `_build_markers` on packaging's parsed marker list -/

/-- packaging's `Marker._markers`: atoms `(lhs, op, rhs)`, nested lists, `"and"`, `"or"` -/
inductive PItem where
  | atom (lhsIsVar : Bool) (lhs : String) (op : String) (rhs : String)
  | group (items : List PItem)
  | and_
  | or_
deriving Repr

/-- `_build_markers(markers)` (markers/__init__.py:73-101); `none`: an atom outside the model.
    `or_groups` is kept in reverse (its head is `or_groups[-1]`). -/
def build : Nat → PItem → Option M
  | 0, _ => none
  | fuel + 1, item =>
    match item with
    | .atom lhsIsVar lhs op rhs =>
      (MOp.ofString? op).bind fun o =>
        if lhsIsVar then (mkAtom lhs o rhs false).map .expr
        else (mkAtom rhs o.reflect lhs true).map .expr
    | .group items =>
      (items.foldl (fun (st : Option (List M)) it =>
          match st with
          | none => none
          | some groups =>
            match it, groups with
            | .or_, gs => some (.any :: gs)
            | .and_, gs => some gs
            | it, g :: gs => (build fuel it).map fun m => and fuel g m :: gs
            | _, [] => none) (some [.any])).map fun groups => unionOfList fuel groups.reverse
    | _ => none

/-! ### the token list a rendered marker denotes

`items m` is what packaging's marker parser produces from `str m` (atoms, `and`/`or`, a nested
list per parenthesised group).  That `packaging` maps the text to exactly this list is outside
the model and compared on every run (stream `C07.tokens`); `C07.reparse_sound` is about this list. -/

/-- tokens of one rendered atom -/
def atomItem (a : Atom) : PItem :=
  if a.reversed then .atom false a.value a.op.reflect.str a.name
  else .atom true a.name a.op.str a.value

/-- `sep.join(parts)` on token lists -/
def joinItems (sep : PItem) : List (List PItem) → List PItem
  | [] => []
  | [x] => x
  | x :: rest => x ++ sep :: joinItems sep rest

mutual
def items : M → List PItem
  | .any => []
  | .empty => []
  | .expr a => [atomItem a]
  | .eqU n vs => joinItems .or_ (vs.map fun v => [.atom true n "==" v])
  | .neM n vs => joinItems .and_ (vs.map fun v => [.atom true n "!=" v])
  | .multi ms => joinItems .and_ (itemsMultiChildren ms)
  | .union ms => joinItems .or_ (itemsList ms)
def itemsMultiChildren : List M → List (List PItem)
  | [] => []
  | m :: ms =>
    (match m with
     | .expr _ | .multi _ => items m
     | _ => [.group (items m)]) :: itemsMultiChildren ms
def itemsList : List M → List (List PItem)
  | [] => []
  | m :: ms => items m :: itemsList ms
end

/-! ### evaluation -/

/-- environment value: a string, or a set of strings (`extras`, `dependency_groups`, batch `extra`) -/
inductive EnvVal where
  | str (s : String)
  | set (xs : List String)
deriving Repr, DecidableEq

abbrev Env := String → Option EnvVal

/-- `{extra}` if `extra` is a `str`, else the set -/
def EnvVal.toList : EnvVal → List String
  | .str s => [s]
  | .set xs => xs

/-- `normalize_name`: `re.sub(r"[-_.]+", "-", name).lower()` -/
def normalizeName (s : String) : String :=
  let rec go : List Char → Bool → List Char
    | [], _ => []
    | c :: cs, inRun =>
      if c == '-' || c == '_' || c == '.' then (if inRun then go cs true else '-' :: go cs true)
      else c.toLower :: go cs false
  String.ofList (go s.toList false)

/-- `Specifier(f"{op}{rhs}").contains(lhs)` for a final-release `lhs`; `none`: invalid specifier
    (fall through to the operator) ; `some none`: outside the model (non-final candidate) -/
def specContains (op : MOp) (rhs lhs : String) : Option (Option Bool) :=
  match op with
  | .in_ | .notIn => none
  | _ =>
    match SpecParse.parseClauseL (op.str ++ trimS rhs).toList with
    | none => none
    | some c =>
      match Pep440.matchesFinal c { release := [0] } with
      | none => none                   -- `~=N`: InvalidSpecifier
      | some _ =>
        match SpecParse.parseVer (trimS lhs) with
        | none => some (some false)    -- packaging 26.3: unparsable candidate -> False
        | some v => if v.isFinal then some (Pep440.matchesFinal c v) else some none

/-- the string operator table `_operators` -/
def strOp (op : MOp) (lhs rhs : String) : Option Bool :=
  match op with
  | .in_ => some (strIn lhs rhs)
  | .notIn => some (!strIn lhs rhs)
  | .lt => some (decide (lhs < rhs))
  | .le => some (decide (¬ rhs < lhs))
  | .eq => some (lhs == rhs)
  | .ne => some (lhs != rhs)
  | .ge => some (decide (¬ lhs < rhs))
  | .gt => some (decide (rhs < lhs))
  | .compat => none

/-- `MarkerExpression._evaluate` (single.py:173-211, after the `fix:`); `none` = raises / outside the model -/
def _root_.DepLogic.Atom.eval (env : Env) (a : Atom) : Option Bool :=
  if a.name == "extra" then
    match env "extra" with
    | none => none
    | some ev =>
      let extras := ev.toList.map normalizeName
      let v := normalizeName a.value
      match a.op with
      | .eq => some (extras.contains v)
      | .ne => some (!extras.contains v)
      | _ => none                        -- `assert self.op in ("==", "!=")`
  else
    match env a.name with
    | none => none
    | some target =>
      let op := if a.reversed then a.op.reflect else a.op
      if a.name == "extras" || a.name == "dependency_groups" then
        -- MARKERS_ALLOWING_SET: only the reversed membership form is meaningful
        if a.reversed then
          match target, op with
          | .set xs, .in_ => some ((xs.map normalizeName).contains (normalizeName a.value))
          | .set xs, .notIn => some (!(xs.map normalizeName).contains (normalizeName a.value))
          | .str s, o => strOp o (normalizeName a.value) (normalizeName s)
          | _, _ => none
        else none
      else
        match target with
        | .set _ => none
        | .str t =>
          let (lhs, rhs) := if a.reversed then (a.value, t) else (t, a.value)
          let viaSpec : Option (Option Bool) :=
            if versionEvalNames.contains a.name then specContains op rhs lhs else none
          match viaSpec with
          | some r => r
          | none => strOp op lhs rhs

mutual
/-- `evaluate(environment)`; Python's `all`/`any` short-circuit, so an exception in a later child
    is not raised when an earlier child decides -/
def eval (env : Env) : M → Option Bool
  | .any => some true
  | .empty => some false
  | .expr a => a.eval env
  | .eqU n vs => match env n with | some (.str s) => some (vs.contains s) | _ => none
  | .neM n vs => match env n with | some (.str s) => some (!vs.contains s) | _ => none
  | .multi ms => evalAll env ms
  | .union ms => evalAny env ms
def evalAll (env : Env) : List M → Option Bool
  | [] => some true
  | m :: ms => match eval env m with
    | some true => evalAll env ms
    | r => r
def evalAny (env : Env) : List M → Option Bool
  | [] => some false
  | m :: ms => match eval env m with
    | some false => evalAny env ms
    | r => r
end

/-! ### total Boolean semantics (for the theorems): an atom that raises counts as false -/

mutual
def sem (env : Env) : M → Bool
  | .any => true
  | .empty => false
  | .expr a => (a.eval env).getD false
  | .eqU n vs => match env n with | some (.str s) => vs.contains s | _ => false
  | .neM n vs => match env n with | some (.str s) => !vs.contains s | _ => false
  | .multi ms => semAll env ms
  | .union ms => semAny env ms
def semAll (env : Env) : List M → Bool
  | [] => true
  | m :: ms => sem env m && semAll env ms
def semAny (env : Env) : List M → Bool
  | [] => false
  | m :: ms => sem env m || semAny env ms
end

end M
end DepLogic
