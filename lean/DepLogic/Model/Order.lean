/-
  Linear preorders: the only thing `specifiers/range.py` and `specifiers/union.py`
  ever ask of a bound (`<`, `==`, `>` on `packaging.version.Version`).
  It is a preorder and not an order because `Version("1.0")` and `Version("1.0.0")`
  are different values that compare equal, and the code can tell them apart
  (rendering, `len(release)`).
-/
namespace DepLogic

class LinPre (α : Type) where
  le : α → α → Prop
  decLe : DecidableRel le
  le_refl : ∀ a, le a a
  le_trans : ∀ a b c, le a b → le b c → le a c
  le_total : ∀ a b, le a b ∨ le b a

attribute [instance_reducible, instance] LinPre.decLe

namespace LinPre
variable {α : Type} [LinPre α]

/-- Python `a < b` on versions. -/
@[reducible] def lt (a b : α) : Prop := ¬ le b a
/-- Python `a == b` on versions (equality of `_key`). -/
@[reducible] def eqv (a b : α) : Prop := le a b ∧ le b a

instance (a b : α) : Decidable (lt a b) := inferInstanceAs (Decidable (¬ le b a))
instance (a b : α) : Decidable (eqv a b) := inferInstanceAs (Decidable (le a b ∧ le b a))

end LinPre

instance : LinPre Nat where
  le := (· ≤ ·)
  decLe := inferInstance
  le_refl := Nat.le_refl
  le_trans := fun _ _ _ => Nat.le_trans
  le_total := Nat.le_total

instance : LinPre Int where
  le := (· ≤ ·)
  decLe := inferInstance
  le_refl := Int.le_refl
  le_trans := fun _ _ _ => Int.le_trans
  le_total := Int.le_total

/-- PEP 440 comparison operators of a specifier clause (`===` is not modelled). -/
inductive COp where
  | gt | ge | lt | le | eq | ne | compat
deriving DecidableEq, Repr

def COp.str : COp → String
  | .gt => ">" | .ge => ">=" | .lt => "<" | .le => "<=" | .eq => "==" | .ne => "!=" | .compat => "~="

/-- One specifier clause `op version[.*]` as `packaging.specifiers.Specifier` holds it.
    This is what the `simplified` field of a range/union remembers (as its text). -/
structure Clause (α : Type) where
  op : COp
  ver : α
  wild : Bool := false
deriving DecidableEq, Repr

end DepLogic
