import DepLogic.Model.SpecText
/-
  Characters → tokens for version and specifier strings: what `packaging.version.Version`,
  `packaging.specifiers.Specifier/SpecifierSet` do for *canonical* spellings (digits, `N!`
  epoch, `aN/bN/rcN`, `.postN`, `.devN`, `.*`, operators, `,` and `||`, surrounding blanks).
  Modelled, not verified (DESIGN.md §7); every other spelling is "undecodable" for the model
  and is exercised only on the implementation side (C17's metamorphic stream).
-/
namespace DepLogic
namespace SpecParse

def natOfDigits? (s : List Char) : Option Nat :=
  if s.isEmpty then none
  else if s.all Char.isDigit then some (s.foldl (fun n c => n * 10 + (c.toNat - '0'.toNat)) 0)
  else none

/-- `str.split(c)` for a one-character separator -/
def splitOnChar (c : Char) : List Char → List (List Char)
  | [] => [[]]
  | x :: xs =>
    if x == c then [] :: splitOnChar c xs
    else
      match splitOnChar c xs with
      | [] => [[x]]
      | p :: ps => (x :: p) :: ps

/-- `str.split("||")` -/
def splitOnBars : List Char → List (List Char)
  | [] => [[]]
  | '|' :: '|' :: rest => [] :: splitOnBars rest
  | x :: xs =>
    match splitOnBars xs with
    | [] => [[x]]
    | p :: ps => (x :: p) :: ps

/-- split a leading run of digits off -/
def spanDigits (s : List Char) : List Char × List Char := s.span Char.isDigit

/-- one dot-item of a canonical version: `N`, `NaM`/`NbM`/`NrcM`, `postN`, `devN` -/
inductive Item where
  | rel (n : Nat) | relPre (n : Nat) (k : PreKind) (m : Nat) | post (n : Nat) | dev (n : Nat)

def parseItem (s : List Char) : Option Item :=
  match s with
  | 'p' :: 'o' :: 's' :: 't' :: r => (natOfDigits? r).map .post
  | 'd' :: 'e' :: 'v' :: r => (natOfDigits? r).map .dev
  | _ =>
    let (d, r) := spanDigits s
    match natOfDigits? d with
    | none => none
    | some n =>
      match r with
      | [] => some (.rel n)
      | 'a' :: m => (natOfDigits? m).map (.relPre n .a)
      | 'b' :: m => (natOfDigits? m).map (.relPre n .b)
      | 'r' :: 'c' :: m => (natOfDigits? m).map (.relPre n .rc)
      | _ => none

/-- parse `str(Version)` (canonical public version) -/
def parseVerL (s : List Char) : Option Ver :=
  let (epoch?, rest) :=
    match splitOnChar '!' s with
    | [e, r] => (natOfDigits? e, r)
    | [r] => (some 0, r)
    | _ => (none, [])
  match epoch? with
  | none => none
  | some epoch =>
    let items := (splitOnChar '.' rest).map parseItem
    if items.any Option.isNone then none
    else
      let items := items.filterMap id
      -- state machine: release numbers, optional pre on the last one, optional post, optional dev
      let rec go (rel : List Nat) (pre : Option (PreKind × Nat)) (post dev : Option Nat)
          (stage : Nat) : List Item → Option Ver
        | [] => if rel.isEmpty then none else
            some { epoch := epoch, release := rel.reverse, pre := pre, post := post, dev := dev }
        | .rel n :: t => if stage == 0 then go (n :: rel) pre post dev 0 t else none
        | .relPre n k m :: t => if stage == 0 then go (n :: rel) (some (k, m)) post dev 1 t else none
        | .post n :: t => if stage ≤ 1 && !rel.isEmpty then go rel pre (some n) dev 2 t else none
        | .dev n :: t => if stage ≤ 2 && !rel.isEmpty then go rel pre post (some n) 3 t else none
      go [] none none none 0 items

def parseVer (s : String) : Option Ver := parseVerL s.toList

/-- the operator prefix of a clause text -/
def splitOp (s : List Char) : Option COp × List Char :=
  match s with
  | '>' :: '=' :: r => (some .ge, r)
  | '<' :: '=' :: r => (some .le, r)
  | '=' :: '=' :: r => (some .eq, r)
  | '!' :: '=' :: r => (some .ne, r)
  | '~' :: '=' :: r => (some .compat, r)
  | '>' :: r => (some .gt, r)
  | '<' :: r => (some .lt, r)
  | _ => (none, [])

/-- a trailing `.*` -/
def stripWild (rest : List Char) : List Char × Bool :=
  match rest.reverse with
  | '*' :: '.' :: r => (r.reverse, true)
  | _ => (rest, false)

/-- clause text `op version[.*]` over canonical version spellings -/
def parseClauseL (s : List Char) : Option (Clause Ver) :=
  match splitOp s with
  | (none, _) => none
  | (some op, rest) =>
    let (body, wild) := stripWild rest
    if wild && !(op == .eq || op == .ne) then none
    else (parseVerL body).bind fun v =>
      if wild && !v.isFinal then none else some { op := op, ver := v, wild := wild }

def trimL (s : List Char) : List Char :=
  ((s.dropWhile (· == ' ')).reverse.dropWhile (· == ' ')).reverse

/-- `a,b||c` over canonical clause spellings -/
def parseAltsText (s : String) : Option (List Alt) :=
  let parts := splitOnBars s.toList
  let one (p : List Char) : Option Alt :=
    if p == "<empty>".toList then some .empty
    else
      let t := trimL p
      if t.isEmpty then some (.clauses [])
      else
        let cs := (splitOnChar ',' t).map fun x => parseClauseL (trimL x)
        if cs.any Option.isNone then none else some (.clauses (cs.filterMap id))
  let alts := parts.map one
  if alts.any Option.isNone then none else some (alts.filterMap id)


/-- `parse_version_specifier(text)`: `none` = the text is outside the modelled spellings or
    packaging raises `InvalidSpecifier`; `some none` = the model's operators crashed -/
def parseSpecString (s : String) : Option (Option (Spec Ver)) :=
  (parseAltsText s).map parseAlts

end SpecParse
end DepLogic
