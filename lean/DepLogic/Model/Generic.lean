/-
  Model of `src/dep_logic/specifiers/generic.py` (`GenericSpecifier`): string-valued
  marker atoms viewed as specifiers, and of `EmptySpecifier/AnySpecifier.__contains__`
  (special.py) as asked by the marker layer.
-/
namespace DepLogic

/-- Python `a in b` on `str`: substring. -/
def isInfixL : List Char → List Char → Bool
  | a, [] => a.isEmpty
  | a, b@(_ :: t) => a.isPrefixOf b || isInfixL a t

def strIn (a b : String) : Bool := isInfixL a.toList b.toList

inductive GOp where
  | eq | ne | in_ | notIn | gt | ge | lt | le | contains | notContains
deriving DecidableEq, Repr

namespace GOp
/-- `op_order.get(op, len(op_order))` -/
def order : GOp → Nat
  | .eq => 0 | .ne => 1 | .in_ => 2 | .notIn => 3 | _ => 4

def str : GOp → String
  | .eq => "==" | .ne => "!=" | .in_ => "in" | .notIn => "not in"
  | .gt => ">" | .ge => ">=" | .lt => "<" | .le => "<="
  | .contains => "contains" | .notContains => "not contains"

def ofString? : String → Option GOp
  | "==" => some .eq | "!=" => some .ne | "in" => some .in_ | "not in" => some .notIn
  | ">" => some .gt | ">=" => some .ge | "<" => some .lt | "<=" => some .le
  | "contains" => some .contains | "not contains" => some .notContains
  | _ => none

/-- `invert_map` -/
def invert : GOp → GOp
  | .eq => .ne | .ne => .eq | .notIn => .in_ | .in_ => .notIn
  | .lt => .ge | .le => .gt | .gt => .le | .ge => .lt
  | .contains => .notContains | .notContains => .contains
end GOp

structure GSpec where
  op : GOp
  value : String
deriving DecidableEq, Repr

/-- what `GenericSpecifier.__and__/__or__` can return -/
inductive GRes where
  | empty | any | spec (g : GSpec)
deriving DecidableEq, Repr

namespace GSpec

/-- `__contains__`: `_op_map[self.op](value, self.value)`; parametrised by the substring
    test so that the theorems visibly do not depend on what `in` means. -/
def containsWith (sub : String → String → Bool) (g : GSpec) (s : String) : Bool :=
  match g.op with
  | .eq => s == g.value
  | .ne => s != g.value
  | .in_ => sub s g.value
  | .notIn => !sub s g.value
  | .gt => decide (g.value < s)
  | .ge => decide (¬ s < g.value)
  | .lt => decide (s < g.value)
  | .le => decide (¬ g.value < s)
  | .contains => sub g.value s          -- the reversed atom `"literal" in variable`
  | .notContains => !sub g.value s

def contains (g : GSpec) (s : String) : Bool := containsWith strIn g s

def invert (g : GSpec) : GSpec := { op := g.op.invert, value := g.value }

/-- `sorted((self, other), key=...)` (stable) -/
def sort2 (a b : GSpec) : GSpec × GSpec :=
  if b.op.order < a.op.order then (b, a) else (a, b)

/-- `__and__` (generic.py:51-75); `none` = `raise NotImplementedError` -/
def andWith (sub : String → String → Bool) (self other : GSpec) : Option GRes :=
  if self = other then some (.spec self)
  else
    let (this, that) := sort2 self other
    match this.op, that.op with
    | .eq, .eq => some .empty
    | .eq, .ne => if this.value = that.value then some .empty else some (.spec this)
    | .in_, .notIn => if this.value = that.value then some .empty else none
    | .eq, .in_ => if sub this.value that.value then some (.spec this) else some .empty
    | .ne, .notIn => if sub this.value that.value then some (.spec that) else none
    | _, _ => none

/-- `__or__` (generic.py:77-102) -/
def orWith (sub : String → String → Bool) (self other : GSpec) : Option GRes :=
  if self = other then some (.spec self)
  else
    let (this, that) := sort2 self other
    match this.op, that.op with
    | .eq, .ne => if this.value = that.value then some .any else some (.spec that)
    | .ne, .ne => some .any
    | .in_, .notIn => if this.value = that.value then some .any else none
    | .ne, .in_ => if sub this.value that.value then some .any else none
    | .ne, .notIn => if sub this.value that.value then some (.spec this) else some .any
    | .eq, .in_ => if sub this.value that.value then some (.spec that) else none
    | _, _ => none

def and := andWith strIn
def or := orWith strIn

end GSpec

namespace GRes
/-- membership in a result: `EmptySpecifier.__contains__` / `AnySpecifier.__contains__`
    (special.py, after the `fix:` that un-swapped them) / `GenericSpecifier.__contains__` -/
def containsWith (sub : String → String → Bool) : GRes → String → Bool
  | .empty, _ => false
  | .any, _ => true
  | .spec g, s => g.containsWith sub s

def contains := containsWith strIn
end GRes

end DepLogic
