import DepLogic.Model.Marker
/-
  One marker atom as text: packaging's `_parse_marker_item` (`_parser.py`) over its tokenizer rules
  (`_tokenizer.py`: VARIABLE, QUOTED_STRING, OP, IN, NOT, WS), on character lists.
-/
namespace DepLogic
namespace MText
open Quote M

/-- the environment-variable names of the VARIABLE rule -/
def varNames : List (List Char) :=
  ["python_version".toList, "python_full_version".toList, "os_name".toList, "sys_platform".toList,
   "platform_release".toList, "platform_system".toList, "platform_version".toList, "platform_machine".toList,
   "platform_python_implementation".toList, "implementation_name".toList,
   "implementation_version".toList, "extra".toList, "extras".toList, "dependency_groups".toList]

/-- the deprecated spellings the VARIABLE rule also matches (`os[._]name`, ...) and `process_env_var`'s alias -/
def aliases : List (List Char × List Char) :=
  [("os.name".toList, "os_name".toList), ("sys.platform".toList, "sys_platform".toList),
   ("platform.version".toList, "platform_version".toList), ("platform.machine".toList, "platform_machine".toList),
   ("platform.python_implementation".toList, "platform_python_implementation".toList),
   ("python_implementation".toList, "platform_python_implementation".toList)]

/-- `\w` -/
def isWord (c : Char) : Bool := c.isAlphanum || c == '_'

def isWs (c : Char) : Bool := c == ' ' || c == '\t'

/-- `tokenizer.consume("WS")` -/
def skipWs (s : List Char) : List Char := s.dropWhile isWs

def isVarChar (c : Char) : Bool := isWord c || c == '.'

/-- `_parse_marker_var`: a VARIABLE (maximal run of word characters and dots, which must be one of the names or one
    of the deprecated spellings) or a QUOTED_STRING.  Result: (is a variable, text, rest).
    The VARIABLE rule is a regular expression with `\b` anchors; reading a maximal run is the same on every text in
    which the name is followed by a character that is neither a word character nor a dot. -/
def readVar (s : List Char) : Option (Bool × List Char × List Char) :=
  match s with
  | [] => none
  | c :: _ =>
    if c = '"' || c = '\'' then (readLiteral s).map fun vr => (false, vr.1, vr.2)
    else
      let raw := s.takeWhile isVarChar
      let name := (aliases.lookup raw).getD raw
      if varNames.contains name then some (true, name, s.dropWhile isVarChar) else none

/-- `_parse_marker_op`: IN, NOT WS IN, or OP `(===|==|~=|!=|<=|>=|<|>)` (first alternative that matches) -/
def readOp (s : List Char) : Option (List Char × List Char) :=
  match s with
  | 'i' :: 'n' :: r => if (r.head?.map isWord).getD false then none else some (['i', 'n'], r)
  | 'n' :: 'o' :: 't' :: r =>
    if (r.head?.map isWord).getD false then none
    else
      match skipWs r with
      | 'i' :: 'n' :: r2 =>
        if r.head?.map isWs != some true then none          -- `expect("WS")`
        else if (r2.head?.map isWord).getD false then none else some ("not in".toList, r2)
      | _ => none
  | '=' :: '=' :: '=' :: r => some (['=', '=', '='], r)
  | '=' :: '=' :: r => some (['=', '='], r)
  | '~' :: '=' :: r => some (['~', '='], r)
  | '!' :: '=' :: r => some (['!', '='], r)
  | '<' :: '=' :: r => some (['<', '='], r)
  | '>' :: '=' :: r => some (['>', '='], r)
  | '<' :: r => some (['<'], r)
  | '>' :: r => some (['>'], r)
  | _ => none

/-- `_parse_marker_item`: `WS? var WS? op WS? var WS?` -> packaging's `(lhs, op, rhs)` and the rest -/
def readAtom (s : List Char) : Option (PItem × List Char) :=
  match readVar (skipWs s) with
  | none => none
  | some (lv, l, r1) =>
    match readOp (skipWs r1) with
    | none => none
    | some (op, r2) =>
      match readVar (skipWs r2) with
      | none => none
      | some (_, r, r3) => some (.atom lv (String.ofList l) (String.ofList op) (String.ofList r), skipWs r3)

/-- BOOLOP: `\\b(or|and)\\b` at the current position -/
def readBoolOp (s : List Char) : Option (PItem × List Char) :=
  match s with
  | 'a' :: 'n' :: 'd' :: r => if (r.head?.map isWord).getD false then none else some (.and_, r)
  | 'o' :: 'r' :: r => if (r.head?.map isWord).getD false then none else some (.or_, r)
  | _ => none

mutual
/-- `_parse_marker`: `marker_atom (BOOLOP marker_atom)*`, a FLAT list (precedence is applied later, by
    `_build_markers`); fuel bounds the recursion (every call consumes a character) -/
def readMarker : Nat → List Char → Option (List PItem × List Char)
  | 0, _ => none
  | f + 1, s =>
    match readMAtom f s with
    | none => none
    | some (it, r) => readMore f [it] r
/-- the `while tokenizer.check("BOOLOP")` loop; `acc` is reversed -/
def readMore : Nat → List PItem → List Char → Option (List PItem × List Char)
  | 0, _, _ => none
  | f + 1, acc, s =>
    match readBoolOp s with
    | none => some (acc.reverse, s)
    | some (op, r) =>
      match readMAtom f r with
      | none => none
      | some (it, r2) => readMore f (it :: op :: acc) r2
/-- `_parse_marker_atom`: `WS? ( WS? marker WS? ) WS?` or `WS? marker_item WS?` -/
def readMAtom : Nat → List Char → Option (PItem × List Char)
  | 0, _ => none
  | f + 1, s =>
    match skipWs s with
    | '(' :: r =>
      match readMarker f (skipWs r) with
      | none => none
      | some (its, r2) =>
        match skipWs r2 with
        | ')' :: r3 => some (.group its, skipWs r3)
        | _ => none
    | s' => readAtom s'
end

/-- `_parse_full_marker`: the whole text -/
def readFullMarker (s : List Char) : Option (List PItem) :=
  match readMarker (2 * s.length + 2) s with
  | some (its, []) => some its
  | _ => none

/-- `Atom.__str__` on characters -/
def atomStrL (a : Atom) : List Char :=
  if a.reversed then quoteL a.value.toList ++ ' ' :: a.op.reflect.str.toList ++ ' ' :: a.name.toList
  else a.name.toList ++ ' ' :: a.op.str.toList ++ ' ' :: quoteL a.value.toList

end MText
end DepLogic
