import DepLogic.Model.SpecText
/-
  Model of `src/dep_logic/tags/platform.py` (Arch, Platform.compatible_tags for the claimed
  OS families) and `src/dep_logic/tags/tags.py` (EnvSpec._evaluate_python, _evaluate_platform,
  compatibility, compare, parse_wheel_tags).
-/
namespace DepLogic

inductive Arch where
  | aarch64 | armv6l | armv7l | ppc64le | ppc64 | x86 | x86_64 | s390x | riscv64 | loongarch64
deriving DecidableEq, Repr

namespace Arch
def str : Arch → String
  | aarch64 => "aarch64" | armv6l => "armv6l" | armv7l => "armv7l" | ppc64le => "ppc64le" | ppc64 => "ppc64"
  | x86 => "x86" | x86_64 => "x86_64" | s390x => "s390x" | riscv64 => "riscv64" | loongarch64 => "loongarch64"

/-- `Arch.parse` (platform.py:379-387); `none` = `ValueError` -/
def parse? : String → Option Arch
  | "i386" | "i686" => some x86
  | "amd64" => some x86_64
  | "arm64" => some aarch64
  | "aarch64" => some aarch64 | "armv6l" => some armv6l | "armv7l" => some armv7l | "ppc64le" => some ppc64le
  | "ppc64" => some ppc64 | "x86" => some x86 | "x86_64" => some x86_64 | "s390x" => some s390x
  | "riscv64" => some riscv64 | "loongarch64" => some loongarch64
  | _ => none

/-- `get_minimum_manylinux_minor` -/
def minManylinuxMinor : Arch → Option Nat
  | aarch64 | armv7l | ppc64 | ppc64le | s390x | riscv64 => some 17
  | x86 | x86_64 => some 5
  | _ => none

/-- `get_mac_binary_formats` -/
def macFormats : Arch → List String
  | aarch64 => ["arm64", "universal2"]
  | x86_64 => ["x86_64", "intel", "fat64", "fat32", "universal2", "universal"]
  | a => [a.str]
end Arch

/-- the OS families C09/C16/C18 claim -/
inductive Os where
  | manylinux (major minor : Nat)
  | musllinux (major minor : Nat)
  | windows
  | macos (major minor : Nat)
  /-- the OS classes whose releases cannot be ordered: `FreeBsd`/`NetBsd`/`OpenBsd`/`Dragonfly`/`Haiku`
      (`cls` = the lower-case class name, `rel` = the release string) and `Generic` (`cls = "generic"`,
      `rel` = the name) -/
  | unordered (cls rel : String)
deriving DecidableEq, Repr

structure Platform where
  os : Os
  arch : Arch
deriving DecidableEq, Repr

/-- structured platform tags; `PTag.str` is what the code appends -/
inductive PTag where
  | manylinux (major minor : Nat) (arch : Arch)
  | legacy (year : String) (arch : Arch)       -- manylinux1 / manylinux2010 / manylinux2014
  | linux (arch : Arch)
  | musllinux (major minor : Nat) (arch : Arch)
  | macosx (major minor : Nat) (fmt : String)
  | win (name : String)
deriving DecidableEq, Repr

def PTag.str : PTag → String
  | .manylinux a b arch => s!"manylinux_{a}_{b}_{arch.str}"
  | .legacy y arch => s!"manylinux{y}_{arch.str}"
  | .linux arch => s!"linux_{arch.str}"
  | .musllinux a b arch => s!"musllinux_{a}_{b}_{arch.str}"
  | .macosx a b fmt => s!"macosx_{a}_{b}_{fmt}"
  | .win n => n

/-- the legacy alias appended right after `manylinux_2_K` -/
def legacyFor (minor : Nat) (arch : Arch) : List PTag :=
  (if minor == 12 then [.legacy "2010" arch] else []) ++
  (if minor == 17 then [.legacy "2014" arch] else []) ++
  (if minor == 5 then [.legacy "1" arch] else [])

/-- `for minor in range(os.minor, min_minor - 1, -1)`: `cnt` iterations starting at `hi` -/
def manylinuxLoop (major : Nat) (arch : Arch) : (cnt : Nat) → (hi : Nat) → List PTag
  | 0, _ => []
  | cnt + 1, hi => (.manylinux major hi arch :: legacyFor hi arch) ++ manylinuxLoop major arch cnt (hi - 1)

/-- `for x in range(hi, lo, -1)`: values hi, hi-1, …, lo+1 -/
def downFrom (lo : Nat) : (cnt : Nat) → (hi : Nat) → List Nat
  | 0, _ => []
  | cnt + 1, hi => hi :: downFrom lo cnt (hi - 1)

def rangeDown (hi lo : Nat) : List Nat := downFrom lo (hi - lo) hi

def replaceChars (s : String) : String :=
  String.ofList (s.toList.map fun c => if c == '.' || c == '-' then '_' else c)

def lowerS (s : String) : String := String.ofList (s.toList.map Char.toLower)

/-- `str(os_)` of the unordered classes: `OpenBsd` has no `__str__` (the class name alone), `Generic` prints
    its lower-cased name -/
def unorderedStr (cls rel : String) : String :=
  if cls == "generic" then lowerS rel else if cls == "openbsd" then "openbsd" else s!"{cls}_{rel}"

/-- the single tag of a BSD / Haiku / generic platform -/
def unorderedTag (cls rel : String) (arch : Arch) : String :=
  if cls == "generic" then s!"{lowerS rel}_{arch.str}"
  else s!"{lowerS (unorderedStr cls rel)}_{replaceChars rel}_{arch.str}"

/-- `Platform.compatible_tags` (platform.py:182-276); `none` = `PlatformError` -/
def compatibleTags (p : Platform) : Option (List PTag) :=
  match p.os with
  | .manylinux major minor =>
    let many :=
      match p.arch.minManylinuxMinor with
      | none => []
      | some mn => manylinuxLoop major p.arch (minor + 1 - mn) minor
    some (many ++ [.linux p.arch])
  | .musllinux major minor =>
    some (.linux p.arch :: (List.range minor).map fun i => .musllinux major (i + 1) p.arch)
  | .macos major minor =>
    match p.arch with
    | .x86_64 =>
      if major == 10 then
        some ((rangeDown minor 3).flatMap fun m => p.arch.macFormats.map fun f => .macosx 10 m f)
      else if major ≥ 11 then
        some (((rangeDown major 10).flatMap fun M => p.arch.macFormats.map fun f => .macosx M 0 f) ++
              ((rangeDown 16 3).flatMap fun m => p.arch.macFormats.map fun f => .macosx 10 m f))
      else none
    | .aarch64 =>
      some (((rangeDown major 10).flatMap fun M => p.arch.macFormats.map fun f => .macosx M 0 f) ++
            ((rangeDown 16 3).map fun m => .macosx 10 m "universal2"))
    | _ => none      -- falls to the final `else: raise PlatformError`
  | .windows =>
    match p.arch with
    | .x86 => some [.win "win32"]
    | .x86_64 => some [.win "win_amd64"]
    | .aarch64 => some [.win "win_arm64"]
    | _ => none
  | .unordered cls rel => some [.win (unorderedTag cls rel p.arch)]

/-- `Platform.__str__` -/
def Platform.str (p : Platform) : String :=
  let osStr := match p.os with
    | .manylinux a b => s!"manylinux_{a}_{b}"
    | .musllinux a b => s!"musllinux_{a}_{b}"
    | .windows => "windows"
    | .macos a b => s!"macos_{a}_{b}"
    | .unordered cls rel => unorderedStr cls rel
  match p.os, p.arch with
  | .windows, .x86_64 => "windows_amd64"
  | .macos _ _, .aarch64 => s!"{osStr}_arm64"
  | .windows, .aarch64 => s!"{osStr}_arm64"
  | _, a => s!"{osStr}_{a.str}"

/-! ### EnvSpec -/

inductive ImplName where
  | cpython | pypy | pyston
deriving DecidableEq, Repr

structure Impl where
  name : ImplName
  gilDisabled : Bool := false
deriving DecidableEq, Repr

def Impl.short (i : Impl) : String :=
  match i.name with | .cpython => "cp" | .pypy => "pp" | .pyston => "pt"

structure EnvSpec where
  requiresPython : Spec Ver
  platform : Option Platform := none
  impl : Option Impl := none

def digitsToNat? (s : String) : Option Nat :=
  let l := s.toList
  if l.isEmpty then none
  else if l.all Char.isDigit then some (l.foldl (fun n c => n * 10 + (c.toNat - '0'.toNat)) 0)
  else none

/-- what `_evaluate_python` extracts from the two tag strings -/
structure PyAbi where
  impl : String         -- python_tag[:2]
  major : String        -- python_tag[2:3]
  minor : String        -- python_tag[3:]
  abiImpl : String      -- abi_tag.split("_",1)[0] with pypy→pp, pyston→pt, lower-cased
  pyLower : String      -- python_tag.lower()

def slice (pyTag abiTag : String) : PyAbi :=
  let l := pyTag.toList
  let abi0 := (abiTag.splitOn "_").headD ""
  { impl := String.ofList (l.take 2), major := String.ofList ((l.drop 2).take 1), minor := String.ofList (l.drop 3),
    abiImpl := ((abi0.replace "pypy" "pp").replace "pyston" "pt").toLower,
    pyLower := pyTag.toLower }

/-- `parse_version_specifier(f"{op}{major}.{minor}")` etc.: `none` = InvalidSpecifier -/
def verOf (major minor : String) (minorDefault : Option Nat) : Option (List Nat) :=
  match digitsToNat? major with
  | none => none
  | some M =>
    if minor.isEmpty then (match minorDefault with | some d => some [M, d] | none => some [M])
    else (digitsToNat? minor).map fun m => [M, m]

/-- `parse_version_specifier(f">={major}.{minor or 0}")` of the abi3 branch -/
def abi3Range (t : PyAbi) : Option (Spec Ver) :=
  (verOf t.major t.minor (some 0)).bind fun rel =>
    (fromClause { op := .ge, ver := { release := rel } }).map fun w => (Spec.range {}).and w

/-- the `if major and minor [and impl == "py"] / elif / else` choice of `wheel_range`
    (tags.py:197-200, after the `fix:` for `pyXY`); `none` = InvalidSpecifier -/
def wheelRange (t : PyAbi) : Option (Spec Ver) :=
  if !t.major.isEmpty && !t.minor.isEmpty && t.impl == "py" then
    match verOf t.major t.minor none, digitsToNat? t.major with
    | some rel, some M =>
      (fromClause { op := .ge, ver := { release := rel } }).bind fun a =>
      (fromClause { op := .eq, ver := { release := [M] }, wild := true }).map fun b =>
        ((Spec.range {}).and a).and ((Spec.range {}).and b)
    | _, _ => none
  else if !t.major.isEmpty && !t.minor.isEmpty then
    (verOf t.major t.minor none).bind fun rel =>
      (fromClause { op := .eq, ver := { release := rel }, wild := true }).map fun a => (Spec.range {}).and a
  else
    (digitsToNat? t.major).bind fun M =>
      (fromClause { op := .eq, ver := { release := [M] }, wild := true }).map fun a => (Spec.range {}).and a

/-- `(int(major), int(minor or 0), k)` -/
def pyScore (t : PyAbi) (k : Nat) : Nat × Nat × Nat :=
  ((digitsToNat? t.major).getD 0, (digitsToNat? t.minor).getD 0, k)

/-- the characters of the ABI tag after the python tag (`abi_impl[len(python_tag):]`) -/
def abiFlags (t : PyAbi) : List Char := t.abiImpl.toList.drop t.pyLower.toList.length

/-- a concrete ABI tag fits the python tag (after the `fix:` for D28): it is the python tag followed by ABI
    flags only — what follows must not start with a digit (cp31 is not cp310) — and `t` among the flags says
    free-threaded -/
def abiGate (impl : Option Impl) (t : PyAbi) : Bool :=
  t.pyLower.toList.isPrefixOf t.abiImpl.toList &&
  !(match (abiFlags t).head? with | some c => c.isDigit | none => false) &&
  (match impl with | some i => ((abiFlags t).contains 't') == i.gilDisabled | none => true)

/-- the body of `_evaluate_python` after slicing (tags.py:159-205) -/
def evalPyCore (rp : Spec Ver) (impl : Option Impl) (t : PyAbi) : Option (Nat × Nat × Nat) :=
  if (match impl with | some i => !(t.impl == i.short || t.impl == "py") | none => false) then none
  else if t.abiImpl == "abi3" then
    if !(t.impl == "cp" && (match impl with | none => true | some i => !i.gilDisabled)) then none
    else
      match abi3Range t with
      | none => none
      | some w => if (w.and rp).isEmpty then none else some (pyScore t 1)
  else if t.abiImpl != "none" && !abiGate impl t then none
  else
    match wheelRange t with
    | none => none
    | some w => if (w.and rp).isEmpty then none else some (pyScore t (if t.abiImpl == "none" then 0 else 2))

def evaluatePython (e : EnvSpec) (pyTag abiTag : String) : Option (Nat × Nat × Nat) :=
  evalPyCore e.requiresPython e.impl (slice pyTag abiTag)

/-- `_evaluate_platform`: `some (-1)` is coded as `some none` … kept simple: Int result -/
def evaluatePlatform (e : EnvSpec) (tag : String) : Option (Option Int) :=
  match e.platform with
  | none => some (some (-1))
  | some p =>
    match compatibleTags p with
    | none => none           -- PlatformError propagates
    | some tags =>
      let strs := tags.map PTag.str ++ ["any"]
      match strs.findIdx? (· == tag) with
      | none => some none
      | some i => some (some ((strs.length : Int) - i))

/-- lexicographic max of python scores, as Python's tuple `max` -/
def maxScore (l : List (Nat × Nat × Nat)) : Option (Nat × Nat × Nat) :=
  l.foldl (fun acc x =>
    match acc with
    | none => some x
    | some a =>
      if a.1 < x.1 || (a.1 == x.1 && (a.2.1 < x.2.1 || (a.2.1 == x.2.1 && a.2.2 < x.2.2))) then some x else some a)
    none

inductive Compat where
  | error                                   -- PlatformError
  | none
  | score (py : Nat × Nat × Nat) (plat : Int)
deriving Repr, DecidableEq

/-- `EnvSpec.compatibility` (tags.py:215-240).  `filter(None, …)` also drops a platform score `0`
    – impossible, scores are ≥ 1 or -1. -/
def compatibility (e : EnvSpec) (py abi plat : List String) : Compat :=
  let combos := py.flatMap fun p => abi.map fun a => (p, a)
  match maxScore (combos.filterMap fun pa => evaluatePython e pa.1 pa.2) with
  | none => .none
  | some ps =>
    let pls := plat.map (evaluatePlatform e)
    if pls.any Option.isNone then .error
    else
      match (pls.filterMap id).filterMap id |>.foldl (fun acc x => match acc with | none => some x | some a => some (max a x)) none with
      | none => .none
      | some s => .score ps s

/-! ### `EnvSpec.compare` -/

inductive EnvCompat where
  | incompatible | lowerOrEqual | higher
deriving DecidableEq, Repr

/-- `type(self.platform.os) is type(target.platform.os)` -/
def Os.sameClass : Os → Os → Bool
  | .manylinux _ _, .manylinux _ _ => true
  | .musllinux _ _, .musllinux _ _ => true
  | .windows, .windows => true
  | .macos _ _, .macos _ _ => true
  | .unordered c _, .unordered d _ => c == d
  | _, _ => false

def Os.majorMinor? : Os → Option (Nat × Nat)
  | .manylinux a b | .musllinux a b | .macos a b => some (a, b)
  | .windows | .unordered _ _ => none

/-- dataclass `__eq__` of `EnvSpec` -/
def EnvSpec.beq (a b : EnvSpec) : Bool :=
  a.requiresPython.beq b.requiresPython && decide (a.platform = b.platform) && decide (a.impl = b.impl)

/-- both implementations stated and different -/
def implClash (a b : Option Impl) : Bool :=
  match a, b with
  | some x, some y => decide (x ≠ y)
  | _, _ => false

/-- the platform part of `compare` (arch, OS class, `(major, minor)` order) -/
def platCompare (p q : Platform) : EnvCompat :=
  if p.arch != q.arch then .incompatible
  else if !p.os.sameClass q.os then .incompatible
  else
    match p.os.majorMinor?, q.os.majorMinor? with
    | some (a1, a2), some (b1, b2) =>
      if a1 < b1 || (a1 == b1 && a2 ≤ b2) then .lowerOrEqual else .higher
    | _, _ => if p.os = q.os then .lowerOrEqual else .incompatible   -- releases that cannot be ordered

/-- `EnvSpec.compare` (tags.py:273-299) -/
def compare (a b : EnvSpec) : EnvCompat :=
  if a.beq b then .lowerOrEqual
  else if (a.requiresPython.and b.requiresPython).isEmpty then .incompatible
  else if implClash a.impl b.impl then .incompatible
  else
    match a.platform, b.platform with
    | some p, some q => platCompare p q
    | _, _ => .lowerOrEqual

/-! ### `Platform.parse` for the documented families -/

inductive PlatErr where
  | valueError        -- `Arch.parse` / tuple unpacking `ValueError` escapes
  | typeError         -- `Illumos(release)`: the dataclass needs two arguments
  | platformError     -- a generic name with an unknown architecture
deriving DecidableEq, Repr

/-- leading digits, then `_` -/
def digitsThenUnderscore (s : List Char) : Option (Nat × List Char) :=
  let (d, r) := s.span Char.isDigit
  match r with
  | '_' :: rest => if d.isEmpty then none else some (d.foldl (fun n c => n * 10 + (c.toNat - '0'.toNat)) 0, rest)
  | _ => none

def archChars (s : List Char) : Bool :=
  !s.isEmpty && s.all fun c => c.isLower || c.isDigit || c == '_'

def parseArch (s : List Char) : Except PlatErr Arch :=
  match Arch.parse? (String.ofList s) with
  | some a => .ok a
  | none => .error .valueError

/-- the `_platform_major_minor_re` branch -/
def parseMajorMinor (mk : Nat → Nat → Os) (rest : List Char) : Option (Except PlatErr Platform) :=
  match digitsThenUnderscore rest with
  | none => none
  | some (major, r1) =>
    match digitsThenUnderscore r1 with
    | none => none
    | some (minor, r2) =>
      if archChars r2 then some ((parseArch r2).map fun a => ⟨mk major minor, a⟩) else none

def dropPrefix? (pre s : List Char) : Option (List Char) :=
  if pre.isPrefixOf s then some (s.drop pre.length) else none

/-- the `_platform_major_minor_re` families -/
def familyRe (l : List Char) : Option (Except PlatErr Platform) :=
  match dropPrefix? "manylinux_".toList l with
  | some r => parseMajorMinor .manylinux r
  | none =>
    match dropPrefix? "macos_".toList l with
    | some r => parseMajorMinor .macos r
    | none =>
      match dropPrefix? "musllinux_".toList l with
      | some r => parseMajorMinor .musllinux r
      | none => none

/-- the final `else` of `Platform.parse`: BSD families by name, anything else a `Generic` OS -/
def parseOther (l : List Char) : Except PlatErr Platform :=
  let (os, r) := l.span (· != '_')
  match r with
  | '_' :: rest =>
    let osS := String.ofList os
    if osS == "illumos" then .error .typeError
    else if osS == "freebsd" || osS == "netbsd" || osS == "openbsd" || osS == "dragonfly" || osS == "haiku" then
      let (rel, r2) := rest.span (· != '_')
      match Arch.parse? (String.ofList (r2.drop 1)) with
      | some a => .ok ⟨.unordered osS (String.ofList rel), a⟩
      | none => .error .valueError
    else
      match Arch.parse? (String.ofList rest) with
      | some a => .ok ⟨.unordered "generic" osS, a⟩
      | none => .error .platformError
  | _ => .error .valueError       -- `os_, arch = platform.split("_", 1)` cannot unpack

/-- `Platform.parse` (platform.py:41-92) -/
def parsePlatform (s : String) : Except PlatErr Platform :=
  if s == "linux" then .ok ⟨.manylinux 2 17, .x86_64⟩
  else if s == "windows" then .ok ⟨.windows, .x86_64⟩
  else if s == "macos" then .ok ⟨.macos 14 0, .aarch64⟩
  else if s == "alpine" then .ok ⟨.musllinux 1 2, .x86_64⟩
  else
    let l := s.toList
    match dropPrefix? "windows_".toList l with
    | some rest => (parseArch rest).map fun a => ⟨.windows, a⟩
    | none =>
      if s == "macos_arm64" then .ok ⟨.macos 14 0, .aarch64⟩
      else if s == "macos_x86_64" then .ok ⟨.macos 14 0, .x86_64⟩
      else
        match familyRe l with
        | some r => r
        | none => parseOther l

/-! ### wheel file names -/

def splitC (c : Char) : List Char → List (List Char)
  | [] => [[]]
  | x :: xs =>
    if x == c then [] :: splitC c xs
    else
      match splitC c xs with
      | [] => [[x]]
      | h :: t => (x :: h) :: t

inductive WheelErr where
  | badExtension | badPartCount
deriving Repr, DecidableEq

/-- `parse_wheel_tags` (tags.py:18-33) on characters -/
def parseWheelTags (name : List Char) : Except WheelErr (List (List Char) × List (List Char) × List (List Char)) :=
  let ext := ".whl".toList
  if name.length < 4 || name.drop (name.length - 4) != ext then .error .badExtension
  else
    let body := name.take (name.length - 4)
    let dashes := body.count '-'
    if dashes != 4 && dashes != 5 then .error .badPartCount
    else
      let parts := splitC '-' body
      match parts.reverse with
      -- the `fix:` for D31: tags are lower-cased, as packaging.tags.Tag does (ASCII: tags are alphanumeric)
      | plat :: abi :: py :: _ =>
        .ok (splitC '.' (py.map Char.toLower), splitC '.' (abi.map Char.toLower), splitC '.' (plat.map Char.toLower))
      | _ => .error .badPartCount

end DepLogic
