import DepLogic.Model.Order
import DepLogic.Model.Range
import DepLogic.Model.Spec
import DepLogic.Proofs.RangeLemmas
import DepLogic.Proofs.SpecLemmas
import DepLogic.Proofs.InvertLemmas
import DepLogic.Proofs.SpecTheorems
