"""Codec, generators and oracles for version specifiers (C01, C04, C05, C06, C13, C14, C17)."""
from __future__ import annotations

import itertools

from . import core

core.setup_repo_path()

from packaging.version import Version  # noqa: E402

from dep_logic.specifiers import (  # noqa: E402
    AnySpecifier,
    ArbitrarySpecifier,
    EmptySpecifier,
    RangeSpecifier,
    UnionSpecifier,
    parse_version_specifier,
)

# ------------------------------------------------------------------ codec

def enc_ver(v) -> str:
    return "-" if v is None else str(v)


def enc_bool(b) -> str:
    return "t" if b else "f"


def enc_range(r: RangeSpecifier) -> str:
    t = r.simplified if r.simplified is not None else "-"
    return f"R({enc_ver(r.min)},{enc_ver(r.max)},{enc_bool(r.include_min)},{enc_bool(r.include_max)},{t})"


def enc_spec(s) -> str:
    if isinstance(s, EmptySpecifier):
        return "E"
    if isinstance(s, AnySpecifier):
        return "A"
    if isinstance(s, RangeSpecifier):
        return enc_range(s)
    if isinstance(s, UnionSpecifier):
        t = s.simplified if s.simplified is not None else "-"
        return "U[" + ";".join(enc_range(r) for r in s.ranges) + "]{" + t + "}"
    if isinstance(s, ArbitrarySpecifier):
        return f"X({s.target})"
    return f"other:{type(s).__name__}"


def enc_T(b) -> str:
    return "T" if b else "F"


def enc_exc(e: BaseException) -> str:
    return "raise:" + type(e).__name__


# ------------------------------------------------------------------ structural reading

def rmem(r: RangeSpecifier, v: Version) -> bool:
    lo = r.min is None or r.min < v or (r.min == v and r.include_min)
    hi = r.max is None or v < r.max or (r.max == v and r.include_max)
    return lo and hi


def smem(s, v: Version) -> bool:
    """membership 'read structurally from the bounds' on a real specifier object"""
    if isinstance(s, EmptySpecifier):
        return False
    if isinstance(s, AnySpecifier):
        return True
    if isinstance(s, RangeSpecifier):
        return rmem(s, v)
    if isinstance(s, UnionSpecifier):
        return any(rmem(r, v) for r in s.ranges)
    raise TypeError(type(s))


def range_wf(r: RangeSpecifier) -> bool:
    if r.min is None and r.include_min or r.max is None and r.include_max:
        return False
    if r.min is not None and r.max is not None:
        return r.min < r.max or (r.min == r.max and r.include_min and r.include_max)
    return True


def sep(a: RangeSpecifier, b: RangeSpecifier) -> bool:
    if a.max is None or b.min is None:
        return False
    return a.max < b.min or (a.max == b.min and not a.include_max and not b.include_min)


def is_canon(s) -> bool:
    """the canonical shape C05 names, evaluated on a real object"""
    if isinstance(s, (EmptySpecifier, AnySpecifier)):
        return True
    if isinstance(s, RangeSpecifier):
        return range_wf(s)
    if isinstance(s, UnionSpecifier):
        rs = s.ranges
        return (len(rs) >= 2 and all(isinstance(r, RangeSpecifier) and range_wf(r) for r in rs)
                and all(sep(rs[i], rs[j]) for i in range(len(rs)) for j in range(i + 1, len(rs))))
    return False


# ------------------------------------------------------------------ version pools

# ascending groups of equal-key spellings; shapes: release lengths, trailing zeros, pre/post/dev, epoch
VERSION_LADDER: list[list[str]] = [
    ["0.dev0"], ["0a1"], ["0", "0.0", "0.0.0"], ["0.0.post1"], ["0.0.1.dev3"], ["0.0.1"],
    ["0.2", "0.2.0"], ["0.9.9"], ["1.dev0", "1.0.dev0"], ["1a1", "1.0a1"], ["1.0a1.post2"], ["1.0b2.dev1"],
    ["1.0b2"], ["1rc1", "1.0rc1", "1.0.0rc1"], ["1", "1.0", "1.0.0", "1.0.0.0"], ["1.0.post0.dev0"],
    ["1.0.post0", "1.post0"], ["1.0.post1"], ["1.0.0.1"], ["1.0.1"], ["1.1.dev1"], ["1.1", "1.1.0"],
    ["1.2"], ["1.2.0.1"], ["1.2.1.0", "1.2.1"], ["1.10"], ["1.10.post3"], ["2.dev1"], ["2a0"], ["2", "2.0", "2.0.0"],
    ["2.0.1"], ["2.1"], ["2.20rc3"], ["2.20"], ["3"], ["3.0.post1"], ["3.6"], ["3.7.0"], ["3.7.1"], ["3.8"],
    ["3.8.0.post1"], ["3.9"], ["3.10", "3.10.0"], ["3.10.4"], ["3.11"], ["3.12.0a1"], ["3.12"], ["4.0"], ["10"],
    ["2020.1"], ["1!0.dev1"], ["1!0", "1!0.0"], ["1!1.0a1"], ["1!1.0", "1!1"], ["1!1.0.post1"], ["1!2.3"], ["2!0", "2!0.0"], ["2!0.1"], ["3!0"],
]


def check_ladder() -> None:
    prev = None
    for grp in VERSION_LADDER:
        vs = [Version(x) for x in grp]
        assert all(str(v) == x for v, x in zip(vs, grp)), grp
        assert all(v == vs[0] for v in vs), grp
        if prev is not None:
            assert prev < vs[0], (prev, vs[0])
        prev = vs[0]


check_ladder()


def pick_chain(rng, n: int) -> list[list[Version]]:
    """n ascending groups (each a list of equal-key spellings) from the ladder"""
    idx = sorted(rng.sample(range(len(VERSION_LADDER)), n))
    return [[Version(x) for x in VERSION_LADDER[i]] for i in idx]


# ------------------------------------------------------------------ order-type exhaustive sets

def cells_to_spec(cells: tuple[bool, ...], points: list[list[Version]], rng, universal_as_any=False):
    """cells: 2k+1 booleans over (-inf,p1),{p1},(p1,p2),...,{pk},(pk,inf) -> canonical object.
    Each use of a point picks one of its equal-key spellings."""
    k = len(points)
    assert len(cells) == 2 * k + 1
    ranges = []
    i = 0
    n = len(cells)
    while i < n:
        if not cells[i]:
            i += 1
            continue
        j = i
        while j + 1 < n and cells[j + 1]:
            j += 1
        # cell i .. j included
        if i == 0:
            mn, imn = None, False
        elif i % 2 == 1:            # starts at point cell -> inclusive at that point
            mn, imn = rng.choice(points[(i - 1) // 2]), True
        else:                       # starts at open gap after point i/2-1
            mn, imn = rng.choice(points[i // 2 - 1]), False
        if j == n - 1:
            mx, imx = None, False
        elif j % 2 == 1:
            mx, imx = rng.choice(points[(j - 1) // 2]), True
        else:
            mx, imx = rng.choice(points[j // 2]), False
        ranges.append(RangeSpecifier(mn, mx, imn, imx))
        i = j + 1
    if not ranges:
        return EmptySpecifier()
    if len(ranges) == 1:
        r = ranges[0]
        if universal_as_any and r.min is None and r.max is None:
            return AnySpecifier()
        return r
    return UnionSpecifier(tuple(ranges))


def all_cell_sets(k: int):
    return list(itertools.product([False, True], repeat=2 * k + 1))


def probes_for(points: list[list[Version]], between: list[Version]) -> list[Version]:
    out = []
    for grp in points:
        out.extend(grp[:1])
    return out + between


# ------------------------------------------------------------------ leaf grammar / random expressions

OPS_SIMPLE = [">", ">=", "<", "<=", "==", "!=", "~="]


def random_leaf(rng, pool: list[str]) -> str:
    """one PEP 440 clause over canonical spellings (model-comparable)"""
    while True:
        kind = rng.random()
        v = rng.choice(pool)
        ver = Version(v)
        if kind < 0.12:
            # wildcard: release prefix only
            rel = list(ver.release)
            cut = rng.randint(1, len(rel))
            pre = ("" if ver.epoch == 0 else f"{ver.epoch}!") + ".".join(map(str, rel[:cut]))
            return rng.choice(["==", "!="]) + pre + ".*"
        if kind < 0.22:
            if len(ver.release) < 2:
                continue
            return "~=" + v
        op = rng.choice([">", ">=", "<", "<=", "==", "!="])
        return op + v


def random_clause_set(rng, pool) -> str:
    n = rng.choice([1, 1, 1, 2, 2, 3])
    return ",".join(random_leaf(rng, pool) for _ in range(n))


def all_spellings() -> list[str]:
    return [x for grp in VERSION_LADDER for x in grp]
