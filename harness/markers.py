"""Codec, generators and oracles for markers."""
from __future__ import annotations

import itertools
import signal

from . import core

core.setup_repo_path()

from packaging.markers import Marker as PkgMarker  # noqa: E402
from packaging.markers import Variable  # noqa: E402

from dep_logic.markers import AnyMarker, EmptyMarker, MarkerUnion, MultiMarker, parse_marker  # noqa: E402
from dep_logic.markers.single import (EqualityMarkerUnion, InequalityMultiMarker, MarkerExpression,  # noqa: E402
                                      SingleMarker)

# ----------------------------------------------------------------------------- codec

_ESC = set('% :[](),\t;={}"')


def enc(s: str) -> str:
    if s == "":
        return "%e"
    out = []
    for c in s:
        o = ord(c)
        if (c in _ESC or o < 32 or o > 126) and o < 256:
            out.append("%%%02X" % o)
        else:
            out.append(c)
    return "".join(out)


def enc_marker(m) -> str:
    if isinstance(m, AnyMarker):
        return "any"
    if isinstance(m, EmptyMarker):
        return "empty"
    if isinstance(m, MarkerExpression):
        return f"(a {enc(m.name)} {enc(m.op)} {enc(m.value)} {'t' if m.reversed else 'f'})"
    if isinstance(m, EqualityMarkerUnion):
        return "(eq " + enc(m.name) + " " + " ".join(enc(v) for v in m.values) + ")"
    if isinstance(m, InequalityMultiMarker):
        return "(ne " + enc(m.name) + " " + " ".join(enc(v) for v in m.values) + ")"
    if isinstance(m, MultiMarker):
        return "(and" + "".join(" " + enc_marker(c) for c in m.markers) + ")"
    if isinstance(m, MarkerUnion):
        return "(or" + "".join(" " + enc_marker(c) for c in m.markers) + ")"
    return f"other:{type(m).__name__}"


def enc_ast(items) -> str:
    """packaging's parsed marker list -> protocol tokens"""
    out = ["["]
    for it in items:
        if isinstance(it, list):
            out.append(enc_ast(it))
        elif isinstance(it, tuple):
            lhs, op, rhs = it
            v = isinstance(lhs, Variable)
            out.append(f"a:{'t' if v else 'f'}:{enc(str(lhs.value))}:{enc(str(op.value))}:{enc(str(rhs.value))}")
        else:
            out.append(str(it))
    out.append("]")
    return " ".join(out)


def leaf_tokens(text: str) -> str:
    return "P " + enc_ast(PkgMarker(text)._markers)


def enc_env(env: dict) -> str:
    parts = []
    for k, v in env.items():
        if isinstance(v, (set, frozenset, list, tuple)):
            parts.append(f"{enc(k)}={{{','.join(enc(x) for x in sorted(v))}}}")
        else:
            parts.append(f"{enc(k)}={enc(v)}")
    return ";".join(parts)


# ----------------------------------------------------------------------------- expressions

class E:
    """expression over leaf marker texts; evaluated by the implementation and (as tokens) by the model"""

    def __init__(self, kind, *args):
        self.kind = kind
        self.args = args

    def tokens(self) -> str:
        k, a = self.kind, self.args
        if k == "leaf":
            return leaf_tokens(a[0])
        if k == "and":
            return "& " + a[0].tokens() + " " + a[1].tokens()
        if k == "or":
            return "| " + a[0].tokens() + " " + a[1].tokens()
        if k == "only":
            return "only " + ",".join(enc(n) for n in a[1]) + " " + a[0].tokens()
        if k == "exclude":
            return "exclude " + enc(a[1]) + " " + a[0].tokens()
        if k in ("rawand", "rawor"):
            return ("M " if k == "rawand" else "U ") + str(len(a)) + "".join(" " + x.tokens() for x in a)
        if k == "empty":
            return "E"
        if k == "any":
            return "A"
        raise ValueError(k)

    def run(self):
        k, a = self.kind, self.args
        if k == "leaf":
            return parse_marker(a[0])
        if k == "and":
            return a[0].run() & a[1].run()
        if k == "or":
            return a[0].run() | a[1].run()
        if k == "only":
            return a[0].run().only(*a[1])
        if k == "exclude":
            return a[0].run().without_extras() if (a[1] == "extra" and len(a) > 2) else a[0].run().exclude(a[1])
        if k == "rawand":
            return MultiMarker(*[x.run() for x in a])
        if k == "rawor":
            return MarkerUnion(*[x.run() for x in a])
        if k == "empty":
            return EmptyMarker()
        if k == "any":
            return AnyMarker()
        raise ValueError(k)

    def show(self) -> str:
        k, a = self.kind, self.args
        if k == "leaf":
            return f"[{a[0]}]"
        if k in ("and", "or"):
            return f"({a[0].show()} {'&' if k == 'and' else '|'} {a[1].show()})"
        if k == "only":
            return f"{a[0].show()}.only({','.join(a[1])})"
        if k in ("rawand", "rawor"):
            return ("MultiMarker(" if k == "rawand" else "MarkerUnion(") + ", ".join(x.show() for x in a) + ")"
        if k in ("empty", "any"):
            return "<" + k + ">"
        return f"{a[0].show()}.exclude({a[1]})"

    def leaves(self):
        if self.kind == "leaf":
            return [self.args[0]]
        out = []
        for x in self.args:
            if isinstance(x, E):
                out += x.leaves()
        return out

    def to_json(self):
        return [self.kind] + [x.to_json() if isinstance(x, E) else x for x in self.args]

    @staticmethod
    def from_json(j):
        return E(j[0], *[E.from_json(x) if isinstance(x, list) and x and isinstance(x[0], str) and x[0] in
                         ("leaf", "and", "or", "only", "exclude", "rawand", "rawor", "empty", "any") else (tuple(x) if isinstance(x, list) else x) for x in j[1:]])


class Timeout(Exception):
    pass


def _alarm(*_a):
    raise Timeout()


signal.signal(signal.SIGALRM, _alarm)


def timed(f, seconds=1.0):
    """run f under a time budget: cnf/dnf can blow up exponentially (not a property)"""
    signal.setitimer(signal.ITIMER_REAL, seconds)
    try:
        return f()
    finally:
        signal.setitimer(signal.ITIMER_REAL, 0)


# ----------------------------------------------------------------------------- generators

STR_VARS = {
    "os_name": ["posix", "nt", "pos", "java", ""],
    "sys_platform": ["linux", "darwin", "win32", "lin", "linux2", "win"],
    "platform_machine": ["x86_64", "arm64", "aarch64", "x86", "arm"],
    "platform_system": ["Linux", "Darwin", "Windows"],
    "implementation_name": ["cpython", "pypy"],
    "platform_python_implementation": ["CPython", "PyPy"],
}
IN_LITS = {
    "os_name": ["posix nt", "posix", "nt java"],
    "sys_platform": ["linux darwin", "linux", "win32 cygwin", "linux2"],
    "platform_machine": ["x86_64 amd64", "arm64 aarch64", "x86_64"],
    "platform_system": ["Linux Darwin", "Windows"],
    "implementation_name": ["cpython pypy"],
    "platform_python_implementation": ["CPython PyPy"],
}
PV = ["2.7", "3", "3.6", "3.7", "3.8", "3.9", "3.10", "3.11", "3.12", "4.0"]
PFV = ["2.7.18", "3.6", "3.7.0", "3.7.3", "3.8", "3.8.0", "3.8.10", "3.9.1", "3.10", "3.10.0", "3.10.4", "3.11.2", "3.12.0"]
REL = ["5.4", "5.10.0", "5.15", "6.1", "6.1.0", "10"]
EXTRAS = ["foo", "Foo", "foo_bar", "foo-bar", "foo.bar", "test", "docs"]
CMP = ["==", "!=", "<", "<=", ">", ">="]
NONFINAL = ["3.8.0rc1", "3.9.0b2", "3.10.0.dev1", "3.8.0.post1", "3.9.1a1"]


def q(s: str) -> str:
    return '"' + s + '"'


def atom(rng, profile="all") -> str:
    """one well-defined PEP 508 atom as text"""
    r = rng.random()
    if r < 0.015:
        # literals that need care when rendered (fixed defect D27): a double quote, a backslash, both quote characters
        lit = rng.choice(['say "hi"', 'a\\b', "it's", 'both \' and "', 'dir\\', '#1 SMP "x"'])
        ql = ("'" + lit + "'") if "'" not in lit else ('"' + lit.replace('"', '\\x22') + '"')
        ql = ql.replace("\\", "\\\\") if "\\x22" not in ql else ql
        return f"platform_version {rng.choice(['==', '!='])} {ql}"
    if r < 0.02:
        # a NUL inside a literal (fixed defect D36: it was rendered raw, which nothing parses back)
        return rng.choice(['platform_version == "a\\x00b"', 'platform_version != "\\0"', '"\\x00" in platform_version'])
    if r < 0.03:
        # a comparison whose operand is a specifier EXPRESSION, not a version (fixed defect D35: the specifier view spliced
        # it into `op + operand` and the atom was merged through that): evaluated by the string fallback, never merged
        return rng.choice(['python_version == "3.8,!=3.9"', 'python_full_version >= "3.8,<3.9"', 'python_version != "3.8||==3.9"',
                           'python_full_version == "3.8.1,!=3.8.2"', 'platform_release != "5.10,!=6.1"', '"3.8,<3.9" == python_version'])
    if r < 0.38:
        name = rng.choice(list(STR_VARS))
        k = rng.random()
        if k < 0.55:
            op = rng.choice(["==", "!="])
            lit = rng.choice(STR_VARS[name])
            return f"{q(lit)} {op} {name}" if rng.random() < 0.2 else f"{name} {op} {q(lit)}"
        if k < 0.8:
            return f"{name} {rng.choice(['in', 'not in'])} {q(rng.choice(IN_LITS[name]))}"
        return f"{q(rng.choice(STR_VARS[name]))} {rng.choice(['in', 'not in'])} {name}"
    if r < 0.62:
        k = rng.random()
        if k < 0.02:
            # `"lit" in name` on a version variable: a substring test on the value (fixed defect D26), never merged
            return rng.choice([f'{q(rng.choice(["3", "3.1", "3.10"]))} {rng.choice(["in", "not in"])} python_full_version',
                               f'{q(rng.choice(["3", "3.1", "2"]))} {rng.choice(["in", "not in"])} python_version',
                               f'{q(rng.choice(["5", "5.1", "6.1"]))} {rng.choice(["in", "not in"])} platform_release'])
        if k < 0.06:
            # literal-on-the-left atoms whose specifier view is not exact (fixed defect D21): `~=`, wildcard or
            # pre/post/dev literal on the left
            return rng.choice([f'{q(rng.choice(PV[2:]))} ~= python_version', f'{q(rng.choice(PFV))} ~= python_full_version',
                               f'{q(rng.choice(["3.*", "3.8.*"]))} {rng.choice(["==", "!="])} python_version',
                               f'{q(rng.choice(["3.8.*", "3.*"]))} {rng.choice(["==", "!="])} python_full_version',
                               f'{q(rng.choice(NONFINAL))} {rng.choice(CMP)} python_full_version',
                               f'{q(rng.choice(REL))} {rng.choice(CMP)} platform_release'])
        if k < 0.12:
            # python_version operands that are not major.minor (fixed defect D22): three significant components,
            # a pre/post/dev segment, a deep wildcard -- never merged with python_full_version atoms
            return rng.choice([f'python_version {rng.choice(CMP)} {q(rng.choice(["3.8.1", "3.9.2", "3.10.0.1"]))}',
                               f'python_version {rng.choice(CMP)} {q(rng.choice(["3.9rc1", "3.9.0rc1", "3.8.0.post1", "3.10.dev1"]))}',
                               f'python_version {rng.choice(["==", "!="])} {q(rng.choice(["3.8.1.*", "3.8.0.*"]))}',
                               f'python_version ~= {q(rng.choice(["3.8.1", "3.8.0", "3.9.2.1"]))}'])
        if k < 0.7:
            op = rng.choice(CMP)
            v = rng.choice(PV)
            return f"{q(v)} {op} python_version" if rng.random() < 0.2 else f"python_version {op} {q(v)}"
        if k < 0.8:
            return f"python_version ~= {q(rng.choice([v for v in PV if '.' in v]))}"
        if k < 0.9:
            vs = rng.sample([v for v in PV if "." in v], rng.randint(1, 3))
            return f"python_version {rng.choice(['in', 'not in'])} {q(', '.join(vs))}"
        return f"python_version {rng.choice(['==', '!='])} {q(rng.choice(['3.*', '2.*']))}"
    if r < 0.82:
        k = rng.random()
        if k < 0.75:
            op = rng.choice(CMP)
            v = rng.choice(PFV)
            return f"{q(v)} {op} python_full_version" if rng.random() < 0.2 else f"python_full_version {op} {q(v)}"
        if k < 0.88:
            return f"python_full_version ~= {q(rng.choice([v for v in PFV if v.count('.') >= 1]))}"
        return f"python_full_version {rng.choice(['==', '!='])} {q(rng.choice(['3.8.*', '3.*', '3.10.*']))}"
    if r < 0.86:
        return f"platform_release {rng.choice(CMP)} {q(rng.choice(REL))}"
    if r < 0.88:
        # implementation_version: evaluated as a version, specifier view a string comparison (fixed defect D24): never merged
        v = rng.choice(["3.8", "3.8.0", "3.9.1", "3.10", "7.3.11"])
        k = rng.random()
        if k < 0.6:
            return f"implementation_version {rng.choice(CMP)} {q(v)}"
        if k < 0.8:
            return f"{q(v)} {rng.choice(CMP)} implementation_version"
        return rng.choice([f'{q(rng.choice(["3.8.*", "3.*"]))} {rng.choice(["==", "!="])} implementation_version',
                           f'implementation_version {rng.choice(["==", "!="])} {q(rng.choice(["3.8.*", "3.*"]))}'])
    if r < 0.97 or profile == "noextras":
        return f"extra {rng.choice(['==', '!='])} {q(rng.choice(EXTRAS))}"
    return f"{q(rng.choice(EXTRAS))} {rng.choice(['in', 'not in'])} {rng.choice(['extras', 'dependency_groups'])}"


def marker_text(rng, depth=2, profile="all") -> str:
    if depth == 0 or rng.random() < 0.3:
        return atom(rng, profile)
    op = rng.choice([" and ", " or "])
    n = rng.choice([2, 2, 3])
    parts = []
    for _ in range(n):
        t = marker_text(rng, depth - 1, profile)
        parts.append(f"({t})" if (" and " in t or " or " in t) else t)
    return op.join(parts)


def envs_for(texts, rng, limit=40):
    """environment grid derived from the literals of the markers (values, neighbours, fresh strings)"""
    import re
    lits = set()
    for t in texts:
        lits.update(re.findall(r'"([^"]*)"', t))
    fulls = {"3.8.0", "3.10.4", "2.7.18"}
    for lit in lits:
        for part in lit.split(","):
            part = re.sub(r"(\.?(post|dev)\d+|(a|b|rc)\d+)$", "", part.strip().replace(".*", ""))
            if re.fullmatch(r"\d+(\.\d+){0,2}", part):
                xs = [int(x) for x in part.split(".")] + [0, 0]
                X, Y, Z = xs[0], xs[1], xs[2]
                fulls.update({f"{X}.{Y}.{Z}", f"{X}.{Y}.{Z + 1}", f"{X}.{Y + 1}.0"})
                if Z > 0:
                    fulls.add(f"{X}.{Y}.{Z - 1}")
                if Y > 0:
                    fulls.add(f"{X}.{Y - 1}.9")
    fulls = sorted(fulls, key=lambda s: [int(x) for x in s.split(".")])
    strs = {k: sorted(set(v) | {x for lit in lits for x in [lit] if False} | {"zzz"}) for k, v in STR_VARS.items()}
    extras_pool = [set(), {"foo"}, {"Foo_Bar"}, {"foo.bar", "test"}, {"docs"}, {"zzz"}]
    out = []
    for _ in range(limit):
        full = rng.choice(fulls)
        X, Y = full.split(".")[:2]
        ex = rng.choice(extras_pool)
        env = {"python_full_version": full, "python_version": f"{X}.{Y}",
               "platform_release": rng.choice(REL + ["5.9", "6.2.1"]),
               "implementation_version": full,
               "platform_version": rng.choice(["#1", 'say "hi"', "a\\b", "it's"]), "extra": set(ex), "extras": set(ex),
               "dependency_groups": set(rng.choice(extras_pool))}
        for k, v in strs.items():
            env[k] = rng.choice(v)
        out.append(env)
    return out


def g2_applies(texts, env) -> bool:
    """G2: PEP 508 evaluates `python_version in "3.10, 3.11"` by *substring*, the specifier view reads a *list*;
    true when the two readings differ for this environment (known finding, see DESIGN.md)"""
    import re
    from packaging.version import Version
    for t in texts:
        for name, lit in re.findall(r'(python_version|python_full_version|platform_release) (?:not in|in) "([^"]*)"', t):
            val = env.get(name)
            if not isinstance(val, str):
                continue
            substring = val in lit
            listed = False
            for part in lit.split(","):
                part = part.strip()
                try:
                    pv, vv = Version(part), Version(val)
                except Exception:  # noqa: BLE001
                    continue
                n = len(part.split("."))
                if name == "python_version" and n < 3:
                    listed |= (vv.release + (0, 0))[:n] == pv.release[:n]
                else:
                    listed |= vv == pv
            if substring != listed:
                return True
    return False


def d4a_applies(texts) -> bool:
    """D4a reaching markers: an exclusive upper bound that is a post-release (`python_full_version < "4.0.post1"`).
    RangeSpecifier._simplified_form renders [A, B.postN) as `~=A` when B is the next series of A, and from_specifier /
    the merge of two atoms then builds an atom that means [A, B) (known finding, call site range.py `~=` branch)"""
    import re
    for t in texts:
        if re.search(r'(python_version|python_full_version|platform_release) < "[^"]*post[^"]*"', t):
            return True
    return False


def model_evaluable(texts) -> bool:
    """the model's `Atom.eval` covers final candidates only: a literal-on-the-left version atom with a pre/post/dev
    literal is evaluated by packaging's pre-release rules, outside the model (its structure is still compared)"""
    import re
    for t in texts:
        if re.search(r'"[^"]*\d(a|b|rc|\.?dev|\.?post)\d[^"]*" (==|!=|<=|>=|<|>|~=) (python_version|python_full_version|platform_release)', t):
            return False
    return True


def known_family(texts, env):
    """call-site family of a known finding this failure can be attributed to, or None"""
    if env is not None and g2_applies(texts, env):
        return "version-in-substring"
    if d4a_applies(texts):
        return "compat-render-postrelease-max"
    if env is not None and g3_applies(env):
        return "prerelease-interpreter-exclusive-bound"
    if g5_applies(texts):
        return "string-ordering-fallback"
    return None


_STRV = "os_name|sys_platform|platform_machine|platform_system|implementation_name|platform_python_implementation|platform_version"


def g5_applies(texts) -> bool:
    """G5: an ordering operator on a plain string variable (`os_name < "posix"`): Python string comparison here, while
    packaging 26 answers False for < and > and equality for <= and >= when the operands are not versions"""
    import re
    for t in texts:
        if re.search(rf'({_STRV}) (<=|>=|<|>) "', t) or re.search(rf'" (<=|>=|<|>) ({_STRV})\b', t):
            return True
        # the same fallback (`oper(lhs, rhs)` at the end of `_evaluate`) on a version variable whose operand is not a version
        if re.search(r'(python_version|python_full_version|platform_release|implementation_version) (<=|>=|<|>) "[^"]*[,|][^"]*"', t):
            return True
    return False


G5_CASES = [('os_name < "posix"', {"os_name": "nt"}), ('sys_platform >= "linux"', {"sys_platform": "linux2"}),
            ('"darwin" > sys_platform', {"sys_platform": "cygwin"}), ('platform_machine <= "x86_64"', {"platform_machine": "arm64"})]


def g3_applies(env) -> bool:
    """G3: the interpreter is a pre-, post- or dev-release (python_full_version "3.13.0rc1"): PEP 440's exclusive ordered
    comparisons (`<V` rejects pre-releases of V, `>V` rejects post-releases of V) are not interval tests"""
    import re
    v = env.get("python_full_version")
    return isinstance(v, str) and re.fullmatch(r"\d+(\.\d+)*", v) is None


# (operand, operand, kind, interpreter) on which the simplified result differs from the operands (known finding G3)
G3_CASES = [('python_full_version < "3.13"', 'python_full_version >= "3.13"', "or", "3.13.0rc1"),
            ('python_full_version > "3.12.0"', 'python_full_version <= "3.12.0"', "or", "3.12.0.post1"),
            ('python_full_version < "3.13"', 'python_full_version == "3.13.0"', "or", "3.13.0rc1"),
            ('python_version < "3.13"', 'python_full_version >= "3.13"', "or", "3.13.0rc1")]


# (lower atom, post-release upper atom, environment in which the merged atom differs from the operands)
D4A_PAIRS = [('python_full_version >= "3.7"', 'python_full_version < "4.0.post1"', "4.0.0"),
             ('python_full_version >= "3.7.5"', 'python_full_version < "3.8.post2"', "3.8.0"),
             ('python_full_version >= "2.7"', '"3.0.post1" > python_full_version', "3.0.0"),
             ('python_version >= "3.7"', 'python_version < "4.0.post1"', "4.0.0")]


# python_version atoms with a third ".0" segment, as from_specifier itself produces them (fixed defect D20), and partners
PV3_PAIRS = [('python_version == "3.8.*" and python_version <= "3.8"', 'python_full_version >= "3.8.1"', "3.8.5"),
             ('python_version == "3.8.0"', 'python_full_version >= "3.8.1"', "3.8.5"),
             ('python_version != "3.8.0"', 'python_full_version < "3.8.4"', "3.8.2"),
             ('python_version <= "3.8.0"', 'python_full_version > "3.8.1"', "3.8.5"),
             ('python_version > "3.8.0"', 'python_full_version < "3.9.2"', "3.8.5"),
             ('python_version >= "3.8.0"', 'python_full_version < "3.8.2"', "3.8.1"),
             ('python_version < "3.9.0"', 'python_full_version >= "3.8.2"', "3.8.5"),
             ('python_version ~= "3.8.0"', 'python_full_version >= "3.8.2"', "3.8.5")]


# ----------------------------------------------------------------------------- oracles on real objects

def is_nf(m, top=True) -> bool:
    """the normal form C15 names"""
    if isinstance(m, (AnyMarker, EmptyMarker)):
        return top
    if isinstance(m, (EqualityMarkerUnion, InequalityMultiMarker)):
        # an atom GROUP has at least two distinct values: with one it would be an atom that is not `==` to the atom it
        # renders as, with none a universal / empty marker that does not say so (seed C15g)
        vals = list(m.values)
        return len(vals) >= 2 and len(set(vals)) == len(vals)
    if isinstance(m, SingleMarker):
        return True
    if isinstance(m, (MultiMarker, MarkerUnion)):
        cs = m.markers
        if len(cs) < 2:
            return False
        for i, c in enumerate(cs):
            if isinstance(c, (AnyMarker, EmptyMarker)) or type(c) is type(m) or not is_nf(c, False):
                return False
            if any(c == d for d in cs[:i]):
                return False
        return True
    return False


def variables(m) -> set[str]:
    if isinstance(m, SingleMarker):
        return {m.name}
    if isinstance(m, (MultiMarker, MarkerUnion)):
        out = set()
        for c in m.markers:
            out |= variables(c)
        return out
    return set()


def ev(m, env):
    try:
        return m.evaluate(dict(env))
    except Exception as e:  # noqa: BLE001
        return "raise:" + type(e).__name__


AWKWARD_LITS = ["a\\x00b", "\\0", "a\\ud800b", "x\\udfff", "tab\\there", "nl\\nx", "cr\\rx", "\\x7f", "\\x1b[0m", "\\u00e9",
                "\\u2028", "\\x85", "q\\x22q", "q\\x27q", "both \\x27 and \\x22", "back\\\\slash", "end\\\\", "\\x00\\x22", "\\ud800\\x27\\x22"]


def awkward_literal_texts():
    """marker texts whose literals need care when rendered (fixed defects D27, D36): every literal is written with Python
    escapes, which packaging evaluates; atoms, both operand orders, and the grouped forms `|` / `&` build on one variable"""
    out = []
    for lit in AWKWARD_LITS:
        for var in ("os_name", "platform_version"):
            out += [f'{var} == "{lit}"', f'{var} != "{lit}"', f'"{lit}" in {var}', f'"{lit}" == {var}',
                    f'{var} == "{lit}" or {var} == "nt"', f'{var} != "{lit}" and {var} != "nt"',
                    f'{var} == "{lit}" and sys_platform == "linux" or {var} == "nt"']
        out.append(f'extra == "x{lit}"' if "\\" not in lit.replace("\\x00", "").replace("\\0", "") else f'extra != "y"')
    return out
