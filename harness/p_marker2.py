"""C11 (marker <-> specifier bridge), C13 (equality/hash), C14 (Boolean laws), C10 (memoisation)."""
from __future__ import annotations

import re

import itertools
import json
import os
import subprocess
import sys

from . import core
from . import markers as mk
from . import p_spec
from .markers import E, Timeout, enc, enc_env, enc_marker, ev, timed
from .specs import (AnySpecifier, EmptySpecifier, RangeSpecifier, UnionSpecifier, Version, all_cell_sets, cells_to_spec,
                    enc_spec, enc_T, parse_version_specifier, pick_chain, smem)

from dep_logic.markers.single import MarkerExpression  # noqa: E402
from dep_logic.markers import AnyMarker, EmptyMarker  # noqa: E402

THEOREMS_BY_PROP = {
    "C11": ["DepLogic.C11.coherent_plain", "DepLogic.C11.coherent_clean", "DepLogic.C11.coherent_reversed",
            "DepLogic.C11.reversed_canonical", "DepLogic.C11.reversed_canonical_good", "DepLogic.C11.exactView_guards", "DepLogic.C11.guard_lexOne",
            "DepLogic.C11.lexOne_of_clean", "DepLogic.M.fromSpecOk_of_lex", "DepLogic.M.pyMergeOk_of_fromSpec",
            "DepLogic.M.normGood_of_lex", "DepLogic.pyNorm_sem", "DepLogic.pad_one", "DepLogic.M.lexPrint_final",
            "DepLogic.M.lexNorm_final", "DepLogic.C02.bridge",
            "DepLogic.C04.leaf_exact"],
    "C13": ["DepLogic.C13.spec_refl", "DepLogic.C13.spec_symm", "DepLogic.C13.spec_trans", "DepLogic.C13.spec_hash",
            "DepLogic.C13.spec_interchangeable", "DepLogic.C13.eq_of_beq", "DepLogic.C13.marker_equivalence",
            "DepLogic.C13.marker_congruence", "DepLogic.C13.marker_eval_congr"],
    "C14": ["DepLogic.C14.and_comm", "DepLogic.C14.or_comm", "DepLogic.C14.and_assoc", "DepLogic.C14.or_assoc",
            "DepLogic.C14.and_idem", "DepLogic.C14.or_idem", "DepLogic.C14.absorb_and_or", "DepLogic.C14.absorb_or_and",
            "DepLogic.C14.and_or_distrib", "DepLogic.C14.or_and_distrib", "DepLogic.C14.marker_laws_final",
            "DepLogic.C14.spec_and_comm_mem",
            "DepLogic.C14.spec_and_assoc_mem", "DepLogic.C14.spec_and_idem_mem", "DepLogic.C14.spec_or_comm_mem",
            "DepLogic.C14.spec_or_idem_mem", "DepLogic.C14.spec_absorb_mem", "DepLogic.C14.spec_distrib_mem",
            "DepLogic.C14.spec_invert_involution_mem", "DepLogic.C14.spec_de_morgan_and_mem",
            "DepLogic.C14.spec_complement_mem",
            "DepLogic.C14.obj_and_comm", "DepLogic.C14.obj_and_assoc", "DepLogic.C14.obj_and_idem", "DepLogic.C14.obj_or_comm",
            "DepLogic.C14.obj_or_assoc", "DepLogic.C14.obj_or_idem", "DepLogic.C14.obj_absorb_and_or",
            "DepLogic.C14.obj_absorb_or_and", "DepLogic.C14.obj_and_or_distrib", "DepLogic.C14.obj_or_and_distrib",
            "DepLogic.C14.obj_invert_involution", "DepLogic.C14.obj_de_morgan_and", "DepLogic.C14.obj_de_morgan_or",
            "DepLogic.C14.obj_complement", "DepLogic.Spec.canon_unique"],
    "C10": ["DepLogic.C10.call_ok", "DepLogic.C10.history_transparent", "DepLogic.C10.callN_ok", "DepLogic.C10.history_transparent_tuple", "DepLogic.C10.probe_independent",
            "DepLogic.C10.not_transparent_without_wf"]}
THEOREMS: list[str] = []

# ----------------------------------------------------------------------------- C11

VERSIONS = [f"{X}.{Y}.{Z}" for X in (2, 3, 4) for Y in (0, 1, 6, 7, 8, 9, 10, 11, 12) for Z in (0, 1, 5, 10)]


def c11_atoms(tier):
    out = []
    ops = ["==", "!=", "<", "<=", ">", ">=", "~="]
    pv_vals = ["3", "3.7", "3.8", "3.10", "2.7", "4.0"]
    pfv_vals = ["3.7", "3.8", "3.8.0", "3.8.5", "3.10", "3.10.1", "2.7.18", "3.7.10"]
    for op in ops:
        for v in pv_vals:
            if op == "~=" and "." not in v:
                continue
            out.append(("python_version", op, v))
        for v in pfv_vals:
            out.append(("python_full_version", op, v))
    for v in ["3.*", "2.*"]:
        out += [("python_version", "==", v), ("python_version", "!=", v)]
    for v in ["3.*", "3.8.*", "3.10.*"]:
        out += [("python_full_version", "==", v), ("python_full_version", "!=", v)]
    for lst in ["3.8", "3.8, 3.9", "2.7, 3.10, 3.11", "3.7,3.8"]:
        out += [("python_version", "in", lst), ("python_version", "not in", lst)]
    # every list of up to four entries WITH repetition, in every order (seed C11k: a "consecutive minors" fast path that
    # compares the span with the number of entries, not of distinct entries -- `"3.6, 3.8, 3.8"` read as 3.6..3.8)
    entries = ["3.6", "3.8", "3.9", "2.7"]
    for k in (2, 3, 4):
        for combo in itertools.product(entries, repeat=k):
            lst = ", ".join(combo)
            out += [("python_version", "in", lst), ("python_version", "not in", lst)]
    return out


def simple_specs():
    out = []
    for v in ["3", "3.7", "3.8.0", "3.8.5", "3.10", "2.7.18", "3.8.0.1"]:
        for op in ["==", "!=", "<", "<=", ">", ">="]:
            out.append(op + v)
        if "." in v:
            out.append("~=" + v)
    for v in ["3", "3.8", "3.8.0"]:
        out += [f"=={v}.*", f"!={v}.*"]
    out += [">=3.8,<3.9", ">=3.7,<4.0", ">=3.8.0,<3.9.0", "<3.8||>=3.9", "<3.8||>3.8", ">=3.8,<=3.8", "", "<empty>", ">=3.6,<3.10",
            ">=3.8,<3.8.5", "<3||>=4",
            # D4a shapes: exclusive post-release upper bound that is the next series of the lower bound
            ">=3.7,<4.0.post1", ">=3.7.5,<3.8.post2"]
    return out


LADDER = ["2.7.18", "3", "3.7", "3.8", "3.8.0", "3.8.1", "3.8.5", "3.9", "3.9.0", "3.9.1", "3.10", "3.10.0", "3.10.2", "4", "4.0", "4.0.1"]


def computed_specs():
    """specifiers computed by the algebra (no source text attached, so is_simple()/str() go through the rendering
    heuristics): every ordered pair of a ladder of bounds as a two-range union and as a bounded range
    (seed C11b: a union wrongly recognised as `!=X.Y.*` makes from_specifier return an atom instead of None)"""
    out = []
    for lo, hi in itertools.product(LADDER, LADDER):
        if Version(lo) > Version(hi):
            continue
        for a, b, op in ((f"<{lo}", f">={hi}", "|"), (f"<={lo}", f">{hi}", "|"), (f"<{lo}", f">{hi}", "|"),
                         (f">={lo}", f"<{hi}", "&"), (f">{lo}", f"<={hi}", "&"), (f">={lo}", f"<={hi}", "&")):
            x, y = parse_version_specifier(a), parse_version_specifier(b)
            out.append((f"({a}){op}({b})", (x | y) if op == "|" else (x & y)))
    return out


def run_c11(run: core.Run) -> None:
    n_oracle = 0
    run.exhaustive = True
    for name, op, val in c11_atoms(run.tier):
        for rev in (False, True):
            if rev and op in ("~=", "in", "not in") or (rev and "*" in val):
                continue
            m = MarkerExpression(name, op, val, rev)
            try:
                spec = m.specifier
            except Exception as e:  # noqa: BLE001
                run.fail(core.Failure(f"spec|{name}|{op}|{val}", f"specifier of {m} raised {type(e).__name__}",
                                      {"op": "atom", "atom": [name, op, val, rev]}))
                continue
            run.add(core.Case("specifier", f"m.spec\t{enc(name)}\t{enc(op)}\t{enc(val)}\t{'t' if rev else 'f'}", enc_spec(spec)))
            for full in VERSIONS:
                X, Y, _ = full.split(".")
                value = f"{X}.{Y}" if name == "python_version" else full
                env = {"python_full_version": full, "python_version": f"{X}.{Y}"}
                n_oracle += 1
                want = ev(m, env)
                got = value in spec
                if got != want:
                    f = core.Failure(f"bridge|{m}|{value}", f"{value} in ({m}).specifier = {got} but the atom evaluates to {want}",
                                     {"op": "atom", "atom": [name, op, val, rev], "value": value})
                    f.family = mk.known_family([f'{name} {op} "{val}"'], env)
                    run.fail(f)
    for name in ("python_version", "python_full_version"):
        for text, spec in [(t, parse_version_specifier(t)) for t in simple_specs()] + computed_specs():
            try:
                m = MarkerExpression.from_specifier(name, spec)
            except Exception as e:  # noqa: BLE001
                run.fail(core.Failure(f"from|{name}|{text}", f"from_specifier({name}, {text}) raised {type(e).__name__}",
                                      {"op": "from", "name": name, "spec": text}))
                continue
            out = "None" if m is None else enc_marker(m) + "\t" + str(m)
            if not isinstance(spec, (EmptySpecifier, AnySpecifier)):
                run.add(core.Case("from_specifier", f"m.fromspec\t{enc(name)}\t{enc_spec(spec)}", out))
            if m is None:
                continue
            for full in VERSIONS:
                X, Y, _ = full.split(".")
                value = f"{X}.{Y}" if name == "python_version" else full
                n_oracle += 1
                want = smem(spec, Version(value)) if not isinstance(spec, (EmptySpecifier, AnySpecifier)) else isinstance(spec, AnySpecifier)
                got = ev(m, {"python_full_version": full, "python_version": f"{X}.{Y}"})
                if got != want:
                    f = core.Failure(f"from-eval|{name}|{text}|{value}", f"from_specifier({name}, {text}) = {m} evaluates to {got} "
                                     f"on {value}, the specifier admits: {want}", {"op": "from", "name": name, "spec": text, "value": value})
                    if re.search(r"<\d+(\.\d+)*\.post\d+$", text):
                        f.family = "compat-render-postrelease-max"
                    run.fail(f)
    run.extra["oracle_evaluations"] = n_oracle


# ----------------------------------------------------------------------------- C13

def spec_pool(rng):
    ladder = pick_chain(rng, 5)
    points = [ladder[1], ladder[3]]
    objs = []
    for c in all_cell_sets(2):
        objs.append((c, cells_to_spec(c, points, rng)))
        objs.append((c, cells_to_spec(c, points, rng, universal_as_any=True)))
    probes = [ladder[0][0], ladder[1][0], ladder[2][0], ladder[3][0], ladder[4][0]]
    # the same sets reached by other routes: parsed back from their own text (carries the cached clause text the
    # computed object lacks: `!=X`, `!=X.*`, `~=`), double complement, self-union (seed C13c: hash over the cached text)
    twins = []
    for c, o in objs:
        for build in (lambda x: parse_version_specifier(str(x)), lambda x: ~~x, lambda x: x | x):
            try:
                t = build(o)
            except Exception:  # noqa: BLE001
                continue
            if all(smem(t, q) == smem(o, q) for q in probes):   # (a rendering that changes the set is C06's business)
                twins.append((c, t))
    return objs + twins, probes, points


def marker_pool(rng, n):
    texts = set()
    base = ['python_version > "3.8"', '"3.8" < python_version', 'python_version >= "3.10"', 'python_version >= "3.10.0"',
            'os_name == "posix" or os_name == "nt"', 'os_name == "nt" or os_name == "posix"', '"lin" in sys_platform',
            'sys_platform in "lin"', 'extra == "Foo_bar"', 'extra == "foo-bar"', 'python_full_version >= "3.8"',
            'python_full_version >= "3.8.0"', 'os_name != "nt" and os_name != "posix"', 'os_name != "posix" and os_name != "nt"']
    texts.update(base)
    # one value group built along different routes (seed C13h: an OrderedSet hashing its raw input, duplicates included --
    # only `|` / `&` of two OVERLAPPING groups feed it duplicates): flat, and as groups of groups that share values
    vals = ["a", "b", "c", "d"]
    for var in ("os_name", "sys_platform"):
        for op, glue in (("==", "or"), ("!=", "and")):
            g = lambda vs: f" {glue} ".join(f'{var} {op} "{v}"' for v in vs)  # noqa: E731
            texts.update([g("abc"), g("acb"), f"({g('ab')}) {glue} ({g('bc')})", f"({g('abc')}) {glue} ({g('b')})",
                          f"({g('a')}) {glue} ({g('abc')})", f"({g('ab')}) {glue} ({g('abc')})", f"({g('ab')}) {glue} ({g('cd')})",
                          g("abcd"), f"({g('abc')}) {glue} ({g('bcd')})", f"({g('ab')}) {glue} ({g('ab')})", g("ab")])
    n = max(n, len(texts))
    while len(texts) < n:
        texts.add(mk.marker_text(rng, rng.choice([0, 1, 2])))
    out = []
    for t in sorted(texts):
        try:
            out.append((t, timed(lambda: mk.parse_marker(t))))
        except Exception:  # noqa: BLE001
            pass
    # re-rendered results: equal-but-differently-built objects
    for t, m in list(out)[:40]:
        s = str(m)
        if s and s != "<empty>":
            try:
                out.append((s, timed(lambda: mk.parse_marker(s))))
            except Exception:  # noqa: BLE001
                pass
    return out


def run_c13(run: core.Run, n_markers: int) -> None:
    rng = run.rng
    n_oracle = 0
    objs, probes, points = spec_pool(rng)
    cls = {}
    for i, (c, o) in enumerate(objs):
        for j, (d, p) in enumerate(objs):
            eq = (o == p)
            n_oracle += 1
            run.add(core.Case("spec.eq", f"s.eq\t{enc_spec(o)}\t{enc_spec(p)}", enc_T(eq)))
            rep = {"op": "speceq", "a": enc_spec(o), "b": enc_spec(p)}
            if eq != (p == o):
                run.fail(core.Failure(f"sym|{enc_spec(o)}|{enc_spec(p)}", f"{o!r} == {p!r} is {eq} but the converse is {p == o}", rep))
            if eq != (c == d):
                run.fail(core.Failure(f"eqsem|{enc_spec(o)}|{enc_spec(p)}", f"{o!r} == {p!r} is {eq}; same meaning: {c == d}", rep))
            if eq and hash(o) != hash(p):
                run.fail(core.Failure(f"hash|{enc_spec(o)}|{enc_spec(p)}", f"{o!r} == {p!r} but their hashes differ", rep))
            if eq and len({o, p}) != 1:
                run.fail(core.Failure(f"set|{enc_spec(o)}|{enc_spec(p)}", f"{o!r} == {p!r} but they are two set members", rep))
    # objects at the ends of the order: spellings of the universal set, and ranges bounded by the least PEP 440 version
    # (`>=0.dev0` admits everything but is not `is_any()`: known finding G1) -- `==` must still be an equivalence that
    # agrees with `hash` on them (seed C13e: `is_any()` widened to `>=0.dev0` made it == AnySpecifier() with another hash)
    ends = [AnySpecifier(), RangeSpecifier(), parse_version_specifier(""), ~EmptySpecifier(), parse_version_specifier(">=0.dev0"),
            ~parse_version_specifier("<0.dev0"), parse_version_specifier(">=0.dev0") | parse_version_specifier("<1"),
            parse_version_specifier(">0.dev0"), parse_version_specifier(">=0"), EmptySpecifier(), parse_version_specifier("<empty>"),
            parse_version_specifier("<0.dev0"), ~AnySpecifier(), parse_version_specifier(">=1") & parse_version_specifier("<1")]
    for o, p in itertools.product(ends, ends):
        n_oracle += 1
        eq = (o == p)
        rep = {"op": "speceq", "a": enc_spec(o), "b": enc_spec(p)}
        if eq != (p == o):
            run.fail(core.Failure(f"sym|{enc_spec(o)}|{enc_spec(p)}", f"{o!r} == {p!r} is {eq} but the converse is {p == o}", rep))
        if eq and (hash(o) != hash(p) or len({o, p}) != 1):
            run.fail(core.Failure(f"hash|{enc_spec(o)}|{enc_spec(p)}", f"{o!r} == {p!r} but their hashes differ / two set members", rep))
        if eq:
            # equal spellings of one set are interchangeable as EITHER operand of & and | (seed C13i: the reflected `|` of
            # AnySpecifier aliased to `&`, so `a | AnySpecifier()` differed from `a | RangeSpecifier()`)
            for rt in (">=1.0", "<2", "!=1.5", ">=1,<2||>=3", "==1.*"):
                r = parse_version_specifier(rt)
                for nm, f in (("r|x", lambda x: r | x), ("x|r", lambda x: x | r), ("r&x", lambda x: r & x), ("x&r", lambda x: x & r)):
                    n_oracle += 1
                    try:
                        a1, a2 = f(o), f(p)
                    except Exception as ex:  # noqa: BLE001
                        run.fail(core.Failure(f"ends-op|{enc_spec(o)}|{enc_spec(p)}|{rt}|{nm}", f"{nm} raised {type(ex).__name__} for x = {o!r} / {p!r}", rep))
                        continue
                    if not (a1 == a2) or [smem(a1, q) for q in probes] != [smem(a2, q) for q in probes]:
                        run.fail(core.Failure(f"ends-op|{enc_spec(o)}|{enc_spec(p)}|{rt}|{nm}",
                                              f"{o!r} == {p!r} but {nm} with r = {rt} gives {a1!r} and {a2!r}",
                                              {"op": "endsop", "a": enc_spec(o), "b": enc_spec(p), "r": rt}))
        for r in ends:
            if eq and p == r and not (o == r):
                run.fail(core.Failure(f"trans|{enc_spec(o)}|{enc_spec(p)}|{enc_spec(r)}", "equality is not transitive",
                                      {"op": "spectrans", "a": enc_spec(o), "b": enc_spec(p), "c": enc_spec(r)}))
    # transitivity on triples + interchangeability as operands
    for (c, o), (d, p), (e_, r) in itertools.islice(itertools.product(objs, repeat=3), 0, None, 37):
        n_oracle += 1
        if o == p and p == r and not (o == r):
            run.fail(core.Failure(f"trans|{enc_spec(o)}|{enc_spec(p)}|{enc_spec(r)}", "equality is not transitive",
                                  {"op": "spectrans", "a": enc_spec(o), "b": enc_spec(p), "c": enc_spec(r)}))
        if o == p:
            for f in (lambda x: r & x, lambda x: x | r, lambda x: ~x):
                a1, a2 = f(o), f(p)
                if [smem(a1, q) for q in probes] != [smem(a2, q) for q in probes] or not (a1 == a2):
                    run.fail(core.Failure(f"interch|{enc_spec(o)}|{enc_spec(p)}|{enc_spec(r)}", "equal operands are not interchangeable",
                                          {"op": "spectrans", "a": enc_spec(o), "b": enc_spec(p), "c": enc_spec(r)}))
    # markers
    pool = marker_pool(rng, n_markers)
    envs = mk.envs_for([t for t, _ in pool], rng, 20)
    for (ta, a), (tb, b) in itertools.product(pool, pool):
        eq = (a == b)
        n_oracle += 1
        rep = {"op": "mkeq", "a": ta, "b": tb}
        if eq != (b == a):
            run.fail(core.Failure(f"msym|{ta}|{tb}", f"[{ta}] == [{tb}] is {eq}, converse {b == a}", rep))
        if eq and (hash(a) != hash(b) or len({a, b}) != 1 or {a: 1}.get(b) != 1):
            run.fail(core.Failure(f"mhash|{ta}|{tb}", f"[{ta}] == [{tb}] but hashes differ / they are two set members", rep))
        if eq:
            if any(ev(a, env) != ev(b, env) for env in envs):
                run.fail(core.Failure(f"meval|{ta}|{tb}", f"[{ta}] == [{tb}] but they evaluate differently", rep))
            # interchangeable as operands: a op x and a op y mean the same
            for (tc, c_) in pool[:6]:
                for f in (lambda x: c_ & x, lambda x: x | c_):
                    try:
                        r1, r2 = timed(lambda: f(a)), timed(lambda: f(b))
                    except Exception:  # noqa: BLE001
                        continue
                    if any(ev(r1, env) != ev(r2, env) for env in envs):
                        run.fail(core.Failure(f"minter|{ta}|{tb}|{tc}", f"[{ta}] == [{tb}] but combining them with [{tc}] gives different meanings", rep))
    # deterministic layer (seed C13k: an `__eq__` that zero-pads python_full_version operands, `~=` included, so
    # `~= "3.8"` == `~= "3.8.0"`): every version variable x every operator x every padding of one release x both operand
    # orders; equal atoms must evaluate alike on a FIXED interpreter ladder and be interchangeable with fixed partners
    ladder_full = ["2.7.18", "3.0.0", "3.1.0", "3.7.9", "3.8.0", "3.8.1", "3.8.5", "3.9.0", "3.9.1", "3.10.0", "3.10.4", "4.0.0", "4.1.2"]
    ladder_envs = []
    for full in ladder_full:
        env = dict(envs[0])
        X, Y = full.split(".")[:2]
        env.update({"python_full_version": full, "python_version": f"{X}.{Y}", "implementation_version": full})
        ladder_envs.append(env)
    n_twins = 0
    for var in ("python_version", "python_full_version", "implementation_version"):
        atoms = []
        for op in ("==", "!=", "<", "<=", ">", ">=", "~="):
            for lit in ("3", "3.0", "3.0.0", "3.8", "3.8.0", "3.8.0.0", "3.9", "3.9.0", "3.10", "3.10.0"):
                if op == "~=" and "." not in lit:
                    continue            # `~=3` is not a PEP 440 clause: not a well-defined atom
                for text in (f'{var} {op} "{lit}"', f'"{lit}" {op} {var}'):
                    try:
                        atoms.append((text, timed(lambda: mk.parse_marker(text))))
                    except Exception:  # noqa: BLE001
                        pass
        partners = [mk.parse_marker(f'{var} >= "3.9"'), mk.parse_marker(f'{var} < "3.8.5"'), mk.parse_marker('os_name == "nt"')]
        for (ta, a), (tb, b) in itertools.product(atoms, atoms):
            n_twins += 1
            n_oracle += 1
            eq = (a == b)
            rep = {"op": "mktwin", "a": ta, "b": tb, "var": var}
            if eq != (b == a):
                run.fail(core.Failure(f"msym|{ta}|{tb}", f"[{ta}] == [{tb}] is {eq}, converse {b == a}", rep))
            if not eq:
                continue
            if hash(a) != hash(b) or len({a, b}) != 1:
                run.fail(core.Failure(f"mhash|{ta}|{tb}", f"[{ta}] == [{tb}] but hashes differ / they are two set members", rep))
            if any(ev(a, env) != ev(b, env) for env in ladder_envs):
                run.fail(core.Failure(f"meval|{ta}|{tb}", f"[{ta}] == [{tb}] but they evaluate differently", rep))
            for c_ in partners:
                for f in (lambda x: c_ & x, lambda x: x | c_, lambda x: x & c_, lambda x: c_ | x):
                    try:
                        r1, r2 = timed(lambda: f(a)), timed(lambda: f(b))
                    except Exception:  # noqa: BLE001
                        continue
                    if any(ev(r1, env) != ev(r2, env) for env in ladder_envs):
                        run.fail(core.Failure(f"minter|{ta}|{tb}|{c_}", f"[{ta}] == [{tb}] but combining them with [{c_}] gives different meanings", rep))
    run.extra["padding_twin_pairs"] = n_twins
    sample = rng.sample(pool, min(len(pool), 60))
    for (ta, a), (tb, b) in itertools.product(sample, sample):
        run.add(core.Case("marker.eq", "m.eq\t" + mk.leaf_tokens(ta) + "\t" + mk.leaf_tokens(tb), enc_T(a == b), a == b))
    for (ta, a) in pool:
        if not (a == a):
            run.fail(core.Failure(f"mrefl|{ta}", "marker not equal to itself", {"op": "mkeq", "a": ta, "b": ta}))
    run.extra["oracle_evaluations"] = n_oracle


# ----------------------------------------------------------------------------- C14

def run_c14(run: core.Run, n_spec: int, n_marker: int) -> None:
    rng = run.rng
    n_oracle = 0
    ladder = pick_chain(rng, 7)
    points = [ladder[1], ladder[3], ladder[5]]
    sets = all_cell_sets(3)
    for _ in range(n_spec):
        A, B, C = (rng.choice(sets) for _ in range(3))
        a, b, c = (cells_to_spec(x, points, rng, universal_as_any=rng.random() < 0.2) for x in (A, B, C))
        laws = [
            ("comm&", lambda: a & b, lambda: b & a), ("comm|", lambda: a | b, lambda: b | a),
            ("assoc&", lambda: (a & b) & c, lambda: a & (b & c)), ("assoc|", lambda: (a | b) | c, lambda: a | (b | c)),
            ("idem&", lambda: a & a, lambda: a), ("idem|", lambda: a | a, lambda: a),
            ("absorb1", lambda: a & (a | b), lambda: a), ("absorb2", lambda: a | (a & b), lambda: a),
            ("dist1", lambda: a & (b | c), lambda: (a & b) | (a & c)), ("dist2", lambda: a | (b & c), lambda: (a | b) & (a | c)),
            ("invol", lambda: ~~a, lambda: a), ("dm1", lambda: ~(a & b), lambda: ~a | ~b), ("dm2", lambda: ~(a | b), lambda: ~a & ~b),
        ]
        for name, lf, rf in laws:
            n_oracle += 1
            rep = {"op": "law", "law": name, "a": enc_spec(a), "b": enc_spec(b), "c": enc_spec(c)}
            try:
                l, r = lf(), rf()
            except Exception as e:  # noqa: BLE001
                run.fail(core.Failure(f"law|{name}|{enc_spec(a)}|{enc_spec(b)}|{enc_spec(c)}", f"law {name} raised {type(e).__name__}", rep))
                continue
            ok = (l == r) and (r == l)
            run.add(core.Case("spec.law", f"s.eq\t{enc_spec(l)}\t{enc_spec(r)}", enc_T(ok)))
            if not ok:
                run.fail(core.Failure(f"law|{name}|{enc_spec(a)}|{enc_spec(b)}|{enc_spec(c)}", f"law {name} fails: {l!r} != {r!r}", rep))
        n_oracle += 2
        if not (a & ~a).is_empty():
            run.fail(core.Failure(f"law|compl&|{enc_spec(a)}", f"a & ~a = {(a & ~a)!r} is not empty",
                                  {"op": "law", "law": "compl&", "a": enc_spec(a), "b": enc_spec(a), "c": enc_spec(a)}))
        if not (a | ~a).is_any():
            run.fail(core.Failure(f"law|compl||{enc_spec(a)}", f"a | ~a = {(a | ~a)!r} is not universal",
                                  {"op": "law", "law": "compl|", "a": enc_spec(a), "b": enc_spec(a), "c": enc_spec(a)}))
    # deterministic layer (seed C14k: a concatenating fast path in union | union, wrong only when one union lies wholly
    # below the other and the facing ranges are adjacent -- random triples met that about once in 2 000): ALL ordered
    # pairs of canonical objects over 3 points, the two-operand laws, the one-operand laws on each RESULT (idempotence,
    # involution, complement) and associativity with a fixed third operand
    fixed_rng = __import__("random").Random(14)
    objs3 = [cells_to_spec(x, points, fixed_rng) for x in sets]
    thirds = [objs3[i] for i in (len(objs3) // 3, len(objs3) - 2)]
    n_pairs = 0
    for ia, a in enumerate(objs3):
        if not run.mine(ia):
            continue
        na = ~a
        for b in objs3:
            n_pairs += 1
            try:
                ab, ba, oab, oba = a & b, b & a, a | b, b | a
                checks = [("comm&", ab, ba), ("comm|", oab, oba), ("absorb1", a & oab, a), ("absorb2", a | ab, a),
                          ("dm1", ~ab, na | ~b), ("dm2", ~oab, na & ~b),
                          ("idem&(a&b)", ab & ab, ab), ("idem|(a|b)", oab | oab, oab), ("invol(a|b)", ~~oab, oab), ("invol(a&b)", ~~ab, ab)]
                for c in thirds:
                    checks.append(("assoc|", oab | c, a | (b | c)))
                    checks.append(("assoc&", ab & c, a & (b & c)))
                bad = [(nm, l, r) for nm, l, r in checks if not (l == r and r == l)]
                if not (oab & ~oab).is_empty():
                    bad.append(("compl&(a|b)", oab & ~oab, EmptySpecifier()))
                if not (ab | ~ab).is_any():
                    bad.append(("compl|(a&b)", ab | ~ab, AnySpecifier()))
            except Exception as e:  # noqa: BLE001
                run.fail(core.Failure(f"law2|raise|{enc_spec(a)}|{enc_spec(b)}", f"a law over a = {a!r}, b = {b!r} raised {type(e).__name__}",
                                      {"op": "law2", "a": enc_spec(a), "b": enc_spec(b)}))
                continue
            n_oracle += len(checks) + 2
            for nm, l, r in bad[:1]:
                run.fail(core.Failure(f"law2|{nm}|{enc_spec(a)}|{enc_spec(b)}", f"law {nm} fails for a = {a!r}, b = {b!r}: {l!r} != {r!r}",
                                      {"op": "law2", "a": enc_spec(a), "b": enc_spec(b)}))
    run.extra["exhaustive_law_pairs"] = n_pairs
    # markers: both sides evaluate identically
    skips = 0
    from .p_marker import single_layer_pools
    pools = single_layer_pools(run.tier)
    base_env = {"os_name": "posix", "sys_platform": "linux", "platform_machine": "x86_64", "platform_system": "Linux",
                "platform_release": "5.10", "implementation_name": "cpython", "platform_python_implementation": "CPython",
                "python_version": "3.9", "python_full_version": "3.9.1", "extra": set(), "implementation_version": "3.9.1",
                "platform_version": "#1"}
    for it in range(n_marker):
        if it % 2 == 0:
            # operands on ONE variable: atoms and grouped atoms (the single-marker layer)
            var, pool, penvs = pools[(it // 2) % len(pools)]
            ts = [rng.choice(pool) for _ in range(3)]
            envs = [dict(base_env, **e) for e in penvs]
        else:
            ts = [mk.marker_text(rng, rng.choice([0, 1, 1, 2])) for _ in range(3)]
            envs = mk.envs_for(ts, rng, 16)
        La, Lb, Lc = (E("leaf", t) for t in ts)
        laws = [
            ("comm&", E("and", La, Lb), E("and", Lb, La)), ("comm|", E("or", La, Lb), E("or", Lb, La)),
            ("assoc&", E("and", E("and", La, Lb), Lc), E("and", La, E("and", Lb, Lc))),
            ("assoc|", E("or", E("or", La, Lb), Lc), E("or", La, E("or", Lb, Lc))),
            ("idem&", E("and", La, La), La), ("idem|", E("or", La, La), La),
            ("absorb1", E("and", La, E("or", La, Lb)), La), ("absorb2", E("or", La, E("and", La, Lb)), La),
            ("dist1", E("and", La, E("or", Lb, Lc)), E("or", E("and", La, Lb), E("and", La, Lc))),
            ("dist2", E("or", La, E("and", Lb, Lc)), E("and", E("or", La, Lb), E("or", La, Lc))),
        ]
        for name, le, re_ in laws:
            try:
                l, r = timed(le.run, 3), timed(re_.run, 3)
            except Timeout:
                skips += 1
                continue
            except Exception as e:  # noqa: BLE001
                run.fail(core.Failure(f"mlaw|{name}|{'|'.join(ts)}", f"marker law {name} raised {type(e).__name__}",
                                      {"op": "mlaw", "law": name, "texts": ts}))
                continue
            run.add(core.Case("marker.law", "m.expr\t" + le.tokens(), enc_marker(l) + "\t" + str(l), ctx=ts))
            for env in envs:
                n_oracle += 1
                if ev(l, env) != ev(r, env):
                    f = core.Failure(f"mlaw|{name}|{'|'.join(ts)}", f"marker law {name} fails on {ts}: {l!r} vs {r!r}",
                                     {"op": "mlaw", "law": name, "texts": ts})
                    fam = mk.known_family(ts, env)
                    if fam:
                        f.family = fam
                        run.fail(f)
                        continue
                    run.fail(f)
                    break
    # exhaustive: absorption over every ordered pair of every single-layer pool (seed C14: `|` of two grouped `!=` atoms)
    pair_idx = 0
    for var, pool, penvs in pools:
        envs = [dict(base_env, **e) for e in penvs]
        leaves = {t: E("leaf", t) for t in pool}
        for ta, tb in itertools.product(pool, repeat=2):
            pair_idx += 1
            if not run.mine(pair_idx):
                continue
            La, Lb = leaves[ta], leaves[tb]
            for name, le in (("absorb1", E("and", La, E("or", La, Lb))), ("absorb2", E("or", La, E("and", La, Lb)))):
                try:
                    l, r = timed(le.run, 3), timed(La.run, 3)
                except Timeout:
                    skips += 1
                    continue
                except Exception as e:  # noqa: BLE001
                    run.fail(core.Failure(f"mlaw|{name}|{ta}|{tb}", f"marker law {name} raised {type(e).__name__}",
                                          {"op": "mlaw", "law": name, "texts": [ta, tb]}))
                    continue
                for env in envs:
                    n_oracle += 1
                    if ev(l, env) != ev(r, env) and not mk.known_family([ta, tb], env):
                        run.fail(core.Failure(f"mlaw|{name}|{ta}|{tb}", f"marker law {name} fails on {[ta, tb]}: {l!r} vs {r!r}",
                                              {"op": "mlaw", "law": name, "texts": [ta, tb]}))
                        break
    # exhaustive: every triple of the rendering-heuristic ladder pool under the three-operand laws (the grouping decides
    # whether two atoms are merged into one through a shortened rendering)
    var, pool, penvs = pools[-1]
    envs = [dict(base_env, **e) for e in penvs]
    leaves = {t: E("leaf", t) for t in pool}
    for idx, ts in enumerate(itertools.product(pool, repeat=3)):
        if not run.mine(idx):
            continue
        La, Lb, Lc = (leaves[t] for t in ts)
        laws = [("assoc|", E("or", E("or", La, Lb), Lc), E("or", La, E("or", Lb, Lc))),
                ("assoc&", E("and", E("and", La, Lb), Lc), E("and", La, E("and", Lb, Lc))),
                ("dist1", E("and", La, E("or", Lb, Lc)), E("or", E("and", La, Lb), E("and", La, Lc))),
                ("dist2", E("or", La, E("and", Lb, Lc)), E("and", E("or", La, Lb), E("or", La, Lc)))]
        for name, le, re_ in laws:
            try:
                l, r = timed(le.run, 3), timed(re_.run, 3)
            except Timeout:
                skips += 1
                continue
            except Exception as e:  # noqa: BLE001
                run.fail(core.Failure(f"mlaw|{name}|{'|'.join(ts)}", f"marker law {name} raised {type(e).__name__}",
                                      {"op": "mlaw", "law": name, "texts": list(ts)}))
                continue
            for env in envs:
                n_oracle += 1
                if ev(l, env) != ev(r, env) and not mk.known_family(list(ts), env):
                    run.fail(core.Failure(f"mlaw|{name}|{'|'.join(ts)}", f"marker law {name} fails on {list(ts)}: {l!r} vs {r!r}",
                                          {"op": "mlaw", "law": name, "texts": list(ts)}))
                    break
    run.extra.update(oracle_evaluations=n_oracle, time_budget_skips=skips)


# ----------------------------------------------------------------------------- C10

PROBE_SCRIPT = r"""
import sys, json
sys.path.insert(0, sys.argv[1])
sys.dont_write_bytecode = True
sys.path.insert(0, sys.argv[2])
from harness.markers import E, enc_marker
exprs = json.loads(sys.stdin.read())
out = []
for j in exprs:
    try:
        m = E.from_json(j).run()
        out.append(enc_marker(m) + "\t" + str(m))
    except Exception as e:
        out.append("raise:" + type(e).__name__)
print(json.dumps(out))
"""


def cold_run(exprs, hashseed: int):
    env = dict(os.environ, PYTHONHASHSEED=str(hashseed), PYTHONDONTWRITEBYTECODE="1")
    p = subprocess.run([sys.executable, "-B", "-c", PROBE_SCRIPT, str(core.REPO / "src"), str(core.ROOT)],
                       input=json.dumps([e.to_json() for e in exprs]), capture_output=True, text=True, env=env, timeout=600)
    if p.returncode != 0:
        raise RuntimeError(p.stderr[-2000:])
    return json.loads(p.stdout)


def history(rng, length, all_twins=False):
    """ops with equal-but-differently-built markers recurring; `all_twins`: every twin pair with every partner under both
    operators, back to back (deterministic part: a cache keyed too coarsely shows as warm != model on the second twin)"""
    twins = [('"3.8" < python_version', 'python_version > "3.8"'), ('python_version >= "3.10"', 'python_version >= "3.10.0"'),
             ('python_version > "3.8"', 'python_version > "3.8.0"'), ('python_version == "3.8"', 'python_version == "3.8.0"'),
             ('python_full_version >= "3.8.1"', 'python_full_version >= "3.8.1.0"'), ('python_version != "3.9"', 'python_version != "3.9.0"'),
             ('os_name == "nt" or os_name == "posix"', 'os_name == "posix" or os_name == "nt"'),
             ('python_full_version >= "3.8"', 'python_full_version >= "3.8.0"'), ('"lin" in sys_platform', 'sys_platform in "lin"')]
    pool = [mk.marker_text(rng, rng.choice([0, 1, 2])) for _ in range(max(4, length // 3))]
    for a, b in rng.sample(twins, 2):
        pool += [a, b]
    ops = []
    results = []
    # the same operation on equal-but-differently-built operands, back to back
    partners = ['python_version == "3.8"', 'python_version >= "3.8"', 'python_full_version >= "3.8.1"', 'python_version != "3.8"',
                'python_version < "3.10"', 'python_full_version < "3.9.5"', 'os_name == "posix"', 'os_name == "java"',
                # same-variable partners for the string twins: the atom's specifier view is consulted only by a same-name merge
                # or by a grouped atom's value filter (seed C10e: a module-level cache of parsed specifiers keyed without `reversed`)
                'sys_platform == "linux"', 'sys_platform == "lin" or sys_platform == "linux2"',
                'sys_platform != "lin" and sys_platform != "linux"', 'os_name != "nt" and os_name != "java"']
    if all_twins:
        for (a, b), part, kind in itertools.product(twins, partners, ("and", "or")):
            for x, y in ((a, b), (b, a)):
                ops.append(E(kind, E("leaf", x), E("leaf", part)))
                ops.append(E(kind, E("leaf", y), E("leaf", part)))
                ops.append(E(kind, E("leaf", y), E("leaf", part.replace('"3.8"', '"3.8.0"'))))
    for a, b in rng.sample(twins, 3):
        part = rng.choice(partners)
        kind = rng.choice(["and", "or"])
        ops.append(E(kind, E("leaf", a), E("leaf", part)))
        ops.append(E(kind, E("leaf", b), E("leaf", part.replace('"3.8"', '"3.8.0"') if rng.random() < 0.5 else part)))
    for _ in range(length):
        k = rng.random()
        a, b = rng.choice(pool), rng.choice(pool)
        if k < 0.2:
            e = E("leaf", a)
        elif k < 0.6:
            e = E("and", E("leaf", a), E("leaf", b))
        else:
            e = E("or", E("leaf", a), E("leaf", b))
        ops.append(e)
        # feed re-rendered results back into the pool
        if rng.random() < 0.3:
            try:
                s = str(timed(e.run, 2))
                if s and s != "<empty>" and len(s) < 300:
                    pool.append(s)
            except Exception:  # noqa: BLE001
                pass
    return ops


def run_c10(run: core.Run, n_hist: int, length: int, seeds=(0, 1, 2)) -> None:
    rng = run.rng
    import dep_logic.markers as dm
    import dep_logic.markers.single as ds
    import dep_logic.utils as du
    n_oracle = 0
    skips = 0
    for h in range(n_hist):
        for f in (dm.parse_marker, ds._merge_single_markers, du.cnf, du.dnf):
            f.cache_clear()
        ops = history(rng, length, all_twins=(h == 0 and run.first))
        warm = []
        for e in ops:
            try:
                m = timed(e.run, 2)
                warm.append(enc_marker(m) + "\t" + str(m))
            except Timeout:
                warm.append(None)
                skips += 1
            except Exception as ex:  # noqa: BLE001
                warm.append("raise:" + type(ex).__name__)
        # (a) warm implementation vs the model, which has no caches at all
        for i, (e, w) in enumerate(zip(ops, warm)):
            if w is not None:
                run.add(core.Case("warm-vs-model", "m.expr\t" + e.tokens(), w, ctx=(ops, i)))
        # (b) a probe alone in a fresh interpreter, under several hash seeds
        idx = [i for i, w in enumerate(warm) if w is not None]
        probes = rng.sample(idx, min(len(idx), 6))
        for seed in seeds if h % 4 == 0 else seeds[:1]:
            for i in probes:
                cold = cold_run([ops[i]], seed)[0]
                n_oracle += 1
                if cold != warm[i]:
                    run.fail(core.Failure(f"hist|{h}|{i}|{ops[i].show()}",
                                          f"{ops[i].show()} gives {warm[i].split(chr(9))[-1]!r} after {i} earlier operations but "
                                          f"{cold.split(chr(9))[-1]!r} alone in a fresh interpreter (PYTHONHASHSEED={seed})",
                                          {"op": "history", "history": [e.to_json() for e in ops[:i + 1]], "hashseed": seed}))
    run.extra.update(oracle_evaluations=n_oracle, time_budget_skips=skips)


def split_atoms(texts):
    out = []
    for t in texts:
        for a in re.split(r"\s+(?:and|or)\s+", t.replace("(", " ").replace(")", " ")):
            a = a.strip()
            if a and a not in out:
                out.append(a)
    return out


def neighbour_atoms(atoms):
    """atoms on the same version variables with bounds next to / between the given ones"""
    out = []
    for name in ("python_full_version", "python_version", "platform_release"):
        vals = set()
        for a in atoms:
            m = re.fullmatch(rf'{name} (?:==|!=|<=|>=|<|>|~=) "(\d+(?:\.\d+){{0,2}})"', a)
            if m:
                xs = [int(x) for x in m.group(1).split(".")] + [0, 0]
                X, Y, Z = xs[:3]
                vals |= {(X, Y, Z + 1), (X, Y + 1, 0), (X, Y + 1, 2)} | ({(X, Y - 1, 9)} if Y else set())
        for X, Y, Z in sorted(vals):
            v = f"{X}.{Y}" if name == "python_version" else f"{X}.{Y}.{Z}"
            for op in (">=", "<"):
                t = f'{name} {op} "{v}"'
                if t not in out and t not in atoms:
                    out.append(t)
    return out


def search_c14(run: core.Run) -> None:
    """the laws compare the implementation with itself, so a wrong merge shows only for a triple whose grouping
    decides whether the merge happens: around each marker result that differs from the model, every law over all
    triples of the atoms involved and of neighbouring atoms on the same variables"""
    by_line = {c.line: c for c in run.cases if c.ctx is not None and c.stream == "marker.law"}
    done = 0
    for d in run.disagreements:
        c = by_line.get(d["op"])
        if c is None or done >= 6:
            continue
        done += 1
        atoms = split_atoms(c.ctx)
        pool = (atoms + neighbour_atoms(atoms))[:9]
        envs = mk.envs_for(pool, run.rng, 60)
        for ts in itertools.product(pool, repeat=3):
            La, Lb, Lc = (E("leaf", t) for t in ts)
            laws = [("assoc|", E("or", E("or", La, Lb), Lc), E("or", La, E("or", Lb, Lc))),
                    ("assoc&", E("and", E("and", La, Lb), Lc), E("and", La, E("and", Lb, Lc))),
                    ("dist1", E("and", La, E("or", Lb, Lc)), E("or", E("and", La, Lb), E("and", La, Lc))),
                    ("dist2", E("or", La, E("and", Lb, Lc)), E("and", E("or", La, Lb), E("or", La, Lc)))]
            for name, le, re_ in laws:
                try:
                    l, r = timed(le.run, 2), timed(re_.run, 2)
                except Exception:  # noqa: BLE001
                    continue
                for env in envs:
                    if mk.known_family(list(ts), env):
                        continue
                    if ev(l, env) != ev(r, env):
                        run.fail(core.Failure(f"mlaw|{name}|{'|'.join(ts)}", f"marker law {name} fails on {list(ts)}: {l!r} vs {r!r}",
                                              {"op": "mlaw", "law": name, "texts": list(ts)}))
                        return


def search(prop: str, run: core.Run) -> None:
    """C10: the model has no caches, so a warm result that differs from the model is compared with the
    implementation's own cold result; if they differ, that history is the failing input"""
    if prop == "C14":
        search_c14(run)
        return
    if prop != "C10":
        return
    by_line = {}
    for c in run.cases:
        if c.ctx is not None and c.stream == "warm-vs-model":
            by_line.setdefault((c.line, c.impl), c)
    for d in run.disagreements[:12]:
        c = by_line.get((d["op"], d["impl"]))
        if c is None:
            continue
        ops, i = c.ctx
        cold = cold_run([ops[i]], 0)[0]
        if cold != d["impl"]:
            run.fail(core.Failure(f"hist|{ops[i].show()}|{i}",
                                  f"{ops[i].show()} gives {d['impl'].split(chr(9))[-1]!r} after {i} earlier operations but "
                                  f"{cold.split(chr(9))[-1]!r} alone in a fresh interpreter",
                                  {"op": "history", "history": [e.to_json() for e in ops[:i + 1]], "hashseed": 0}))


SHARDED = ("C14", "C10")   # thorough tier runs these over worker processes (harness/check.py)


def run_prop(prop: str, run: core.Run) -> None:
    quick = run.tier == "quick"
    if prop == "C11":
        run.rule = ("every comparison/~=/wildcard atom on python_version (X, X.Y) and python_full_version (X.Y, X.Y.Z), in/not in "
                    "lists, both operand orders, x 108 interpreter versions; every simple specifier shape as from_specifier input")
        run_c11(run)
    elif prop == "C13":
        run.rule = ("all ordered pairs of canonical specifier objects over 2 points (both universal spellings, equal-key bound "
                    "spellings), sampled triples; all ordered pairs of a marker pool containing mirrored / padded / re-rendered twins")
        run_c13(run, 120 if quick else 400)
    elif prop == "C14":
        run.rule = "random triples of canonical specifiers over 3 points (13 laws, real ==) and of markers (10 laws, evaluation)"
        run_c14(run, 250 if quick else run.size(16000), 160 if quick else run.size(8000))
    else:
        run.rule = ("operation histories (parse/&/| with recurring equal-but-differently-built markers and re-rendered results): "
                    "warm in-process results vs the cache-free model, and probes alone in fresh interpreters under 3 hash seeds")
        run_c10(run, 12 if quick else run.size(320), 25 if quick else 40)


def replay(data: dict) -> bool:
    r = data["replay"]
    if r["op"] == "history":
        ops = [E.from_json(j) for j in r["history"]]
        import dep_logic.markers as dm
        import dep_logic.markers.single as ds
        import dep_logic.utils as du
        for f in (dm.parse_marker, ds._merge_single_markers, du.cnf, du.dnf):
            f.cache_clear()
        last = None
        for e in ops:
            try:
                m = timed(e.run, 5)
                last = enc_marker(m) + "\t" + str(m)
            except Exception:  # noqa: BLE001
                last = None
        return last != cold_run([ops[-1]], r.get("hashseed", 0))[0]
    if r["op"] == "law2":
        a, b = p_spec.dec_spec(r["a"]), p_spec.dec_spec(r["b"])
        try:
            ab, oab = a & b, a | b
            pairs = [(ab, b & a), (oab, b | a), (a & oab, a), (a | ab, a), (~ab, ~a | ~b), (~oab, ~a & ~b), (ab & ab, ab), (oab | oab, oab),
                     (~~oab, oab), (~~ab, ab)]
            return any(not (l == r_ and r_ == l) for l, r_ in pairs) or not (oab & ~oab).is_empty() or not (ab | ~ab).is_any()
        except Exception:  # noqa: BLE001
            return True
    if r["op"] == "law":
        a, b, c = (p_spec.dec_spec(r[k]) for k in "abc")
        laws = {"comm&": (lambda: a & b, lambda: b & a), "comm|": (lambda: a | b, lambda: b | a),
                "assoc&": (lambda: (a & b) & c, lambda: a & (b & c)), "assoc|": (lambda: (a | b) | c, lambda: a | (b | c)),
                "idem&": (lambda: a & a, lambda: a), "idem|": (lambda: a | a, lambda: a),
                "absorb1": (lambda: a & (a | b), lambda: a), "absorb2": (lambda: a | (a & b), lambda: a),
                "dist1": (lambda: a & (b | c), lambda: (a & b) | (a & c)), "dist2": (lambda: a | (b & c), lambda: (a | b) & (a | c)),
                "invol": (lambda: ~~a, lambda: a), "dm1": (lambda: ~(a & b), lambda: ~a | ~b), "dm2": (lambda: ~(a | b), lambda: ~a & ~b),
                "compl&": (lambda: (a & ~a).is_empty(), lambda: True), "compl|": (lambda: (a | ~a).is_any(), lambda: True)}
        lf, rf = laws[r["law"]]
        try:
            return not (lf() == rf())
        except Exception:  # noqa: BLE001
            return True
    if r["op"] == "mlaw":
        ts = r["texts"]
        La, Lb, Lc = (E("leaf", t) for t in (ts + ts[:1] * 3)[:3])
        laws = {"comm&": (E("and", La, Lb), E("and", Lb, La)), "comm|": (E("or", La, Lb), E("or", Lb, La)),
                "assoc&": (E("and", E("and", La, Lb), Lc), E("and", La, E("and", Lb, Lc))),
                "assoc|": (E("or", E("or", La, Lb), Lc), E("or", La, E("or", Lb, Lc))),
                "idem&": (E("and", La, La), La), "idem|": (E("or", La, La), La),
                "absorb1": (E("and", La, E("or", La, Lb)), La), "absorb2": (E("or", La, E("and", La, Lb)), La),
                "dist1": (E("and", La, E("or", Lb, Lc)), E("or", E("and", La, Lb), E("and", La, Lc))),
                "dist2": (E("or", La, E("and", Lb, Lc)), E("and", E("or", La, Lb), E("or", La, Lc)))}
        le, re_ = laws[r["law"]]
        try:
            l, rr = timed(le.run, 10), timed(re_.run, 10)
        except Exception:  # noqa: BLE001
            return True
        import random
        for env in mk.envs_for(ts, random.Random(0), 200):
            if not mk.known_family(ts, env) and ev(l, env) != ev(rr, env):
                return True
        return False
    if r["op"] == "mktwin":
        a, b = mk.parse_marker(r["a"]), mk.parse_marker(r["b"])
        eq = (a == b)
        if eq != (b == a) or (eq and (hash(a) != hash(b) or len({a, b}) != 1)):
            return True
        if not eq:
            return False
        var = r["var"]
        base = mk.envs_for([r["a"], r["b"]], random.Random(0), 1)[0]
        envs = []
        for full in ["2.7.18", "3.0.0", "3.1.0", "3.7.9", "3.8.0", "3.8.1", "3.8.5", "3.9.0", "3.9.1", "3.10.0", "3.10.4", "4.0.0", "4.1.2"]:
            env = dict(base)
            X, Y = full.split(".")[:2]
            env.update({"python_full_version": full, "python_version": f"{X}.{Y}", "implementation_version": full})
            envs.append(env)
        if any(ev(a, env) != ev(b, env) for env in envs):
            return True
        for c_ in [mk.parse_marker(f'{var} >= "3.9"'), mk.parse_marker(f'{var} < "3.8.5"'), mk.parse_marker('os_name == "nt"')]:
            for f in (lambda x: c_ & x, lambda x: x | c_, lambda x: x & c_, lambda x: c_ | x):
                if any(ev(f(a), env) != ev(f(b), env) for env in envs):
                    return True
        return False
    if r["op"] == "mkeq":
        a, b = mk.parse_marker(r["a"]), mk.parse_marker(r["b"])
        eq = (a == b)
        return eq != (b == a) or (eq and (hash(a) != hash(b) or len({a, b}) != 1)) or not (a == a)
    if r["op"] == "markereq":
        a, b = mk.parse_marker(r["a"]), mk.parse_marker(r["b"])
        eq = (a == b)
        return eq != r["equal"] or (eq and hash(a) != hash(b))
    if r["op"] == "endsop":
        a, b, x = p_spec.dec_spec(r["a"]), p_spec.dec_spec(r["b"]), parse_version_specifier(r["r"])
        return not ((x | a) == (x | b) and (a | x) == (b | x) and (x & a) == (x & b) and (a & x) == (b & x))
    if r["op"] == "speceq":
        a, b = p_spec.dec_spec(r["a"]), p_spec.dec_spec(r["b"])
        return (a == b) != (b == a) or ((a == b) and hash(a) != hash(b))
    if r["op"] == "atom":
        name, op, val, rev = r["atom"]
        m = MarkerExpression(name, op, val, rev)
        if "value" not in r:
            try:
                m.specifier
                return False
            except Exception:  # noqa: BLE001
                return True
        value = r["value"]
        parts = value.split(".")
        env = {"python_full_version": value if len(parts) == 3 else value + ".0", "python_version": ".".join(parts[:2])}
        return (value in m.specifier) != ev(m, env)
    if r["op"] == "from":
        mm = re.fullmatch(r"\((.*)\)([|&])\((.*)\)", r["spec"])
        if mm:     # a specifier computed by the algebra (computed_specs)
            x, y = parse_version_specifier(mm.group(1)), parse_version_specifier(mm.group(3))
            spec = (x | y) if mm.group(2) == "|" else (x & y)
        else:
            spec = parse_version_specifier(r["spec"])
        m = MarkerExpression.from_specifier(r["name"], spec)
        if m is None or "value" not in r:
            return False
        value = r["value"]
        parts = value.split(".")
        env = {"python_full_version": value if len(parts) == 3 else value + ".0", "python_version": ".".join(parts[:2])}
        try:
            admits = smem(spec, Version(value))
        except TypeError:       # an `===` specifier: read by packaging
            admits = value in spec
        return ev(m, env) != admits
    return True
