"""C01, C05 and the specifier halves of C13, C14: interval algebra of version specifiers."""
from __future__ import annotations

import itertools
import time

from . import core
from .specs import (AnySpecifier, EmptySpecifier, RangeSpecifier, UnionSpecifier, Version, all_cell_sets,
                    all_spellings, cells_to_spec, enc_spec, enc_T, enc_exc, is_canon, parse_version_specifier,
                    pick_chain, random_clause_set, smem)

THEOREMS_BY_PROP = {
    "C01": ["DepLogic.C01.and_exact", "DepLogic.C01.or_exact", "DepLogic.C01.invert_exact",
            "DepLogic.C01.reach_canon", "DepLogic.C01.main", "DepLogic.C01.main_pep440"],
    "C05": ["DepLogic.C05.results_canonical", "DepLogic.C05.union_no_universal", "DepLogic.C05.isEmpty_sound",
            "DepLogic.C05.isAny_sound", "DepLogic.C05.isEmpty_exact", "DepLogic.C05.isAny_exact",
            "DepLogic.C01.reach_canon", "DepLogic.C05.eq_exact", "DepLogic.C05.eq_sound", "DepLogic.C05.isEmpty_exact_cuts",
            "DepLogic.C05.isAny_exact_cuts", "DepLogic.C05.cut_point", "DepLogic.Spec.canon_unique",
            "DepLogic.Spec.map_and", "DepLogic.Spec.map_or", "DepLogic.Spec.map_invert"],
}
THEOREMS = THEOREMS_BY_PROP["C01"]


def do(f):
    try:
        return enc_spec(f())
    except Exception as e:  # noqa: BLE001
        return enc_exc(e)


class Grid:
    """order-type exhaustive operands over one chain of points"""

    def __init__(self, rng, k: int):
        ladder = pick_chain(rng, 2 * k + 1)
        self.points = [ladder[i] for i in range(1, 2 * k + 1, 2)]
        self.probes = [ladder[i][0] for i in range(0, 2 * k + 1, 2)]          # one per open cell
        self.cellprobe = []                                                    # one probe per cell, in cell order
        for i in range(2 * k + 1):
            self.cellprobe.append(self.probes[i // 2] if i % 2 == 0 else self.points[i // 2][0])
        self.sets = all_cell_sets(k)
        self.left = [cells_to_spec(c, self.points, rng) for c in self.sets]
        self.right = [cells_to_spec(c, self.points, rng, universal_as_any=(rng.random() < 0.5)) for c in self.sets]

    def cells_of(self, obj):
        return tuple(smem(obj, q) for q in self.cellprobe)


def key_of(op, a, b=None):
    return op + "|" + enc_spec(a) + ("|" + enc_spec(b) if b is not None else "")


def grid_stream(run: core.Run, prop: str, k: int, n_chains: int, pair_budget: int | None) -> None:
    rng = run.rng
    n_oracle = 0
    for _ in range(n_chains):
        g = Grid(rng, k)
        idx = list(range(len(g.sets)))
        pairs = list(itertools.product(idx, idx))
        if pair_budget is not None and len(pairs) > pair_budget:
            pairs = rng.sample(pairs, pair_budget)
        else:
            run.exhaustive = True
        # invert
        for i in idx:
            a = g.left[i]
            A = g.sets[i]
            try:
                r = ~a
            except Exception as e:  # noqa: BLE001
                run.add(core.Case("grid.inv", f"s.inv\t{enc_spec(a)}", enc_exc(e)))
                run.fail(core.Failure(key_of("inv", a), f"~{a!r} raised {type(e).__name__}", {"op": "inv", "a": enc_spec(a)}))
                continue
            run.add(core.Case("grid.inv", f"s.inv\t{enc_spec(a)}", enc_spec(r)))
            want = tuple(not x for x in A)
            n_oracle += 1
            check_result(run, prop, g, "inv", a, None, r, want)
        for (i, j) in pairs:
            a, b = g.left[i], g.right[j]
            A, B = g.sets[i], g.sets[j]
            for op, f, want in (("and", lambda: a & b, tuple(x and y for x, y in zip(A, B))),
                                ("or", lambda: a | b, tuple(x or y for x, y in zip(A, B)))):
                try:
                    r = f()
                except Exception as e:  # noqa: BLE001
                    run.add(core.Case(f"grid.{op}", f"s.{op}\t{enc_spec(a)}\t{enc_spec(b)}", enc_exc(e)))
                    run.fail(core.Failure(key_of(op, a, b), f"{a!r} {op} {b!r} raised {type(e).__name__}",
                                          {"op": op, "a": enc_spec(a), "b": enc_spec(b)}))
                    continue
                nontriv = not (isinstance(a, (EmptySpecifier, AnySpecifier)) or isinstance(b, (EmptySpecifier, AnySpecifier)))
                run.add(core.Case(f"grid.{op}", f"s.{op}\t{enc_spec(a)}\t{enc_spec(b)}", enc_spec(r), nontriv))
                n_oracle += 1
                check_result(run, prop, g, op, a, b, r, want)
    run.extra["oracle_evaluations"] = int(run.extra.get("oracle_evaluations", 0)) + n_oracle


def check_result(run, prop, g: Grid, op, a, b, r, want) -> None:
    """property oracles on the real result object"""
    rep = {"op": op, "a": enc_spec(a), "b": enc_spec(b) if b is not None else None,
           "probes": [str(q) for q in g.cellprobe]}
    try:
        got = g.cells_of(r)
    except Exception as e:  # noqa: BLE001
        run.fail(core.Failure(key_of(op, a, b), f"result {r!r} of {op} is not a specifier object ({e})", rep))
        return
    if prop == "C01":
        if got != want:
            bad = [str(q) for q, x, y in zip(g.cellprobe, got, want) if x != y]
            run.fail(core.Failure(key_of(op, a, b),
                                  f"{op}({a!r}, {b!r}) = {r!r}: wrong membership for {bad}", rep))
        return
    # C05
    if not is_canon(r):
        run.fail(core.Failure(key_of(op, a, b), f"{op}({a!r}, {b!r}) = {r!r} is not canonical", rep))
        return
    if r.is_empty() != (not any(want)):
        run.fail(core.Failure(key_of(op + ".is_empty", a, b), f"{op}({a!r}, {b!r}).is_empty() = {r.is_empty()}", rep))
    if r.is_any() != all(want):
        run.fail(core.Failure(key_of(op + ".is_any", a, b), f"{op}({a!r}, {b!r}).is_any() = {r.is_any()}", rep))
    run.add(core.Case("grid.is_empty", f"s.isempty\t{enc_spec(r)}", enc_T(r.is_empty()), False))
    run.add(core.Case("grid.is_any", f"s.isany\t{enc_spec(r)}", enc_T(r.is_any()), False))
    run.add(core.Case("grid.canon", f"s.canon\t{enc_spec(r)}", "T", False))
    # == is exact: equal to the canonical object of the expected set, different from a neighbour
    exp = cells_to_spec(want, g.points, run.rng)
    other_cells = list(want)
    flip = run.rng.randrange(len(other_cells))
    other_cells[flip] = not other_cells[flip]
    oth = cells_to_spec(tuple(other_cells), g.points, run.rng)
    for x, y, should in ((r, exp, True), (exp, r, True), (r, oth, False), (oth, r, False)):
        eq = (x == y)
        run.add(core.Case("grid.eq", f"s.eq\t{enc_spec(x)}\t{enc_spec(y)}", enc_T(eq)))
        if eq != should:
            run.fail(core.Failure(key_of("eq", x, y), f"{x!r} == {y!r} is {eq}, same meaning: {should}", rep))


def expr_stream(run: core.Run, prop: str, n: int) -> None:
    """random expressions over parsed leaves (operands carry their cached text)"""
    rng = run.rng
    pool = all_spellings()
    probes = [Version(grp) for grp in pool]
    n_oracle = 0
    for _ in range(n):
        leaves = []
        for _ in range(rng.choice([2, 2, 3, 3, 4])):
            text = random_clause_set(rng, pool)
            if rng.random() < 0.15:
                text = text + "||" + random_clause_set(rng, pool)
            try:
                leaves.append((text, parse_version_specifier(text)))
            except Exception as e:  # noqa: BLE001
                run.fail(core.Failure("parse|" + text, f"parse_version_specifier({text!r}) raised {type(e).__name__}",
                                      {"op": "parse", "text": text}))
        if len(leaves) < 2:
            continue
        # fold the leaves with random operators, keeping (object, membership vector)
        items = [(obj, tuple(smem(obj, q) for q in probes)) for _, obj in leaves]
        while len(items) > 1:
            i = rng.randrange(len(items) - 1)
            (a, A), (b, B) = items[i], items[i + 1]
            r0 = rng.random()
            if r0 < 0.2:
                op, f, want = "inv", (lambda: ~a), tuple(not x for x in A)
                line = f"s.inv\t{enc_spec(a)}"
            elif r0 < 0.6:
                op, f, want = "and", (lambda: a & b), tuple(x and y for x, y in zip(A, B))
                line = f"s.and\t{enc_spec(a)}\t{enc_spec(b)}"
            else:
                op, f, want = "or", (lambda: a | b), tuple(x or y for x, y in zip(A, B))
                line = f"s.or\t{enc_spec(a)}\t{enc_spec(b)}"
            try:
                r = f()
            except Exception as e:  # noqa: BLE001
                run.add(core.Case(f"expr.{op}", line, enc_exc(e)))
                run.fail(core.Failure(key_of(op, a, None if op == "inv" else b), f"{op} raised {type(e).__name__}",
                                      {"op": op, "a": enc_spec(a), "b": enc_spec(b)}))
                break
            run.add(core.Case(f"expr.{op}", line, enc_spec(r)))
            n_oracle += 1
            got = tuple(smem(r, q) for q in probes)
            rep = {"op": op, "a": enc_spec(a), "b": None if op == "inv" else enc_spec(b), "probes": [str(q) for q in probes]}
            if prop == "C01" and got != want:
                bad = [str(q) for q, x, y in zip(probes, got, want) if x != y][:6]
                run.fail(core.Failure(key_of(op, a, None if op == "inv" else b),
                                      f"{op} on parsed operands: wrong membership for {bad}", rep))
            if prop == "C05":
                if not is_canon(r):
                    run.fail(core.Failure(key_of(op, a, None if op == "inv" else b), f"result {r!r} not canonical", rep))
                run.add(core.Case("expr.canon", f"s.canon\t{enc_spec(r)}", "T", False))
                # the ladder probes are not complete between arbitrary bounds: only the sound directions here
                if (r.is_empty() and any(want)) or (r.is_any() and not all(want)):
                    run.fail(core.Failure(key_of(op + ".is_empty", a, b),
                                          f"is_empty()/is_any() = {r.is_empty()}/{r.is_any()} on {r!r}", rep))
            if op == "inv":
                items[i] = (r, want)
            else:
                items[i:i + 2] = [(r, want)]
    run.extra["oracle_evaluations"] = int(run.extra.get("oracle_evaluations", 0)) + n_oracle


def run_prop(prop: str, run: core.Run) -> None:
    quick = run.tier == "quick"
    run.rule = ("grid: every canonical interval set over k points (2^(2k+1) sets: each point and each gap in/out), all "
                "ordered pairs for & and |, all sets for ~, bounds instantiated from a ladder of 57 PEP 440 version "
                "groups of mixed shape (equal-key spellings, pre/post/dev, epochs); expr: random &,|,~ expressions over "
                "parsed clause sets. Non-trivial = neither operand is the empty/universal constant.")
    run.assumptions = ["operands are reachable objects (canonical shape); `===` is outside the interval model"]
    if quick:
        grid_stream(run, prop, 3, 1, None if prop == "C01" else 4000)
        expr_stream(run, prop, 1500)
    else:
        grid_stream(run, prop, 3, 4, None if prop == "C01" else 16000)
        grid_stream(run, prop, 4, 1, 40000)
        expr_stream(run, prop, 20000)
    if prop == "C05":
        known_gap(run)


def known_gap(run: core.Run) -> None:
    """G1: the PEP 440 order is not dense; gap ranges are not reported empty"""
    a = parse_version_specifier(">1.0")
    b = parse_version_specifier("<1.0.post0.dev0")
    r = a & b
    if not r.is_empty():
        run.fail(core.Failure("gap|>1.0|<1.0.post0.dev0",
                              "(>1.0 & <1.0.post0.dev0).is_empty() is False although no public version lies between",
                              {"op": "gap", "a": ">1.0", "b": "<1.0.post0.dev0"}))
    # the same root at the end of the order: 0.dev0 is the least PEP 440 version (epoch 0), so `>=0.dev0 | >=0.dev0` admits
    # every version and `<0.dev0 & <0.dev0` none, but neither is reported by is_any() / is_empty()
    lo = parse_version_specifier(">=0.dev0")
    if not (lo | lo).is_any():
        run.fail(core.Failure("least|>=0.dev0", "(>=0.dev0 | >=0.dev0).is_any() is False although every PEP 440 version is >= 0.dev0",
                              {"op": "least", "a": ">=0.dev0"}))
    hi = parse_version_specifier("<0.dev0")
    if not (hi & hi).is_empty():
        run.fail(core.Failure("least|<0.dev0", "(<0.dev0 & <0.dev0).is_empty() is False although no PEP 440 version is < 0.dev0",
                              {"op": "least", "a": "<0.dev0"}))


def search(prop: str, run: core.Run) -> None:
    """neighbourhood search around model/implementation disagreements: feed the implementation's
    divergent result back into the operators and test the property's oracle on the real objects"""
    probes = [Version(x) for x in all_spellings()]
    for d in run.disagreements[:40]:
        f = d["op"].split("\t")
        if f[0] not in ("s.and", "s.or", "s.inv"):
            continue
        try:
            ops = [dec_spec(x) for x in f[1:]]
            a = ops[0]
            b = ops[1] if len(ops) > 1 else None
            r = {"s.and": lambda: a & b, "s.or": lambda: a | b, "s.inv": lambda: ~a}[f[0]]()
        except Exception:  # noqa: BLE001
            continue
        R = [smem(r, q) for q in probes]
        others = [x for x in ops]
        for x in list(others):
            try:
                others.append(~x)
            except Exception:  # noqa: BLE001
                pass
        for c in others:
            C = [smem(c, q) for q in probes]
            for op2, g, want in (("and", lambda: r & c, [x and y for x, y in zip(R, C)]),
                                 ("or", lambda: r | c, [x or y for x, y in zip(R, C)]),
                                 ("or", lambda: c | r, [x or y for x, y in zip(R, C)]),
                                 ("inv", lambda: ~r, [not x for x in R])):
                rep = {"op": op2, "a": enc_spec(r), "b": enc_spec(c) if op2 != "inv" else None,
                       "probes": [str(q) for q in probes], "derived_from": d["op"]}
                try:
                    r2 = g()
                    got = [smem(r2, q) for q in probes]
                except Exception as e:  # noqa: BLE001
                    run.fail(core.Failure(key_of(op2, r, c), f"{op2} on a previous result {r!r} raised {type(e).__name__}", rep))
                    continue
                bad = got != want if prop != "C05" else (not is_canon(r2) or r2.is_empty() != (not any(want)))
                if prop == "C05" and not is_canon(r):
                    run.fail(core.Failure(key_of(f[0][2:], a, b), f"result {r!r} is not canonical", {
                        "op": f[0][2:], "a": f[1], "b": f[2] if len(f) > 2 else None, "probes": [str(q) for q in probes]}))
                if bad:
                    run.fail(core.Failure(key_of(op2, r, c), f"{op2} on previous result {r!r} and {c!r} gives {r2!r}: property fails", rep))


def dec_spec(text: str):
    """protocol text -> real object (for replay)"""
    if text == "E":
        return EmptySpecifier()
    if text == "A":
        return AnySpecifier()

    def rng(t):
        mn, mx, i, j, s = t[2:-1].split(",")
        return RangeSpecifier(None if mn == "-" else Version(mn), None if mx == "-" else Version(mx),
                              i == "t", j == "t", None if s == "-" else s)
    if text.startswith("R("):
        return rng(text)
    body, s = text[2:-1].split("]{")
    return UnionSpecifier(tuple(rng(x) for x in body.split(";")), None if s == "-" else s)


def replay(data: dict) -> bool:
    r = data["replay"]
    if r["op"] == "gap":
        return not (parse_version_specifier(r["a"]) & parse_version_specifier(r["b"])).is_empty()
    if r["op"] == "least":
        s0 = parse_version_specifier(r["a"])
        return not ((s0 | s0).is_any() if r["a"].startswith(">") else (s0 & s0).is_empty())
    if r["op"] == "parse":
        try:
            parse_version_specifier(r["text"])
            return False
        except Exception:  # noqa: BLE001
            return True
    a = dec_spec(r["a"])
    b = dec_spec(r["b"]) if r.get("b") else None
    probes = [Version(x) for x in r.get("probes", all_spellings())]
    try:
        res = {"and": lambda: a & b, "or": lambda: a | b, "inv": lambda: ~a}[r["op"].split(".")[0]]()
    except Exception:  # noqa: BLE001
        return True
    A = [smem(a, q) for q in probes]
    B = [smem(b, q) for q in probes] if b is not None else None
    want = {"and": lambda: [x and y for x, y in zip(A, B)], "or": lambda: [x or y for x, y in zip(A, B)],
            "inv": lambda: [not x for x in A]}[r["op"].split(".")[0]]()
    got = [smem(res, q) for q in probes]
    return got != want or not is_canon(res) or res.is_empty() != (not any(want)) or res.is_any() != all(want)
