"""C06 (text round trip), C04 (membership vs PEP 440), C17 (parser acceptance)."""
from __future__ import annotations

import itertools
import re

from . import core
from .specs import (AnySpecifier, ArbitrarySpecifier, EmptySpecifier, RangeSpecifier, UnionSpecifier, Version,
                    all_spellings, enc_spec, enc_T, enc_exc, is_canon, parse_version_specifier, random_clause_set,
                    random_leaf, smem)
from . import p_spec

from packaging.specifiers import InvalidSpecifier as PkgInvalid, SpecifierSet  # noqa: E402
from dep_logic.specifiers import InvalidSpecifier, from_specifierset  # noqa: E402

THEOREMS_BY_PROP = {
    "C06": ["DepLogic.C06.empty_roundtrip", "DepLogic.C06.any_roundtrip", "DepLogic.C06.range_roundtrip_plain_partial",
            "DepLogic.C06.postrelease_counterexample", "DepLogic.C06.range_roundtrip", "DepLogic.C06.union_roundtrip",
            "DepLogic.C06.alts_roundtrip", "DepLogic.C06.roundtrips", "DepLogic.compat_render", "DepLogic.wild_render",
            "DepLogic.Spec.canon_unique", "DepLogic.C06.reach_roundtrips", "DepLogic.C06.nice_roundtrips",
            "DepLogic.Spec.and_textInv", "DepLogic.Spec.or_textInv", "DepLogic.Spec.fromClause_textInv"],
    "C04": ["DepLogic.C04.leaf_exact", "DepLogic.C04.leaf_exact_plain", "DepLogic.C04.tree_exact",
            "DepLogic.VOrd.wild_mem", "DepLogic.VOrd.compat_mem", "DepLogic.VOrd.lt_iff", "DepLogic.C04.contains_exact",
            "DepLogic.C04.range_contains_exact", "DepLogic.C01.and_exact",
            "DepLogic.C01.or_exact", "DepLogic.C01.invert_exact"],
    "C17": ["DepLogic.C17.fromClause_total", "DepLogic.C17.fromSpecifierSet_total", "DepLogic.C17.nextSeries_isSome"],
}
THEOREMS: list[str] = []


def finals():
    out = []
    for s in all_spellings():
        v = Version(s)
        if v.pre is None and v.post is None and v.dev is None:
            out.append(v)
    out += [Version(x) for x in ["0.1", "1.0.5", "1.3", "1.9", "2.0.0.1", "2.19", "3.7.5", "3.13", "5", "1!0.5", "1!3.0", "2.1.1", "0.0.0.1"]]
    return out


FINALS = finals()


def reachable_objects(run: core.Run, n: int):
    """results of random expressions over parsed leaves, with the leaves themselves"""
    rng = run.rng
    pool = all_spellings()
    # exhaustive over the ladder: every ordered pair of bound spellings as a two-range union and as a bounded range,
    # computed by the algebra (no source text attached) -- the shapes the rendering heuristics (`!=X.*`, `==X.*`, `~=`,
    # `!=V`) inspect; includes epoch-adjacent and all-zero releases (seed C06d: `<1!0 || >=2!0` rendered `!=1!.*`)
    for L, R in itertools.product(pool, pool):
        if not Version(L) < Version(R):
            continue
        for expr, build in ((f"(<{L})|(>={R})", lambda: parse_version_specifier("<" + L) | parse_version_specifier(">=" + R)),
                            (f"(>={L})&(<{R})", lambda: parse_version_specifier(">=" + L) & parse_version_specifier("<" + R))):
            try:
                yield ("result", expr, build())
            except Exception:  # noqa: BLE001  (C01's business)
                pass
    for _ in range(n):
        leaves = []
        for _ in range(rng.choice([1, 2, 2, 3])):
            text = random_clause_set(rng, pool)
            if rng.random() < 0.15:
                text += "||" + random_clause_set(rng, pool)
            try:
                leaves.append((text, parse_version_specifier(text)))
            except Exception as e:  # noqa: BLE001
                run.fail(core.Failure("parse|" + text, f"parse_version_specifier({text!r}) raised {type(e).__name__}",
                                      {"op": "parse", "text": text}))
        if not leaves:
            continue
        for t, o in leaves:
            yield ("leaf", t, o)
        objs = [o for _, o in leaves]
        texts = [t for t, _ in leaves]
        while len(objs) > 1:
            i = rng.randrange(len(objs) - 1)
            a, b = objs[i], objs[i + 1]
            ta, tb = texts[i], texts[i + 1]
            r0 = rng.random()
            try:
                if r0 < 0.2:
                    objs[i] = ~a
                    texts[i] = f"~({ta})"
                elif r0 < 0.6:
                    objs[i:i + 2] = [a & b]
                    texts[i:i + 2] = [f"({ta})&({tb})"]
                else:
                    objs[i:i + 2] = [a | b]
                    texts[i:i + 2] = [f"({ta})|({tb})"]
            except Exception:  # noqa: BLE001  (C01's business)
                break
            yield ("result", texts[i], objs[i])


def compat_postrelease_family(s) -> bool:
    """D4a: a range [X.Y, (X+1).0.postN) renders as `~=X.Y` (pinned by tests/specifier/test_range.py)"""
    rs = [s] if isinstance(s, RangeSpecifier) else list(getattr(s, "ranges", []))
    return any(r.simplified is None and r.max is not None and r.max.is_postrelease and str(r).startswith("~=") for r in rs)


def run_c06(run: core.Run, n: int) -> None:
    probes = [Version(x) for x in all_spellings()] + FINALS
    seen = set()
    n_oracle = 0
    for kind, expr, s in reachable_objects(run, n):
        e = enc_spec(s)
        if e in seen:
            continue
        seen.add(e)
        rep = {"op": "roundtrip", "spec": e, "expr": expr}
        try:
            text = str(s)
        except Exception as ex:  # noqa: BLE001
            run.add(core.Case("str", f"t.str\t{e}", enc_exc(ex)))
            run.fail(core.Failure("str|" + e, f"str() of {expr} raised {type(ex).__name__}", rep))
            continue
        run.add(core.Case("str", f"t.str\t{e}", text, kind == "result"))
        try:
            back = parse_version_specifier(text)
        except Exception as ex:  # noqa: BLE001
            run.fail(core.Failure("reparse|" + e, f"str() = {text!r} does not re-parse ({type(ex).__name__})", rep))
            continue
        run.add(core.Case("reparse", f"t.parse\t{text}", enc_spec(back), kind == "result"))
        n_oracle += 1
        same = (back == s) and (s == back) and [smem(back, q) for q in probes] == [smem(s, q) for q in probes]
        if not same:
            f = core.Failure("roundtrip|" + e, f"parse(str(s)) != s for s = {expr}: str = {text!r}, back = {back!r}", rep)
            if compat_postrelease_family(s):
                f.family = "compat-render-postrelease-max"
            run.fail(f)
    # the named special forms
    for text in ["<empty>", "", "!=1.0", "!=1.*", "==1.*", "~=1.2", "~=1.2.3", "!=1.2.0.*", ">=1||<0.5", "==1.0", "!=1!2.*"]:
        s = parse_version_specifier(text)
        run.add(core.Case("special", f"t.parse\t{text}", enc_spec(s)))
        run.add(core.Case("special", f"t.str\t{enc_spec(s)}", str(s)))
        if parse_version_specifier(str(s)) != s:
            run.fail(core.Failure("special|" + text, f"special form {text!r} does not round-trip", {"op": "special", "text": text}))
    run.extra["oracle_evaluations"] = n_oracle


def tree(rng, pool, depth):
    if depth == 0 or rng.random() < 0.3:
        t = random_clause_set(rng, pool)
        return ("leaf", t)
    r = rng.random()
    if r < 0.2:
        return ("not", tree(rng, pool, depth - 1))
    return ("and" if r < 0.6 else "or", tree(rng, pool, depth - 1), tree(rng, pool, depth - 1))


def ev_impl(t):
    if t[0] == "leaf":
        return parse_version_specifier(t[1])
    if t[0] == "not":
        return ~ev_impl(t[1])
    a, b = ev_impl(t[1]), ev_impl(t[2])
    return (a & b) if t[0] == "and" else (a | b)


def ev_ref(t, v):
    if t[0] == "leaf":
        return SpecifierSet(t[1]).contains(v)
    if t[0] == "not":
        return not ev_ref(t[1], v)
    if t[0] == "and":
        return ev_ref(t[1], v) and ev_ref(t[2], v)
    return ev_ref(t[1], v) or ev_ref(t[2], v)


def show(t):
    if t[0] == "leaf":
        return t[1]
    if t[0] == "not":
        return f"~({show(t[1])})"
    return f"({show(t[1])}) {'&' if t[0] == 'and' else '|'} ({show(t[2])})"


def run_c04(run: core.Run, n: int) -> None:
    rng = run.rng
    pool = all_spellings()
    n_oracle = 0
    # reference model vs installed packaging, on leaves x finals
    for _ in range(n):
        leaf = random_leaf(rng, pool)
        for v in rng.sample(FINALS, 6):
            run.add(core.Case("ref-vs-packaging", f"t.match\t{leaf}\t{v}", enc_T(SpecifierSet(leaf).contains(v))))
    for _ in range(n):
        t = tree(rng, pool, 3)
        try:
            res = ev_impl(t)
        except Exception as e:  # noqa: BLE001
            run.fail(core.Failure("eval|" + show(t), f"{show(t)} raised {type(e).__name__}", {"op": "tree", "tree": t}))
            continue
        run.add(core.Case("contains-text", f"t.str\t{enc_spec(res)}", str(res) if not isinstance(res, ArbitrarySpecifier) else "n/a"))
        for v in rng.sample(FINALS, 8):
            n_oracle += 1
            want = ev_ref(t, v)
            try:
                got = v in res
                got2 = res.contains(v)      # every result, the empty and the universal one too (fixed defect D30)
            except Exception as e:  # noqa: BLE001
                run.fail(core.Failure(f"in|{show(t)}|{v}", f"`{v} in` result of {show(t)} raised {type(e).__name__}",
                                      {"op": "tree", "tree": t, "v": str(v)}))
                continue
            run.add(core.Case("contains", f"t.contains\t{enc_spec(res)}\t{v}", enc_T(got)))
            if got != want or got2 != want:
                f = core.Failure(f"in|{show(t)}|{v}", f"{v} in [{show(t)}] = {got}, packaging says {want}; result {res!r}",
                                 {"op": "tree", "tree": t, "v": str(v)})
                if compat_postrelease_family(res):
                    f.family = "compat-render-postrelease-max"
                run.fail(f)
    # exhaustive: every ordered pair of range / point / complement leaves over three bounds with every combination of
    # inclusive and exclusive ends, under &, | and ~(A&B)&A, judged at, between and beyond the bounds (seed C04c: a tie
    # on equal upper bounds decided by the wrong flag needs one particular combination and the candidate on the bound)
    gb = ["1", "2", "3.0"]
    leaves = []
    for i, lo in enumerate(gb):
        leaves += [f">{lo}", f">={lo}", f"<{lo}", f"<={lo}", f"=={lo}", f"!={lo}"]
        for hi in gb[i + 1:]:
            leaves += [f"{a}{lo},{b}{hi}" for a in (">", ">=") for b in ("<", "<=")]
    cands = [Version(x) for x in ("0", "1", "1.5", "2", "2.5", "3", "4")]
    parsed = {t: parse_version_specifier(t) for t in leaves}
    truth = {t: [SpecifierSet(t).contains(v) for v in cands] for t in leaves}
    for A, B in itertools.product(leaves, leaves):
        a, b = parsed[A], parsed[B]
        ta, tb = truth[A], truth[B]
        for name, res, want in ((f"({A}) & ({B})", a & b, [x and y for x, y in zip(ta, tb)]),
                                (f"({A}) | ({B})", a | b, [x or y for x, y in zip(ta, tb)]),
                                (f"~(({A}) & ({B})) & ({A})", ~(a & b) & a, [x and not y for x, y in zip(ta, tb)])):
            n_oracle += len(cands)
            got = [v in res for v in cands]
            if got != want:
                i = [g != w for g, w in zip(got, want)].index(True)
                t = ("and", ("leaf", A), ("leaf", B)) if name.startswith("(") and " & " in name else \
                    (("or", ("leaf", A), ("leaf", B)) if " | " in name else ("and", ("not", ("and", ("leaf", A), ("leaf", B))), ("leaf", A)))
                run.fail(core.Failure(f"in|{name}|{cands[i]}", f"{cands[i]} in [{name}] = {got[i]}, packaging says {want[i]}; result {res!r}",
                                      {"op": "tree", "tree": t, "v": str(cands[i])}))
    # exhaustive triples of touching pieces: a union that grows range by range and is complemented afterwards (seed C04h:
    # an "append" fast path in UnionSpecifier.__or__ that forgets adjacency -- the un-merged union still answers
    # membership correctly, only its complement contains the shared bound)
    tl = [f">={a},<{a + 1}" for a in (1, 2, 3, 4)] + [f">{a},<={a + 1}" for a in (1, 2, 3)] + [f"=={a}" for a in (1, 2, 3, 4)] + \
         ["<1", "<=1", ">2", ">=2", ">4", "<3"]
    tc = [Version(x) for x in ("0", "1", "1.5", "2", "2.5", "3", "3.5", "4", "4.5", "5", "6")]
    tp = {t: parse_version_specifier(t) for t in tl}
    tt = {t: [SpecifierSet(t).contains(v) for v in tc] for t in tl}
    for A, B, C in itertools.product(tl, tl, tl):
        u1, u2 = (tp[A] | tp[B]) | tp[C], tp[A] | (tp[B] | tp[C])
        want = [not (x or y or z) for x, y, z in zip(tt[A], tt[B], tt[C])]
        for name, res, tree_ in ((f"~((({A}) | ({B})) | ({C}))", ~u1, ("not", ("or", ("or", ("leaf", A), ("leaf", B)), ("leaf", C)))),
                                 (f"~(({A}) | (({B}) | ({C})))", ~u2, ("not", ("or", ("leaf", A), ("or", ("leaf", B), ("leaf", C)))))):
            n_oracle += len(tc)
            got = [v in res for v in tc]
            if got != want:
                i = [g != w for g, w in zip(got, want)].index(True)
                run.fail(core.Failure(f"in|{name}|{tc[i]}", f"{tc[i]} in [{name}] = {got[i]}, packaging says {want[i]}; result {res!r}",
                                      {"op": "tree", "tree": tree_, "v": str(tc[i])}))
                break
    # deterministic layer around the shortening heuristics (seed C04k: `contains()` goes through `str()`, so a `~=` / `==X.*` /
    # `!=X.*` detection that looks at too few segments of a LONGER upper bound changes membership -- `>=1.2.3,<1.3.0.1` printed
    # `~=1.2.3` loses 1.3): computed ranges [L, U) with U one series above L at every position and every short tail, zero and
    # not, and their complements, judged on all the bounds involved
    Ls = [(1, 2), (1, 2, 3), (1, 2, 0), (3, 8), (1, 2, 3, 4), (2, 0), (0, 9)]
    tails = [(), (0,), (0, 0), (0, 1), (1,), (0, 0, 1), (0, 2, 0)]
    dot = lambda t: ".".join(map(str, t))  # noqa: E731
    fam = []
    for L in Ls:
        for i in range(len(L)):
            for tl_ in tails:
                fam.append((dot(L), dot(L[:i] + (L[i] + 1,) + tl_)))
    cand_texts = sorted({x for pair in fam for x in pair} | {"0", "1", "1.2.5", "1.3.5", "2.5", "9"})
    fc = [Version(x) for x in cand_texts]
    n_fam = 0
    for Lt, Ut in fam:
        lo, hi = parse_version_specifier(">=" + Lt), parse_version_specifier("<" + Ut)
        tlo = [SpecifierSet(">=" + Lt).contains(v) for v in fc]
        thi = [SpecifierSet("<" + Ut).contains(v) for v in fc]
        forms = [(f"(>={Lt}) & (<{Ut})", lambda: lo & hi, [x and y for x, y in zip(tlo, thi)], ("and", ("leaf", ">=" + Lt), ("leaf", "<" + Ut))),
                 (f"~((<{Lt}) | (>={Ut}))", lambda: ~(parse_version_specifier("<" + Lt) | parse_version_specifier(">=" + Ut)),
                  [x and y for x, y in zip(tlo, thi)], ("not", ("or", ("leaf", "<" + Lt), ("leaf", ">=" + Ut)))),
                 (f"(<{Lt}) | (>={Ut})", lambda: parse_version_specifier("<" + Lt) | parse_version_specifier(">=" + Ut),
                  [not (x and y) for x, y in zip(tlo, thi)], ("or", ("leaf", "<" + Lt), ("leaf", ">=" + Ut)))]
        for name, f, want, tree_ in forms:
            n_fam += 1
            try:
                res = f()
                got = [v in res for v in fc]
                got2 = [res.contains(v) for v in fc]
            except Exception as e:  # noqa: BLE001
                run.fail(core.Failure("eval|" + name, f"{name} raised {type(e).__name__}", {"op": "tree", "tree": tree_}))
                continue
            n_oracle += 2 * len(fc)
            for g in (got, got2):
                if g != want:
                    i = [x != w for x, w in zip(g, want)].index(True)
                    fl = core.Failure(f"in|{name}|{fc[i]}", f"{fc[i]} in [{name}] = {g[i]}, packaging says {want[i]}; result {res!r}",
                                      {"op": "tree", "tree": tree_, "v": str(fc[i])})
                    if compat_postrelease_family(res):
                        fl.family = "compat-render-postrelease-max"
                    run.fail(fl)
                    break
    run.extra["shortening_family_forms"] = n_fam
    # `===` leaves: same equation or ValueError
    for _ in range(max(50, n // 10)):
        arb = "===" + rng.choice(pool)
        other = random_clause_set(rng, pool)
        for expr, f in ((f"{arb} & {other}", lambda: parse_version_specifier(arb) & parse_version_specifier(other)),
                        (f"{other} | {arb}", lambda: parse_version_specifier(other) | parse_version_specifier(arb)),
                        (f"{arb},{other}", lambda: parse_version_specifier(arb + "," + other))):
            try:
                res = f()
            except ValueError:
                continue
            except Exception as e:  # noqa: BLE001
                run.fail(core.Failure("arb|" + expr, f"{expr} raised {type(e).__name__}, not ValueError", {"op": "arb", "expr": expr}))
                continue
            for v in rng.sample(FINALS, 6):
                n_oracle += 1
                a = SpecifierSet(arb).contains(v)
                o = SpecifierSet(other).contains(v)
                want = (a or o) if "|" in expr else (a and o)
                if (v in res) != want:
                    run.fail(core.Failure(f"arb|{expr}|{v}", f"{v} in [{expr}] = {v in res}, packaging says {want}",
                                          {"op": "arb", "expr": expr, "v": str(v)}))
    run.extra["oracle_evaluations"] = n_oracle


# ----------------------------------------------------------------------------- C17

def spell_version(rng, canonical_only=False) -> str:
    rel = [rng.choice([0, 1, 2, 3, 10, 20, 2024]) for _ in range(rng.randint(1, 5 if not canonical_only else 4))]
    s = ""
    if rng.random() < 0.15:
        s += f"{rng.randint(0, 2)}!"
    if not canonical_only and rng.random() < 0.1:
        s = rng.choice("vV") + s
    s += ".".join(map(str, rel))
    if rng.random() < 0.3:
        sep = "" if canonical_only else rng.choice(["", ".", "-", "_"])
        kind = rng.choice(["a", "b", "rc"] if canonical_only else ["a", "b", "rc", "alpha", "beta", "c", "pre", "preview", "RC", "A"])
        n = rng.choice(["0", "1", "12"]) if canonical_only else rng.choice(["", "0", "1", "12", ".3", "_4"])
        s += sep + kind + n
    if rng.random() < 0.25:
        if canonical_only:
            s += f".post{rng.randint(0, 3)}"
        else:
            s += rng.choice([".post1", "-1", "post2", ".POST0", "_rev3", ".r4", "-post", ".post.5"])
    if rng.random() < 0.2:
        s += f".dev{rng.randint(0, 3)}" if canonical_only else rng.choice([".dev1", "dev2", "-dev3", ".DEV", "_dev_4"])
    return s


def spell_clause(rng) -> str:
    r = rng.random()
    sp = lambda: rng.choice(["", "", " "])  # noqa: E731
    if r < 0.12:
        rel = ".".join(str(rng.choice([0, 1, 2, 10])) for _ in range(rng.randint(1, 4)))
        ep = f"{rng.randint(1, 2)}!" if rng.random() < 0.15 else ""
        vpre = rng.choice("vV") if rng.random() < 0.1 else ""
        return rng.choice(["==", "!="]) + sp() + vpre + ep + rel + ".*"
    if r < 0.24:
        while True:
            v = spell_version(rng)
            if len(Version(v).release) >= 2:
                return "~=" + sp() + v
    return rng.choice([">", ">=", "<", "<=", "==", "!="]) + sp() + spell_version(rng)


def spelling_grid() -> list[str]:
    """Deterministic layer (seed C17k: an upper-case `V` prefix on a wildcard): packaging's specifier grammar is
    case-insensitive and allows a `v` prefix, an epoch and several spellings of each suffix on EVERY operator form;
    every combination of operator form x prefix x epoch x release x suffix spelling, whatever the random stream does."""
    out = []
    sufs = ["", "RC1", "Rc1", "a1", "A1", ".POST1", ".Post1", ".DEV1", ".Dev2", "ALPHA1", "Beta2", "PREVIEW3", "C4", "-R5", "_REV6",
            "rc1.POST2.DEV3"]
    for op in ["==", "!=", "~=", ">=", "<=", "<", ">", "==*", "!=*"]:
        for pre in ["", "v", "V"]:
            for ep in ["", "1!"]:
                for rel in ["1", "1.0", "2.3.4"]:
                    for suf in sufs:
                        if op.endswith("*"):
                            out.append(op[:2] + pre + ep + rel + suf + ".*")
                        else:
                            out.append(op + pre + ep + rel + suf)
    return out


def near_miss(rng) -> str:
    base = spell_clause(rng)
    muts = [lambda s: s.replace("=", "", 1), lambda s: s + ".*" if not s.endswith("*") and s[0] in "<>~" else s + "x",
            lambda s: "=>" + s[2:], lambda s: s + "+", lambda s: s.replace(".", "..", 1), lambda s: "~=" + "1",
            lambda s: s + ",", lambda s: "1.0", lambda s: s + " || ", lambda s: "<empty>,>=1", lambda s: s + "||<empty> ",
            lambda s: ">=1.0a.1.post.x", lambda s: "!" + s, lambda s: s[:2] + "1!" + s[2:] + "!2", lambda s: "==1.0.*.1",
            lambda s: ">1.*", lambda s: "~=1.*", lambda s: "===", lambda s: s + "@",
            # any printable ASCII character anywhere (seed C17f: a `%` in an invalid string met %-formatting of the error text)
            lambda s: (lambda i, c: s[:i] + c + s[i:])(rng.randrange(len(s) + 1), chr(rng.randrange(33, 127))),
            lambda s: s + rng.choice(["%s", "%d", "%(x)s", "%", "{}", "{0}", "\\", "\x00", "\t", "\n"])]
    return rng.choice(muts)(base)


def outcome(f):
    try:
        r = f()
        return "ok", r
    except InvalidSpecifier as e:
        return "InvalidSpecifier", e
    except Exception as e:  # noqa: BLE001
        return "raise:" + type(e).__name__, e


def pkg_accepts_parts(text: str) -> bool:
    """acceptance oracle: every `||` part is `<empty>` or accepted by packaging's SpecifierSet, local-free"""
    for part in text.split("||"):
        if part == "<empty>":
            continue
        try:
            ss = SpecifierSet(part)
        except PkgInvalid:
            return False
        # ... over the PEP 440 VERSION grammar: packaging's `~=` clause folds case beyond ASCII (`~=1.0.po\u017ft1` is
        # accepted although the operand is not a version, fixed defect D25); such strings are "every other string"
        for c in ss:
            v = c.version[:-2] if c.version.endswith(".*") else c.version
            if c.operator != "===":
                try:
                    Version(v)
                except Exception:  # noqa: BLE001
                    return False
    return True


def run_c17(run: core.Run, n: int) -> None:
    rng = run.rng
    n_oracle = 0
    kinds: dict[str, int] = {}
    # the special forms first, every run: `<empty>` in every position of a `||` chain (seed C17e: all-empty chains), bare
    # `||`, blanks around `<empty>`, and operands packaging's specifier grammar accepts beyond the version grammar (D25)
    specials = ["<empty>", "<empty>||<empty>", "<empty>||<empty>||<empty>", ">=1||<empty>", "<empty>||>=1", ">=1||<empty>||<2",
                "<empty>||<empty>||==1.*", "||", ">=1||", "||>=1", "<empty>|| <empty>", " <empty>", "<empty> ", "<empty>,>=1", "",
                "~=1.0.po\u017ft1", "~=1.0.prev\u0131ew1", ">=1.0.po\u017ft1", "==1.0.po\u017ft1", "~=1.0.POST1", "~=1.0.Post1||<empty>",
                "==1.0.\u0131*", "~=1.\u0660", "===1.0||>=2",
                ">=1." + "9" * 5000, "==1." + "9" * 4300 + ".*",       # known finding G7: CPython's int <-> str digit limit
                # more `||` alternatives than the interpreter's recursion limit (seed C17i: a recursive fold), valid and not
                "||".join(f">={i}.5" for i in range(1200, 0, -1)), "||".join(f"!={i}" for i in range(1100)) + "||>=x",
                "%3E%3D1.0", ">=1.0%s", ">=%(min)s,<%(max)s", "100%", ">=1.0||<2%s", "{}", ">=1.0{0}", ">=1\x00"]
    specials += spelling_grid()
    run.extra["spelling_grid"] = len(spelling_grid())
    for i in range(n + len(specials)):
        if i < len(specials):
            text = specials[i]
        elif i % 4 == 3:
            text = near_miss(rng)
        else:
            text = ",".join(spell_clause(rng) for _ in range(rng.choice([1, 1, 2, 3])))
            if rng.random() < 0.2:
                text += rng.choice(["||", " || "]) + rng.choice(["<empty>", spell_clause(rng)])
        if "+" in text and pkg_accepts_parts(text):
            continue    # local versions are outside every claim
        want_ok = pkg_accepts_parts(text)
        kind, res = outcome(lambda: parse_version_specifier(text))
        kinds[kind] = kinds.get(kind, 0) + 1
        n_oracle += 1
        rep = {"op": "parse", "text": text}
        if re.search(r"\d{4300,}", text) and kind == "raise:ValueError":
            # known finding G7: SpecifierSet accepts the text (it parses versions lazily), the eager conversion here hits
            # CPython's 4300-digit limit for int <-> str and the bare ValueError escapes
            f = core.Failure("parse|" + text[:40] + "...", f"parse_version_specifier({text[:40]!r}...: {len(text)} characters) -> ValueError "
                             "(integer string conversion limit)", rep)
            f.family = "int-digit-limit"
            run.fail(f)
        elif want_ok and kind != "ok":
            run.fail(core.Failure("parse|" + text, f"parse_version_specifier({text!r}) -> {kind}; packaging accepts it", rep))
        elif not want_ok and kind != "InvalidSpecifier":
            run.fail(core.Failure("parse|" + text, f"parse_version_specifier({text!r}) -> {kind}; expected InvalidSpecifier", rep))
        if want_ok and kind == "ok" and "===" not in text:
            # metamorphic: the normalised spelling parses to the same structure
            norm = "||".join(p if p == "<empty>" else ",".join(norm_clause(str(c)) for c in SpecifierSet(p)._specs)
                             for p in text.split("||"))
            kind2, res2 = outcome(lambda: parse_version_specifier(norm))
            if kind2 != "ok" or strip_text(enc_spec(res2)) != strip_text(enc_spec(res)):
                run.fail(core.Failure("norm|" + text, f"{text!r} and its normalised spelling {norm!r} parse differently", rep))
            else:
                run.add(core.Case("parse-normalised", f"t.parse\t{norm}", enc_spec(res2)))
        if want_ok and kind == "ok":
            try:
                ss = [SpecifierSet(p) for p in text.split("||") if p != "<empty>"]
                for s in ss:
                    from_specifierset(s)
            except Exception as e:  # noqa: BLE001
                run.fail(core.Failure("fss|" + text, f"from_specifierset raised {type(e).__name__} on {text!r}", rep))
    run.extra["outcome_histogram"] = kinds
    run.extra["oracle_evaluations"] = n_oracle


def norm_clause(c: str) -> str:
    for op in ("~=", "==", "!=", ">=", "<=", ">", "<"):
        if c.startswith(op):
            v = c[len(op):].strip()
            if v.endswith(".*"):
                return op + str(Version(v[:-2])) + ".*"
            return op + str(Version(v))
    raise ValueError(c)


def strip_text(enc: str) -> str:
    """drop the cached-text field (spelling dependent) from an encoded specifier"""
    import re
    enc = re.sub(r",[^,()]*\)", ",)", enc)
    return re.sub(r"\{[^}]*\}", "{}", enc)


def run_prop(prop: str, run: core.Run) -> None:
    quick = run.tier == "quick"
    if prop == "C06":
        run.rule = ("reachable specifiers = parsed clause sets over 57 version groups of mixed shape and results of random "
                    "&,|,~ expressions over them; distinct by structure; non-trivial = produced by an operator (text not cached)")
        run_c06(run, 2500 if quick else 40000)
    elif prop == "C04":
        run.rule = ("random expression trees (depth<=3) over comma-joined leaves with >,>=,<,<=,==,!=,~=,==X.*,!=X.*; "
                    "final-release candidates around the bounds; plus the reference model vs packaging on leaves x finals; "
                    "plus `===` leaves (same equation or ValueError)")
        run_c04(run, 1500 if quick else 25000)
    else:
        run.rule = ("grammar-generated specifier sets (epochs, v prefix, alternative pre/post/dev spellings, separators, "
                    "1-5 release segments, wildcards, ~=, ||, <empty>) and near-miss invalid strings; outcome class compared "
                    "with packaging's SpecifierSet; metamorphic normalised-spelling check; canonical spellings also "
                    "compared structurally with the Lean model")
        run_c17(run, 5000 if quick else 80000)


def replay(data: dict) -> bool:
    r = data["replay"]
    if r["op"] == "parse":
        text = r["text"]
        kind, _ = outcome(lambda: parse_version_specifier(text))
        return (kind != "ok") if pkg_accepts_parts(text) else (kind != "InvalidSpecifier")
    if r["op"] in ("roundtrip",):
        s = p_spec.dec_spec(r["spec"])
        try:
            return parse_version_specifier(str(s)) != s
        except Exception:  # noqa: BLE001
            return True
    if r["op"] == "special":
        s = parse_version_specifier(r["text"])
        return parse_version_specifier(str(s)) != s
    if r["op"] == "tree":
        t = json_tree(r["tree"])
        try:
            res = ev_impl(t)
        except Exception:  # noqa: BLE001
            return True
        vs = [Version(r["v"])] if "v" in r else FINALS
        try:
            return any((v in res) != ev_ref(t, v) or res.contains(v) != ev_ref(t, v) for v in vs)
        except AttributeError:
            return True
    return True


def json_tree(t):
    return tuple(json_tree(x) if isinstance(x, list) else x for x in t)
