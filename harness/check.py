"""CLI: ./check Cxx [--tier quick|thorough] [--replay FILE]"""
from __future__ import annotations

import argparse
import importlib
import json
import os
import sys
import traceback

from . import core

MODULES = {
    "C19": "p_generic",
    "C01": "p_spec",
    "C05": "p_spec",
    "C06": "p_text",
    "C04": "p_text",
    "C17": "p_text",
    "C02": "p_marker",
    "C03": "p_marker",
    "C07": "p_marker",
    "C12": "p_marker",
    "C15": "p_marker",
    "C10": "p_marker2",
    "C11": "p_marker2",
    "C13": "p_marker2",
    "C14": "p_marker2",
    "C08": "p_tags",
    "C09": "p_tags",
    "C16": "p_tags",
    "C18": "p_tags",
}


def _shard_worker(args):
    prop, tier, seed, index, count = args
    mod = importlib.import_module("harness." + MODULES[prop])
    theorems = getattr(mod, "THEOREMS_BY_PROP", {}).get(prop) or mod.THEOREMS
    run = core.Run(prop, tier, seed, theorems)
    run.set_shard(index, count)
    mod.run_prop(prop, run)
    return {"cases": run.cases, "failures": run.failures, "extra": run.extra, "rule": run.rule,
            "assumptions": run.assumptions, "exhaustive": run.exhaustive}


def run_sharded(mod, prop: str, run: core.Run, jobs: int) -> None:
    """thorough tier: the workload of `run_prop` split over `jobs` forked workers (each with its own PRNG stream
    derived from seed/property/index); cases, failures and counters are merged into `run` in worker order"""
    import multiprocessing
    with multiprocessing.get_context("fork").Pool(jobs) as pool:
        parts = pool.map(_shard_worker, [(prop, run.tier, run.seed, i, jobs) for i in range(jobs)], chunksize=1)
    for i, part in enumerate(parts):
        run.cases.extend(part["cases"])
        run.failures.extend(part["failures"])
        for k, v in part["extra"].items():
            if isinstance(v, (int, float)) and not isinstance(v, bool) and isinstance(run.extra.get(k, 0), (int, float)):
                run.extra[k] = run.extra.get(k, 0) + v
            elif i == 0 or k not in run.extra:
                run.extra[k] = v
        if i == 0:
            run.rule, run.assumptions, run.exhaustive = part["rule"], part["assumptions"], part["exhaustive"]
    run.extra["worker_processes"] = jobs


def main() -> int:
    ap = argparse.ArgumentParser()
    ap.add_argument("prop")
    ap.add_argument("--tier", default=os.environ.get("VERIF_TIER", "quick"), choices=["quick", "thorough"])
    ap.add_argument("--replay")
    args = ap.parse_args()
    if args.prop not in MODULES:
        print(f"unknown property {args.prop}", file=sys.stderr)
        return 2
    mod = importlib.import_module("harness." + MODULES[args.prop])
    if args.replay:
        data = json.loads(open(args.replay).read())
        still = mod.replay(data) if "replay" in data else None
        print(json.dumps({"property": args.prop, "still_fails": still, "what": data.get("what")}))
        return 1 if still else 0
    seed = core.seed_from_env()
    theorems = getattr(mod, "THEOREMS_BY_PROP", {}).get(args.prop) or mod.THEOREMS
    run = core.Run(args.prop, args.tier, seed, theorems)
    try:
        run.proof = core.proof_obligations(theorems, args.tier)
        jobs = int(os.environ.get("VERIF_JOBS", "0")) or (min(16, os.cpu_count() or 1) if args.tier == "thorough" else 1)
        if jobs > 1 and args.prop in getattr(mod, "SHARDED", ()):
            run_sharded(mod, args.prop, run, jobs)
        elif hasattr(mod, "run_prop"):
            mod.run_prop(args.prop, run)
        else:
            mod.run(run)
        if run.proof.get("build_ok"):
            run.compare_with_model()
        if run.disagreements and not run.failures and hasattr(mod, "search"):
            mod.search(args.prop, run)
        # entries recorded as fixed suppress nothing: replay them, they must pass
        _known, fixed = core.load_known(args.prop)
        for e in fixed:
            if "replay" in e and mod.replay({"replay": e["replay"]}):
                run.fail(core.Failure(e["key"], "regression of a fixed finding: " + e["what"], e["replay"]))
        run.extra["fixed_findings_replayed"] = len(fixed)
        rc = run.finish()
    except Exception:  # noqa: BLE001  -- harness malfunction is not a verdict
        traceback.print_exc()
        rc = 2
    finally:
        core.cleanup()
    return rc


if __name__ == "__main__":
    sys.exit(main())
