"""CLI: ./check Cxx [--tier quick|thorough] [--replay FILE]"""
from __future__ import annotations

import argparse
import importlib
import json
import os
import sys
import traceback

from . import core

MODULES = {
    "C19": "p_generic",
    "C01": "p_spec",
    "C05": "p_spec",
    "C06": "p_text",
    "C04": "p_text",
    "C17": "p_text",
    "C02": "p_marker",
    "C03": "p_marker",
    "C07": "p_marker",
    "C12": "p_marker",
    "C15": "p_marker",
    "C10": "p_marker2",
    "C11": "p_marker2",
    "C13": "p_marker2",
    "C14": "p_marker2",
    "C08": "p_tags",
    "C09": "p_tags",
    "C16": "p_tags",
    "C18": "p_tags",
}


def main() -> int:
    ap = argparse.ArgumentParser()
    ap.add_argument("prop")
    ap.add_argument("--tier", default=os.environ.get("VERIF_TIER", "quick"), choices=["quick", "thorough"])
    ap.add_argument("--replay")
    args = ap.parse_args()
    if args.prop not in MODULES:
        print(f"unknown property {args.prop}", file=sys.stderr)
        return 2
    mod = importlib.import_module("harness." + MODULES[args.prop])
    if args.replay:
        data = json.loads(open(args.replay).read())
        still = mod.replay(data) if "replay" in data else None
        print(json.dumps({"property": args.prop, "still_fails": still, "what": data.get("what")}))
        return 1 if still else 0
    seed = core.seed_from_env()
    theorems = getattr(mod, "THEOREMS_BY_PROP", {}).get(args.prop) or mod.THEOREMS
    run = core.Run(args.prop, args.tier, seed, theorems)
    try:
        run.proof = core.proof_obligations(theorems, args.tier)
        if hasattr(mod, "run_prop"):
            mod.run_prop(args.prop, run)
        else:
            mod.run(run)
        if run.proof.get("build_ok"):
            run.compare_with_model()
        if run.disagreements and not run.failures and hasattr(mod, "search"):
            mod.search(args.prop, run)
        # entries recorded as fixed suppress nothing: replay them, they must pass
        _known, fixed = core.load_known(args.prop)
        for e in fixed:
            if "replay" in e and mod.replay({"replay": e["replay"]}):
                run.fail(core.Failure(e["key"], "regression of a fixed finding: " + e["what"], e["replay"]))
        run.extra["fixed_findings_replayed"] = len(fixed)
        rc = run.finish()
    except Exception:  # noqa: BLE001  -- harness malfunction is not a verdict
        traceback.print_exc()
        rc = 2
    finally:
        core.cleanup()
    return rc


if __name__ == "__main__":
    sys.exit(main())
