"""C08, C09, C16, C18: wheel tags, platform tags, EnvSpec.compatibility / compare, name parsing."""
from __future__ import annotations

import itertools
import re

from . import core
from .specs import Version, enc_spec, parse_version_specifier, smem

core.setup_repo_path()

from packaging import tags as pkg_tags  # noqa: E402
from packaging import utils as pkg_utils  # noqa: E402

from dep_logic.tags import EnvSpec, Implementation, InvalidWheelFilename, Platform  # noqa: E402
from dep_logic.tags import os as dl_os  # noqa: E402
from dep_logic.tags.platform import Arch, PlatformError  # noqa: E402
from dep_logic.tags.tags import EnvCompatibility, parse_wheel_tags  # noqa: E402

THEOREMS_BY_PROP = {
    "C08": ["DepLogic.C08.evalPyCore_iff", "DepLogic.C08.compatible_of_exists", "DepLogic.C08.exists_of_compatible",
            "DepLogic.C08.exists_cut_of_compatible", "DepLogic.C08.wheelSpec_reads",
            "DepLogic.C08.score_shape", "DepLogic.C08.abiGate_iff", "DepLogic.C08.maxScore_spec",
            "DepLogic.C08.compatibility_score", "DepLogic.C08.compatibility_none", "DepLogic.C08.compatibility_perm",
            "DepLogic.C16.evalPyCore_cut_iff", "DepLogic.C05.isEmpty_sound", "DepLogic.C01.and_exact",
            "DepLogic.C04.leaf_exact"],
    "C09": ["DepLogic.C09.manylinux_tags", "DepLogic.C09.manylinuxLoop_mem", "DepLogic.C09.manylinuxLoop_sorted",
            "DepLogic.C09.musllinux_tags", "DepLogic.C09.macos_arm64_tags", "DepLogic.C09.macos10_x86_64_tags",
            "DepLogic.C09.macos11_x86_64_tags", "DepLogic.C09.windows_tags", "DepLogic.C09.rangeDown_mem",
            "DepLogic.C09.downFrom_sorted", "DepLogic.C08.bestPlat_spec", "DepLogic.C08.compatibility_score",
            "DepLogic.C08.compatibility_perm"],
    "C16": ["DepLogic.C16.widen_keeps", "DepLogic.C16.widen_keeps_cuts", "DepLogic.C16.widen_or_keeps", "DepLogic.C16.and_isEmpty_comm", "DepLogic.C16.compare_refl",
            "DepLogic.C16.compare_incompatible_symm", "DepLogic.C16.compare_not_higher_both",
            "DepLogic.C16.manylinux_nested", "DepLogic.C16.beq_refl", "DepLogic.C16.beq_symm",
            "DepLogic.C16.platCompare_nested", "DepLogic.C16.platCompare_nested_higher", "DepLogic.C16.compare_nested",
            "DepLogic.C16.nested_needs_sameLine", "DepLogic.C16.compatibility_widen", "DepLogic.C16.evalPy_widen",
            "DepLogic.C16.wheelSpec_canon"],
    "C18": ["DepLogic.C18.wheel_roundtrip", "DepLogic.C18.bad_extension", "DepLogic.C18.bad_part_count",
            "DepLogic.C18.aliases", "DepLogic.C18.splitC_joinDash", "DepLogic.C18.platform_roundtrip",
            "DepLogic.C18.manylinux_roundtrip", "DepLogic.C18.macos_roundtrip", "DepLogic.Lex.natOfDigits_toString"],
}
THEOREMS: list[str] = []

IMPLS = ["-", "cpython", "cpython+nogil", "pypy", "pyston"]


def mk_impl(s):
    if s == "-":
        return None
    if s == "cpython+nogil":
        return Implementation.parse("cpython", True)
    return Implementation.parse(s)


def enc_out(f):
    try:
        r = f()
    except PlatformError:
        return "raise:PlatformError"
    except Exception as e:  # noqa: BLE001
        return "raise:" + type(e).__name__
    if r is None:
        return "none"
    return ",".join(str(x) for x in r)


# ----------------------------------------------------------------------------- C08

RP_QUICK = ["", ">=3.8", "<3.7", ">=2.7,<3", "==3.9.*", ">=3.6,!=3.8.*", "<3.0||>=3.10", ">=3.8.3,<3.8.7", "==3.10.4",
            ">3.12", "<=3.5.0", "~=3.7", ">=3.7.3,<3.9.3", "!=3.9.*", ">=2.7,!=3.0.*,!=3.1.*,!=3.2.*", "<2.0",
            # a single interpreter X.Y.0 / everything but it: the wheel's own lower bound must be inclusive (seed C08c)
            "<=3.9", "==3.9", "==3.9.0", ">=3.8,<=3.9", ">3.9", ">3.9.0,<3.10", "<=3.10.0,>3.9.7", "==2.7", "<3.9.1,>=3.9",
            # a pre-release lower bound of the NEXT series: `[3.10.0a1, 3.10.0)` holds no final release, yet it is a non-empty
            # interval inside the cp39 wheel's range (known finding G1c)
            ">=3.10.0a1", ">=3.10.0rc1,<3.11",
            # `~=` over an operand with a dotted suffix: the series is chosen on the release alone (seed C08f: textual rsplit)
            "~=3.8.post1", "~=3.8.0.dev1", "~=3.9.0rc1", "~=3.8.1.post2",
            # the same pins as the LAST range of a union (seed C08e: quick reject against a union's outer bounds ignoring include_max)
            ">=2.7,!=3.0.*,!=3.1.*,<=3.8", "<3.0||==3.9", "!=3.7.*,<=3.12.0", "<=3.6||>=3.8,<=3.10", "!=3.9.*,>=3.8"]


def boundary_tags(rp_text, pys):
    """python tags whose minor is at, just below and just above every X.Y named by the requires-python text"""
    import re
    out = []
    for X, Y in re.findall(r"(\d+)\.(\d+)", rp_text):
        for d in (-1, 0, 1):
            for impl in ("py", "cp", "pp"):
                t = f"{impl}{X}{int(Y) + d}"
                if t in pys and t not in out:
                    out.append(t)
    return out


def rp_pool(rng, n):
    out = list(RP_QUICK)
    while len(out) < n:
        def bound():
            return f"{rng.choice([2, 3])}.{rng.randint(0, 21)}" + (f".{rng.choice([0, 3, 7])}" if rng.random() < 0.4 else "")
        k = rng.random()
        if k < 0.3:
            t = rng.choice([">=", "<", ">", "<="]) + bound()
        elif k < 0.6:
            a, b = sorted([bound(), bound()], key=Version)
            if Version(a) == Version(b):
                continue
            t = f">={a},<{b}"
        elif k < 0.8:
            t = ">=" + bound() + "," + ",".join(f"!=3.{rng.randint(0, 20)}.*" for _ in range(rng.randint(1, 3)))
        else:
            a, b = sorted([bound(), bound()], key=Version)
            t = f"<{a}||>={b}"
        out.append(t)
    return out


def py_tags():
    out = []
    for impl in ["cp", "pp", "pt", "py"]:
        for X in "23":
            if impl == "py":
                out.append(impl + X)
            for Y in range(0, 21):
                out.append(f"{impl}{X}{Y}")
    return out


def abi_tags_for(py):
    # (own ABI with every flag combination incl. the free-threaded debug build `td`; and ABIs of OTHER interpreters that merely
    # begin with the python tag: cp31 vs cp310, cp3 vs cp312 -- fixed defect D28, where the code and this oracle both said startswith)
    out = ["none", "abi3", py, py + "m", py + "t", py + "d", py + "dm", py + "td", py + "0", py + "2t", py + "12"]
    if py.startswith("pp"):
        out += [f"pypy{py[2:]}_pp73", f"pypy{py[2:]}_pp75"]
    if py.startswith("pt"):
        out += [f"pyston{py[2:]}_23"]
    other = "cp39" if py != "cp39" else "cp310"
    out += [other, "cp3", "CP39T" if py == "cp39" else py.upper()]
    return out


CANDIDATES = [Version(f"{X}.{Y}.{Z}") for X in (2, 3, 4) for Y in range(0, 23) for Z in range(0, 10)]


def loads(impl_s: str, py: str, abi: str, v: Version) -> bool:
    """the PEP 425/3149/703 rule of the statement, written independently of the code"""
    impl, X, Y = py[:2], int(py[2]), (int(py[3:]) if len(py) > 3 else None)
    spec_impl = None if impl_s == "-" else {"cpython": "cp", "cpython+nogil": "cp", "pypy": "pp", "pyston": "pt"}[impl_s]
    nogil = impl_s == "cpython+nogil"
    if spec_impl is not None and impl not in (spec_impl, "py"):
        return False
    abi_n = abi.split("_", 1)[0].replace("pypy", "pp").replace("pyston", "pt").lower()
    if abi_n == "abi3":
        if impl != "cp" or nogil:
            return False
        return v >= Version(f"{X}.{Y or 0}")
    if abi_n != "none":
        import re
        m = re.fullmatch(re.escape(py.lower()) + r"([a-z]*)", abi_n)     # the python tag followed by ABI flag letters only
        if m is None:
            return False
        if spec_impl is not None and ("t" in m.group(1)) != nogil:
            return False
    if Y is None:
        return v.major == X
    if impl == "py":
        return v.major == X and v >= Version(f"{X}.{Y}")
    return (v.major, v.minor) == (X, Y)


def run_c08(run: core.Run, n_rp: int) -> None:
    rng = run.rng
    rps = rp_pool(rng, n_rp)
    pys = py_tags()
    n_oracle = 0
    for rp_text in rps:
        rp = parse_version_specifier(rp_text)
        admitted = [v for v in CANDIDATES if smem(rp, v)]
        for impl_s in IMPLS:
            env = EnvSpec(rp, None, mk_impl(impl_s))
            sample = pys if (run.tier == "thorough" or rp_text in RP_QUICK[:6]) else rng.sample(pys, 40)
            sample = sample + [t for t in boundary_tags(rp_text, pys) if t not in sample]
            for py in sample:
                for abi in abi_tags_for(py):
                    out = enc_out(lambda: env._evaluate_python(py, abi))
                    run.add(core.Case("evalpy", f"e.evalpy\t{enc_spec(rp)}\t{impl_s}\t{py}\t{abi}", out,
                                      out != "none"))
                    n_oracle += 1
                    want = any(loads(impl_s, py, abi, v) for v in admitted)
                    got = out != "none" and not out.startswith("raise")
                    rep = {"op": "evalpy", "rp": rp_text, "impl": impl_s, "py": py, "abi": abi}
                    if out.startswith("raise") or got != want:
                        f = core.Failure(f"evalpy|{rp_text}|{impl_s}|{py}|{abi}",
                                         f"requires_python {rp_text!r} impl {impl_s}: ({py},{abi}) reported {out}, "
                                         f"rule says compatible={want}", rep)
                        if got and not want and re.search(r"\d(a|b|rc|\.dev)\d", rp_text):
                            f.family = "prerelease-bound-gap"    # known finding G1c (same root as G1: the order is not dense)
                        run.fail(f)
                    elif got:
                        abi_n = abi.split("_", 1)[0].lower()
                        kind = 0 if abi_n == "none" else (1 if abi_n == "abi3" else 2)
                        exp = f"{py[2]},{int(py[3:]) if len(py) > 3 else 0},{kind}"
                        if out != exp:
                            run.fail(core.Failure(f"score|{rp_text}|{impl_s}|{py}|{abi}", f"score {out}, expected {exp}", rep))
    # EnvSpec.compatibility on multi-tag wheels (compressed tag sets): the verdict is the lexicographically best
    # loadable python x abi combination (C08.compatibility_score), whatever the order of the tags (C08.compatibility_perm)
    n_multi = 0
    for _ in range(run.size(400 if run.tier == "quick" else 6000)):
        rp_text = rng.choice(rps)
        impl_s = rng.choice(IMPLS)
        env = EnvSpec(parse_version_specifier(rp_text), None, mk_impl(impl_s))
        wp = rng.sample(pys, rng.randint(1, 3))
        wa = list({a for p_ in wp for a in rng.sample(abi_tags_for(p_), min(2, len(abi_tags_for(p_))))})[:3]
        got = env.compatibility(wp, wa, ["any"])
        out = enc_out(lambda: got)
        run.add(core.Case("compat-multi", f"e.compat\t{enc_spec(env.requires_python)}\t-\t{impl_s}\t{'.'.join(wp)}\t{'.'.join(wa)}\tany", out))
        n_multi += 1
        scores = [s_ for s_ in (env._evaluate_python(p_, a_) for p_ in wp for a_ in wa) if s_ is not None]
        want = (max(scores) + (-1,)) if scores else None
        rev = env.compatibility(wp[::-1], wa[::-1], ["any", "any"])
        if got != want or rev != got:
            run.fail(core.Failure(f"multi|{rp_text}|{impl_s}|{wp}|{wa}", f"requires_python {rp_text!r} impl {impl_s}: compatibility({wp}, {wa}) = "
                                  f"{got}, best combination {want}, tags reversed {rev}",
                                  {"op": "multi", "rp": rp_text, "impl": impl_s, "py": wp, "abi": wa}))
    run.extra["multi_tag_wheels"] = n_multi
    # the free-threading flag as the library itself obtains it: sysconfig's Py_GIL_DISABLED is the int 1 on a
    # free-threaded build (fixed finding D33: the flag was compared by identity, so EnvSpec.current() on python3.13t
    # rejected its own cp313-cp313t); every way of stating the flag must answer like `True` / `False`
    n_flag = 0
    for rp_text in ("==3.13.*", ">=3.8", "<3.13", "==3.14.0"):
        for py in ("cp313", "cp314", "cp38", "py3", "py313"):
            for abi in abi_tags_for(py):
                for flag in (1, 0):
                    n_flag += 1
                    if gilflag_differs(rp_text, flag, py, abi):
                        run.fail(core.Failure(f"gilflag|{rp_text}|{flag}|{py}|{abi}",
                                              f"requires_python {rp_text!r}: ({py},{abi}) is judged differently when the "
                                              f"free-threading flag is given as {flag!r} / read from sysconfig than as {bool(flag)!r}",
                                              {"op": "gilflag", "rp": rp_text, "flag": flag, "py": py, "abi": abi}))
    run.extra["gil_flag_spellings_checked"] = n_flag
    run.extra["oracle_evaluations"] = n_oracle


def gilflag_differs(rp_text: str, flag: int, py: str, abi: str) -> bool:
    import sysconfig
    from unittest import mock
    rp = parse_version_specifier(rp_text)
    want = EnvSpec(rp, None, Implementation.parse("cpython", bool(flag)))._evaluate_python(py, abi)
    orig = sysconfig.get_config_var
    with mock.patch.object(sysconfig, "get_config_var", lambda k: flag if k == "Py_GIL_DISABLED" else orig(k)), \
            mock.patch("dep_logic.tags.tags.python_implementation", lambda: "CPython"):
        cur = Implementation.current()
    outs = [EnvSpec(rp, None, Implementation.parse("cpython", flag))._evaluate_python(py, abi),
            EnvSpec(rp, None, cur)._evaluate_python(py, abi),
            EnvSpec.from_spec(rp_text, None, "cpython", gil_disabled=flag)._evaluate_python(py, abi)]
    return any(o != want for o in outs)


# ----------------------------------------------------------------------------- C09

LINUX_ARCHS = ["x86_64", "aarch64", "armv7l", "ppc64le", "ppc64", "s390x", "riscv64"]
FLOOR = {"x86_64": 5, "aarch64": 17, "armv7l": 17, "ppc64le": 17, "ppc64": 17, "s390x": 17, "riscv64": 17}
LEGACY = {5: "manylinux1", 12: "manylinux2010", 17: "manylinux2014"}
MAC_CLAIMED = {"x86_64": ["x86_64", "intel", "universal2", "universal"], "arm64": ["arm64", "universal2"]}


def platforms(tier):
    out = []
    for arch in LINUX_ARCHS:
        for m in range(5, 51):
            out.append(f"manylinux_2_{m}_{arch}")
        for m in range(1, 6):
            out.append(f"musllinux_1_{m}_{arch}")
    for arch in ("x86_64", "arm64"):
        for m in range(4, 17):
            out.append(f"macos_10_{m}_{arch}")
        for M in range(11, 31):
            out.append(f"macos_{M}_0_{arch}")
            if M % 5 == 0:
                out.append(f"macos_{M}_3_{arch}")
    out += ["windows_x86", "windows_amd64", "windows_arm64", "linux", "windows", "macos", "alpine", "macos_arm64", "macos_x86_64"]
    return out


def expected_tags(name: str):
    """independent PEP 600 / PEP 656 / macOS rule oracle -> (ordered list or None, claimed set)"""
    p = name.split("_")
    if name.startswith("manylinux"):
        m, arch = int(p[2]), "_".join(p[3:])
        lst = []
        for K in range(m, FLOOR[arch] - 1, -1):
            lst.append(f"manylinux_2_{K}_{arch}")
            if K in LEGACY:
                lst.append(f"{LEGACY[K]}_{arch}")
        lst.append(f"linux_{arch}")
        return lst, set(lst)
    if name.startswith("musllinux"):
        m, arch = int(p[2]), "_".join(p[3:])
        s = {f"linux_{arch}"} | {f"musllinux_1_{K}_{arch}" for K in range(1, m + 1)}
        return None, s
    if name.startswith("macos"):
        M, m, arch = int(p[1]), int(p[2]), "_".join(p[3:])
        fm = MAC_CLAIMED[arch]
        lst = []
        if M == 10:
            for j in range(m, 3, -1):
                lst += [f"macosx_10_{j}_{f}" for f in fm]
        else:
            for J in range(M, 10, -1):
                lst += [f"macosx_{J}_0_{f}" for f in fm]
            for j in range(16, 3, -1):
                lst += [f"macosx_10_{j}_{f}" for f in (fm if arch == "x86_64" else ["universal2"])]
        return lst, set(lst)
    return None, None


def packaging_tags(name: str):
    """packaging.tags with its probes stubbed; None where there is no usable reference"""
    p = name.split("_")
    if name.startswith("macos"):
        M, m, arch = int(p[1]), int(p[2]), "_".join(p[3:])
        return [t for t in pkg_tags.mac_platforms((M, m), arch) if "_fat" not in t]
    if name.startswith("manylinux"):
        from packaging import _manylinux
        m, arch = int(p[2]), "_".join(p[3:])
        saved = (_manylinux._get_glibc_version, _manylinux._is_compatible, _manylinux._have_compatible_abi)
        try:
            _manylinux._get_glibc_version = lambda: (2, m)
            _manylinux._is_compatible = lambda *a, **k: True
            _manylinux._have_compatible_abi = lambda *a, **k: True
            # packaging's OWN order of the whole list (`_linux_platforms`), not one assembled here: it decides where
            # `linux_<arch>` goes (first, since packaging 24; known finding G8)
            import sysconfig
            from unittest import mock
            from packaging import _musllinux
            with mock.patch.object(sysconfig, "get_platform", lambda: f"linux-{arch}"), \
                    mock.patch.object(_musllinux, "platform_tags", lambda archs: iter(())):
                return list(pkg_tags._linux_platforms(is_32bit=False))
        finally:
            _manylinux._get_glibc_version, _manylinux._is_compatible, _manylinux._have_compatible_abi = saved
    return None


def is_d17(name: str) -> bool:
    return name.startswith("macos_10_") and name.endswith("_arm64")


def run_c09(run: core.Run) -> None:
    n_oracle = 0
    run.exhaustive = True
    for name in platforms(run.tier):
        def tags():
            return ",".join(Platform.parse(name).compatible_tags)
        try:
            out = tags()
        except PlatformError:
            out = "raise:PlatformError"
        except Exception as e:  # noqa: BLE001
            out = "raise:" + type(e).__name__
        run.add(core.Case("tags", f"p.tags\t{name}", out))
        if name in ("linux", "windows", "macos", "alpine", "macos_arm64", "macos_x86_64") or name.startswith("windows"):
            exp = {"windows_x86": "win32", "windows_amd64": "win_amd64", "windows_arm64": "win_arm64", "windows": "win_amd64"}.get(name)
            if exp is not None and out != exp:
                run.fail(core.Failure("tags|" + name, f"{name}: tags {out}, expected {exp}", {"op": "tags", "platform": name}))
            continue
        got = out.split(",") if not out.startswith("raise") else []
        claimed_got = [t for t in got if "_fat" not in t]
        lst, s = expected_tags(name)
        n_oracle += 1
        rep = {"op": "tags", "platform": name}
        f = None
        if out.startswith("raise"):
            f = core.Failure("tags|" + name, f"{name}: compatible_tags raised ({out})", rep)
        elif set(claimed_got) != s:
            extra = sorted(set(claimed_got) - s)[:4]
            miss = sorted(s - set(claimed_got))[:4]
            f = core.Failure("tags|" + name, f"{name}: tag set differs from the PEP rule (extra {extra}, missing {miss})", rep)
        elif lst is not None and claimed_got != lst:
            f = core.Failure("order|" + name, f"{name}: tag order differs from newest-first", rep)
        else:
            ref = packaging_tags(name)
            n_oracle += 1
            native = [t for t in claimed_got if t.startswith("linux_")]
            if ref is not None and [t for t in claimed_got if t not in native] != [t for t in ref if t not in native]:
                f = core.Failure("pkg|" + name, f"{name}: differs from packaging.tags ({ref[:3]}... vs {claimed_got[:3]}...)", rep)
            elif ref is not None and claimed_got != ref:
                # same tags, same order among the manylinux tags, `linux_<arch>` elsewhere: known finding G8
                f = core.Failure("pkg-native|" + name, f"{name}: `{native[0]}` is at position {claimed_got.index(native[0])} of "
                                 f"{len(claimed_got)}, packaging.tags has it at {ref.index(native[0])}", rep)
                f.family = "linux-arch-last"
        if f is not None:
            if is_d17(name):
                f.family = "macos-10-arm64"
            run.fail(f)
    # platform score = position from the end, `any` last
    # (every platform of the grid: seed C09f rejected `win32` on windows_x86 only, through a prefix table in the scorer)
    for name in platforms(run.tier):
        try:
            env = EnvSpec(parse_version_specifier(""), Platform.parse(name))
        except Exception:  # noqa: BLE001  (names the tag stream already judges)
            continue
        tags = [*Platform.parse(name).compatible_tags, "any"]
        for i, t in enumerate(tags):
            sc = env._evaluate_platform(t)
            n_oracle += 1
            if sc != len(tags) - i:
                run.fail(core.Failure(f"score|{name}|{t}", f"platform score of {t} is {sc}", {"op": "pscore", "platform": name, "tag": t}))
        if env._evaluate_platform("nonsense_tag") is not None:
            run.fail(core.Failure(f"score|{name}|nonsense", "unknown tag accepted", {"op": "pscore", "platform": name, "tag": "nonsense_tag"}))
        wheel = "cp39.py3\tcp39.none\t" + ".".join(tags[::3] + ["zzz"])
        out = enc_out(lambda: env.compatibility(["cp39", "py3"], ["cp39", "none"], tags[::3] + ["zzz"]))
        run.add(core.Case("compat", f"e.compat\t{enc_spec(env.requires_python)}\t{name}\t-\t{wheel}", out))
        # the same wheel with its tags listed oldest-first (C08.compatibility_perm: the verdict is the BEST tag's,
        # whatever the order; seed C09g returned the first accepted tag's score)
        rev = (tags[::3] + ["zzz"])[::-1]
        out_rev = enc_out(lambda: env.compatibility(["py3", "cp39"], ["none", "cp39"], rev))
        run.add(core.Case("compat", f"e.compat\t{enc_spec(env.requires_python)}\t{name}\t-\tpy3.cp39\tnone.cp39\t" + ".".join(rev), out_rev))
        if out_rev != out:
            run.fail(core.Failure(f"score2|{name}|order", f"compatibility() of the same wheel with its tags listed in reverse is {out_rev}, was {out}",
                                  {"op": "pscore2", "platform": name, "tag": "wheel"}))
        # scoring is a function of the tag alone: the same answers again AFTER rejected tags, in any order, on the same
        # EnvSpec / Platform objects; the platform's tag list is untouched (seed C09e: a rejected tag left a stray "any"
        # on the cached list)
        before = list(env.platform.compatible_tags)
        for junk in ("nonsense_tag", "linux_ppc64", "win_ia64"):
            env._evaluate_platform(junk)
        for i, t in list(enumerate(tags))[::-1]:
            sc = env._evaluate_platform(t)
            n_oracle += 1
            if sc != len(tags) - i:
                run.fail(core.Failure(f"score2|{name}|{t}", f"platform score of {t} is {sc} after rejected tags were scored "
                                      f"(expected {len(tags) - i})", {"op": "pscore2", "platform": name, "tag": t}))
                break
        if list(env.platform.compatible_tags) != before or list(Platform.parse(name).compatible_tags) != before:
            run.fail(core.Failure(f"score2|{name}|tags", "compatible_tags changed after scoring wheels",
                                  {"op": "pscore2", "platform": name, "tag": "any"}))
        out2 = enc_out(lambda: env.compatibility(["cp39", "py3"], ["cp39", "none"], ["zzz", "linux_ppc64"] + tags[::3]))
        if out2 != out:
            run.fail(core.Failure(f"score2|{name}|compat", f"compatibility() of the same wheel with rejected tags listed first is {out2}, was {out}",
                                  {"op": "pscore2", "platform": name, "tag": "wheel"}))
    run.extra["oracle_evaluations"] = n_oracle


# ----------------------------------------------------------------------------- C16

def spec_grid(rng, n):
    rps = ["", ">=3.8", ">=3.9", ">=3.8,<3.11", "<3.8", "==3.10.*", ">=3.7,!=3.9.*", "<3.0||>=3.9", ">=2.7"]
    plats = ["-", "linux", "manylinux_2_28_x86_64", "manylinux_2_17_aarch64", "manylinux_2_35_aarch64", "musllinux_1_1_x86_64",
             "musllinux_1_2_x86_64", "macos_10_12_x86_64", "macos_12_0_x86_64", "macos_11_0_arm64", "macos_14_0_arm64",
             "windows_amd64", "windows_arm64", "manylinux_2_5_x86_64"]
    impls = ["-", "cpython", "pypy", "cpython+nogil"]
    allc = list(itertools.product(rps, plats, impls))
    rng.shuffle(allc)
    return allc[:n]


def mk_env(c):
    rp, pl, im = c
    return EnvSpec(parse_version_specifier(rp), None if pl == "-" else Platform.parse(pl), mk_impl(im))


def wheels_universe(rng, n):
    pys = ["py3", "py2.py3", "cp39", "cp310", "cp38", "cp312", "pp39", "py36", "cp37"]
    abis = ["none", "abi3", "cp39", "cp310", "cp38", "cp312t", "pypy39_pp73", "cp37m"]
    plats = ["any", "linux_x86_64", "manylinux1_x86_64", "manylinux2014_x86_64", "manylinux_2_17_aarch64", "manylinux_2_28_x86_64",
             "manylinux_2_34_aarch64", "musllinux_1_1_x86_64", "musllinux_1_2_x86_64", "macosx_10_9_x86_64", "macosx_11_0_arm64",
             "macosx_10_9_universal2", "macosx_12_0_x86_64", "macosx_13_0_arm64", "win_amd64", "win32", "win_arm64"]
    out = [(p, a, pl) for p in pys for a in abis for pl in plats]
    rng.shuffle(out)
    return out[:n]


def run_c16(run: core.Run, n_specs: int, n_wheels: int) -> None:
    rng = run.rng
    grid = spec_grid(rng, n_specs)
    envs = [(c, mk_env(c)) for c in grid]
    wheels = wheels_universe(rng, n_wheels)
    n_oracle = 0
    compat = {}
    for c, e in envs:
        for w in wheels:
            try:
                compat[(c, w)] = e.compatibility(w[0].split("."), w[1].split("."), w[2].split("."))
            except Exception as ex:  # noqa: BLE001
                compat[(c, w)] = "raise:" + type(ex).__name__
    probes = [Version(f"{X}.{Y}.{Z}") for X in (2, 3) for Y in range(0, 14) for Z in (0, 5)]
    for (ca, a), (cb, b) in itertools.product(envs, envs):
        out = a.compare(b).name
        run.add(core.Case("compare", "e.compare\t" + "\t".join([enc_spec(a.requires_python), ca[1], ca[2],
                                                                 enc_spec(b.requires_python), cb[1], cb[2]]), out))
        back = b.compare(a).name
        n_oracle += 1
        rep = {"op": "compare", "a": list(ca), "b": list(cb)}
        if ca == cb and out != "LOWER_OR_EQUAL":
            run.fail(core.Failure(f"cmp-refl|{ca}", f"compare of a spec with itself is {out}", rep))
        if (out == "INCOMPATIBLE") != (back == "INCOMPATIBLE"):
            run.fail(core.Failure(f"cmp-sym|{ca}|{cb}", f"INCOMPATIBLE one way only: {out} / {back}", rep))
        if out == "HIGHER" and back == "HIGHER":
            run.fail(core.Failure(f"cmp-hh|{ca}|{cb}", "HIGHER in both directions", rep))
        if a.platform is not None and b.platform is not None and out in ("LOWER_OR_EQUAL", "HIGHER"):
            ta, tb = set(a.platform.compatible_tags), set(b.platform.compatible_tags)
            ok = ta <= tb if out == "LOWER_OR_EQUAL" else tb <= ta
            if not ok:
                run.fail(core.Failure(f"cmp-nest|{ca}|{cb}", f"compare says {out} but platform tag sets are not nested", rep))
        # widening requires_python (other fields equal) never loses wheels
        if ca[1:] == cb[1:] and all((not smem(a.requires_python, v)) or smem(b.requires_python, v) for v in probes) \
                and subset_structural(a.requires_python, b.requires_python):
            for w in wheels:
                n_oracle += 1
                if compat[(ca, w)] is not None and compat[(cb, w)] is None:
                    run.fail(core.Failure(f"widen|{ca}|{cb}|{w}", f"wheel {w} compatible with {ca} but not with wider {cb}",
                                          {"op": "widen", "a": list(ca), "b": list(cb), "wheel": list(w)}))
    # deterministic widening stream: a fixed family of requires-python specs containing every kind of bound on the same
    # minor (inclusive / exclusive upper and lower, pins, wildcard exclusions that turn a range into a union), all ordered
    # pairs A within B, two environment shapes, and a wheel universe with a cpXY / cpXY-abi3 / pyXY wheel for every minor
    # they name (seed C16d: an abi3 shortcut that ignores include_max only for plain ranges)
    wrps = ["", ">=3.6", ">=3.8", ">3.8", ">=3.8.0", "<=3.8", "<3.8", "==3.8", "==3.8.*", "<=3.8,!=3.6.*", ">=3.6,<=3.8", ">=3.6,<3.9",
            "<3.9", "<=3.9", ">=3.7,!=3.8.*", ">=3.8,<3.8.1", "<3.0||>=3.8", "<=3.8||>=3.10", "==3.8.0", ">=3.6,<=3.8,!=3.7.*"]
    wwheels = [(py, abi, "any") for m in (6, 7, 8, 9, 10) for py, abi in
               ((f"cp3{m}", "abi3"), (f"cp3{m}", f"cp3{m}"), (f"cp3{m}", "none"), (f"py3{m}", "none"), (f"pp3{m}", f"pypy3{m}_pp73"))] + \
              [("py3", "none", "any"), ("py2.py3", "none", "any"), ("cp38", "abi3", "manylinux_2_17_x86_64")]
    for pl, im in (("-", "-"), ("manylinux_2_28_x86_64", "cpython"), ("-", "pypy")):
        wenvs = [((rp, pl, im), mk_env((rp, pl, im))) for rp in wrps]
        wc = {}
        for c, e in wenvs:
            for w in wwheels:
                try:
                    wc[(c, w)] = e.compatibility(w[0].split("."), w[1].split("."), w[2].split("."))
                except Exception as ex:  # noqa: BLE001
                    wc[(c, w)] = "raise:" + type(ex).__name__
        for (ca, a), (cb, b) in itertools.product(wenvs, wenvs):
            if ca == cb or not all((not smem(a.requires_python, v)) or smem(b.requires_python, v) for v in probes) \
                    or not subset_structural(a.requires_python, b.requires_python):
                continue
            for w in wwheels:
                n_oracle += 1
                if wc[(ca, w)] is not None and wc[(cb, w)] is None:
                    run.fail(core.Failure(f"widen|{ca}|{cb}|{w}", f"wheel {w} compatible with {ca} but not with wider {cb}",
                                          {"op": "widen", "a": list(ca), "b": list(cb), "wheel": list(w)}))
    # newer release of the same OS/arch accepts every tag of the older one
    fam = {}
    for name in platforms("quick"):
        p = name.split("_")
        if p[0] in ("manylinux", "musllinux", "macos") and len(p) >= 4:
            fam.setdefault((p[0], "_".join(p[3:])), []).append((int(p[1]), int(p[2]), name))
    for key, lst in fam.items():
        lst.sort()
        for (x, y) in zip(lst, lst[1:]):
            n_oracle += 1
            ta, tb = Platform.parse(x[2]).compatible_tags, Platform.parse(y[2]).compatible_tags
            # ... as the EnvSpec ACCEPTS them, not only as the platform lists them (seed C16f: a quick reject in the scorer)
            ea, eb = EnvSpec(parse_version_specifier(""), Platform.parse(x[2])), EnvSpec(parse_version_specifier(""), Platform.parse(y[2]))
            lost = [t for t in ta if ea._evaluate_platform(t) is not None and eb._evaluate_platform(t) is None]
            if not set(ta) <= set(tb) or lost:
                run.fail(core.Failure(f"newer|{x[2]}|{y[2]}", f"{y[2]} does not accept every tag of {x[2]} (e.g. {lost[:2]})",
                                      {"op": "newer", "a": x[2], "b": y[2]}))
    # compare() against tag nesting, deterministically: ALL ordered pairs of releases inside each family / architecture
    # (seed C16g ordered releases by major*10+minor: only macOS 10.1x against 11.y shows it) and all pairs of the
    # platforms whose releases cannot be ordered (fixed finding D34: LOWER_OR_EQUAL both ways with disjoint tag sets)
    n_pairs = 0
    any_rp = parse_version_specifier("")
    groups = list(fam.values()) + [[(0, 0, nm) for nm in COMPARE_OTHERS]]
    for lst in groups:
        if run.tier == "quick" and len(lst) > 24:
            lst = [x for i, x in enumerate(sorted(lst)) if i % 3 == 0 or x[1] in (0, 9, 10, 11, 16, 17)]
        objs = [(nm, EnvSpec(any_rp, Platform.parse(nm))) for _, _, nm in sorted(lst)]
        tagsets = {nm: set(e.platform.compatible_tags) for nm, e in objs}
        for (na, a), (nb, b) in itertools.product(objs, objs):
            out = a.compare(b).name
            n_pairs += 1
            run.add(core.Case("compare-family", f"e.compare\t{enc_spec(any_rp)}\t{na}\t-\t{enc_spec(any_rp)}\t{nb}\t-", out))
            nested = tagsets[na] <= tagsets[nb] if out == "LOWER_OR_EQUAL" else tagsets[nb] <= tagsets[na]
            if out != "INCOMPATIBLE" and not nested:
                run.fail(core.Failure(f"cmp-nest|{na}|{nb}", f"{na}.compare({nb}) says {out} but the platform tag sets are not nested",
                                      {"op": "compare", "a": ["", na, "-"], "b": ["", nb, "-"]}))
            if out == "HIGHER" and b.compare(a).name == "HIGHER":
                run.fail(core.Failure(f"cmp-hh|{na}|{nb}", "HIGHER in both directions", {"op": "compare", "a": ["", na, "-"], "b": ["", nb, "-"]}))
    run.extra["family_pairs_compared"] = n_pairs
    run.extra["oracle_evaluations"] = n_oracle + n_pairs


COMPARE_OTHERS = ["freebsd_13_x86_64", "freebsd_14_x86_64", "freebsd_13_aarch64", "netbsd_9_aarch64", "netbsd_10_aarch64", "openbsd_7_x86_64",
                  "openbsd_6_x86_64", "dragonfly_6_x86_64", "haiku_1_x86_64", "haiku_2_x86_64", "cygwin_x86_64", "android_x86_64",
                  "android_aarch64", "windows_amd64", "windows_arm64", "windows_x86", "manylinux_2_17_x86_64", "musllinux_1_2_x86_64",
                  "macos_12_0_x86_64"]


def subset_structural(a, b) -> bool:
    """a ⊆ b decided by the (verified) algebra on the real objects: a & ~b is empty"""
    try:
        return (a & ~b).is_empty()
    except Exception:  # noqa: BLE001
        return False


# ----------------------------------------------------------------------------- C18

def wheel_names(rng, n):
    comp = lambda: "".join(rng.choice("abcXYZ019_.") for _ in range(rng.randint(1, 8)))  # noqa: E731
    out = []
    for _ in range(n):
        # (`.whl` also INSIDE the name: seed C18e cut at the first `.whl` instead of the trailing one)
        name = rng.choice(["foo", "foo_bar", "Foo.Bar", "a", "x1_2", "tools.whl_helpers", "my.whl"])
        ver = rng.choice(["1.0", "2!1.0.post1", "1.0rc1", "0.0.1.dev3", "2024.1.1", "1_0"])
        parts = [name, ver]
        if rng.random() < 0.3:
            parts.append(rng.choice(["1", "2abc", "10_x", "2.whl"]))
        # (mixed-case tags too: packaging lower-cases them, fixed defect D31)
        # (letters whose lower case depends on context, in any field: fixed defect D38 -- `"A\u03a3.B".lower()` ends in a
        # non-final sigma, packaging lower-cases each member of a compressed set on its own)
        odd = rng.random() < 0.05
        py = ".".join(rng.sample(["py2", "py3", "cp39", "cp310", "pp39", "CP39", "Py3"] + (["A\u03a3", "\u0130x"] if odd else []), rng.randint(1, 3)))
        abi = ".".join(rng.sample(["none", "abi3", "cp39", "cp310m", "pypy39_pp73", "None", "ABI3"] + (["A\u03a3", "B\u03a3"] if odd else []), rng.randint(1, 2)))
        # (tags ending in one of the characters of ".whl" too: seed C18c, rstrip(".whl") for removesuffix)
        plat = ".".join(rng.sample(["any", "linux_x86_64", "manylinux_2_17_x86_64", "manylinux2014_x86_64", "win_amd64",
                                    "macosx_10_9_universal2", "linux_armv7l", "manylinux2014_armv7l", "musllinux_1_1_armv7l",
                                    "macosx_10_9_intel", "macosx_10_6_universal", "linux_ppc64le", "win32", "linux_sh", "ANY", "Win_AMD64",
                                    "manylinux_2_17_X86_64"],
                                   rng.randint(1, 3)))
        parts += [py, abi, plat]
        s = "-".join(parts) + ".whl"
        if rng.random() < 0.03:
            s += ".whl"
        r = rng.random()
        if r < 0.08:
            s = s[:-4] + rng.choice([".zip", ".whl.txt", "", ".WHL"])
        elif r < 0.16:
            s = rng.choice(["-".join(parts[1:]), "x-" + "-".join(parts) + ("-y" if len(parts) == 6 else "-y-z"), "-".join(parts[:3])]) + ".whl"
        elif r < 0.2:
            s = comp() + ".whl"
        out.append(s)
    return out


def run_c18(run: core.Run, n: int) -> None:
    rng = run.rng
    n_oracle = 0
    for fn in wheel_names(rng, n):
        try:
            a, b, c = parse_wheel_tags(fn)
            out = "ok\t" + ".".join(a) + "\t" + ".".join(b) + "\t" + ".".join(c)
        except InvalidWheelFilename as e:
            out = "raise:InvalidWheelFilename:" + ("ext" if "extension" in str(e) else "parts")
        except Exception as e:  # noqa: BLE001
            out = "raise:" + type(e).__name__
        if out.startswith("ok"):
            # the answer is a function of the file name alone: the caller may do what it likes with the lists it was
            # given (seed C18j: an lru_cache on parse_wheel_tags hands every later caller the same, mutable lists)
            again = parse_wheel_tags(fn)
            snapshot = tuple(list(x) for x in again)
            for lst in again:
                lst.clear()
                lst.append("mutated")
            a, b, c = parse_wheel_tags(fn)
            if (a, b, c) != snapshot:
                run.fail(core.Failure("wheel-state|" + fn, f"{fn}: parse_wheel_tags answers {(a, b, c)} after a caller changed the lists "
                                      f"of an earlier answer, {snapshot} before", {"op": "wheelstate", "filename": fn}))
        if fn.isascii():      # (the model lower-cases ASCII letters only; other letters are judged against packaging below)
            run.add(core.Case("wheel", f"w.parse\t{fn}", out))
        n_oracle += 1
        rep = {"op": "wheel", "filename": fn}
        try:
            _, _, _, tags = pkg_utils.parse_wheel_filename(fn)
        except Exception:  # noqa: BLE001
            tags = None
        if tags is not None:
            if not out.startswith("ok"):
                run.fail(core.Failure("wheel|" + fn, f"{fn}: packaging accepts, dep-logic gives {out}", rep))
            else:
                want = {(t.interpreter, t.abi, t.platform) for t in tags}
                got = set(itertools.product(a, b, c))
                if want != got:
                    run.fail(core.Failure("wheel|" + fn, f"{fn}: tag triples differ from packaging", rep))
        if not fn.endswith(".whl") and not out.startswith("raise:InvalidWheelFilename"):
            run.fail(core.Failure("wheel|" + fn, f"{fn}: wrong extension not rejected ({out})", rep))
        elif fn.endswith(".whl") and fn[:-4].count("-") not in (4, 5) and not out.startswith("raise:InvalidWheelFilename"):
            run.fail(core.Failure("wheel|" + fn, f"{fn}: wrong part count not rejected ({out})", rep))
    # platform names
    names = []
    rngXY = range(0, 100) if run.tier == "thorough" else [0, 1, 2, 5, 9, 10, 11, 17, 28, 50, 99]
    for ch in Platform.choices():
        if "X_Y" in ch:
            for X in rngXY:
                for Y in rngXY:
                    names.append(ch.replace("X_Y", f"{X}_{Y}"))
        else:
            names.append(ch)
    alias = {"linux": "manylinux_2_17_x86_64", "windows": "windows_amd64", "macos": "macos_14_0_arm64",
             "alpine": "musllinux_1_2_x86_64", "macos_arm64": "macos_14_0_arm64", "macos_x86_64": "macos_14_0_x86_64"}
    for nm in names:
        try:
            p = Platform.parse(nm)
            out = "ok\t" + str(p)
        except Exception as e:  # noqa: BLE001
            out = "raise:" + type(e).__name__
            p = None
        run.add(core.Case("platform", f"p.parse\t{nm}", out))
        n_oracle += 1
        rep = {"op": "platform", "name": nm}
        if p is None:
            run.fail(core.Failure("plat|" + nm, f"Platform.parse({nm!r}) raised", rep))
            continue
        if nm in alias and str(p) != alias[nm]:
            run.fail(core.Failure("plat|" + nm, f"alias {nm} resolves to {p}", rep))
        try:
            if Platform.parse(str(p)) != p:
                run.fail(core.Failure("plat-rt|" + nm, f"Platform.parse(str(p)) != p for {nm}", rep))
        except Exception as e:  # noqa: BLE001
            run.fail(core.Failure("plat-rt|" + nm, f"str(p) = {p} does not re-parse ({type(e).__name__})", rep))
        # the round trip for the OBJECT the name denotes, built without the parser (seed C18k: an explicit 0 component read
        # as "no version given" -- parse(str(parse(s))) == parse(s) still held, the parsed fields were wrong)
        mm = re.fullmatch(r"(manylinux|musllinux|macos)_(\d+)_(\d+)_(.+)", nm)
        if mm:
            os_cls = {"manylinux": dl_os.Manylinux, "musllinux": dl_os.Musllinux, "macos": dl_os.Macos}[mm[1]]
            direct = Platform(os_cls(int(mm[2]), int(mm[3])), Arch.parse(mm[4]))
            n_oracle += 1
            try:
                back = Platform.parse(str(direct))
            except Exception as e:  # noqa: BLE001
                back = f"raise:{type(e).__name__}"
            if back != direct:
                run.fail(core.Failure("plat-direct|" + nm, f"Platform.parse(str(p)) = {back!r} != p for p = {direct!r}", rep))
            if p != direct:
                run.fail(core.Failure("plat-fields|" + nm, f"Platform.parse({nm!r}) = {p!r}, the name denotes {direct!r}", rep))
    for bad in ["manylinux_2_17_mips", "windows_sparc", "musllinux_1_2_sparc64", "macos_11_0_ppc"]:
        try:
            p = Platform.parse(bad)
            out = "ok\t" + str(p)
        except Exception as e:  # noqa: BLE001
            out = "raise:" + type(e).__name__
        if bad.split("_")[0] in ("manylinux", "macos", "musllinux", "windows") and "ok" not in out:
            run.add(core.Case("platform-malformed", f"p.parse\t{bad}", out))
    # BSD / Haiku / generic names are outside the property's claim (their str() is lossy: `openbsd_7_x86_64` prints as
    # `openbsd_x86_64`, Lean: C18.openbsd_no_roundtrip) but inside the model since fix cf8cce3 made compare() depend on
    # them: correspondence of parse, str and compatible_tags only
    for nm in OTHER_PLATFORMS:
        try:
            p = Platform.parse(nm)
            out = "ok\t" + str(p)
        except Exception as e:  # noqa: BLE001
            out, p = "raise:" + type(e).__name__, None
        run.add(core.Case("platform-other", f"p.parse\t{nm}", out))
        if p is not None:
            run.add(core.Case("platform-other-tags", f"p.tags\t{nm}", enc_out(lambda: p.compatible_tags)))
    run.extra["oracle_evaluations"] = n_oracle


OTHER_PLATFORMS = ["freebsd_13_x86_64", "freebsd_14_x86_64", "freebsd_13.2-RELEASE_amd64", "freebsd_13_2_x86_64", "netbsd_9_aarch64",
                   "netbsd_10_aarch64", "openbsd_7_x86_64", "openbsd_7.4_amd64", "dragonfly_6_x86_64", "haiku_1_x86_64",
                   "haiku_2_x86_64", "illumos_5_11_x86_64", "cygwin_x86_64", "android_x86_64", "android_arm64", "Linux_x86_64",
                   "linux_x86_64", "linux_i686", "foo", "win32", "cygwin_mips", "freebsd_13_mips", "freebsd_x86_64", "freebsd_",
                   "_x86_64", "manylinux_2_x86_64", "macos_11_x86_64", "solaris_2_11_x86_64", "aix_7_ppc64"]


def run_prop(prop: str, run: core.Run) -> None:
    quick = run.tier == "quick"
    if prop == "C08":
        run.rule = ("requires_python shapes (ranges, unions, exclusions, bounds inside a minor series) x {unspecified, cpython, "
                    "cpython free-threaded, pypy, pyston} x python tags cp/pp/pt/py for majors 2-3 minors 0-20 x abi tags "
                    "(none, abi3, native with m/t/d flags, pypy/pyston style, mismatching); non-trivial = reported compatible")
        run_c08(run, 30 if quick else 120)
    elif prop == "C09":
        run.rule = ("the whole OS x architecture grid of the statement (manylinux 2.5-2.50 x 7 archs, musllinux 1.1-1.5, "
                    "macOS 10.4-10.16 and 11-30 x {x86_64, arm64}, windows x 3, aliases), enumerated completely")
        run_c09(run)
    elif prop == "C16":
        run.rule = "ordered pairs of EnvSpec over requires_python x platform x implementation grid x wheel tag universe"
        run_c16(run, 60 if quick else 250, 150 if quick else 400)
    else:
        run.rule = ("PEP 427 style wheel names (with/without build tag, compressed tag sets, odd characters, wrong extension / "
                    "part counts) vs packaging.utils.parse_wheel_filename; every Platform.choices() entry with X,Y instantiated")
        run_c18(run, 3000 if quick else 60000)


def replay(data: dict) -> bool:
    r = data["replay"]
    if r["op"] == "evalpy":
        rp = parse_version_specifier(r["rp"])
        env = EnvSpec(rp, None, mk_impl(r["impl"]))
        admitted = [v for v in CANDIDATES if smem(rp, v)]
        got = env._evaluate_python(r["py"], r["abi"]) is not None
        return got != any(loads(r["impl"], r["py"], r["abi"], v) for v in admitted)
    if r["op"] == "multi":
        env = EnvSpec(parse_version_specifier(r["rp"]), None, mk_impl(r["impl"]))
        got = env.compatibility(r["py"], r["abi"], ["any"])
        scores = [s_ for s_ in (env._evaluate_python(p_, a_) for p_ in r["py"] for a_ in r["abi"]) if s_ is not None]
        return got != ((max(scores) + (-1,)) if scores else None) or env.compatibility(r["py"][::-1], r["abi"][::-1], ["any", "any"]) != got
    if r["op"] == "gilflag":
        return gilflag_differs(r["rp"], r["flag"], r["py"], r["abi"])
    if r["op"] == "tags":
        name = r["platform"]
        try:
            got = [t for t in Platform.parse(name).compatible_tags if "_fat" not in t]
        except Exception:  # noqa: BLE001
            return True
        lst, s = expected_tags(name)
        return s is not None and (set(got) != s or (lst is not None and got != lst))
    if r["op"] == "pscore2":
        name = r["platform"]
        env = EnvSpec(parse_version_specifier(""), Platform.parse(name))
        tags = [*Platform.parse(name).compatible_tags, "any"]
        first = [env._evaluate_platform(t) for t in tags]
        for junk in ("nonsense_tag", "linux_ppc64", "win_ia64"):
            env._evaluate_platform(junk)
        again = [env._evaluate_platform(t) for t in tags]
        w = tags[::3] + ["zzz"]
        c0 = env.compatibility(["cp39", "py3"], ["cp39", "none"], w)
        if c0 != env.compatibility(["cp39", "py3"], ["cp39", "none"], ["zzz", "linux_ppc64"] + tags[::3]) or \
                c0 != env.compatibility(["py3", "cp39"], ["none", "cp39"], w[::-1]):
            return True
        return first != again or first != [len(tags) - i for i in range(len(tags))] or \
            list(Platform.parse(name).compatible_tags) + ["any"] != tags
    if r["op"] == "wheelstate":
        first = parse_wheel_tags(r["filename"])
        snapshot = tuple(list(x) for x in first)
        for lst in first:
            lst.clear()
        return tuple(list(x) for x in parse_wheel_tags(r["filename"])) != snapshot
    if r["op"] == "wheel":
        try:
            a, b, c = parse_wheel_tags(r["filename"])
        except Exception:  # noqa: BLE001
            try:
                pkg_utils.parse_wheel_filename(r["filename"])
                return True
            except Exception:  # noqa: BLE001
                return False
        try:
            tags = pkg_utils.parse_wheel_filename(r["filename"])[3]
        except Exception:  # noqa: BLE001
            return not r["filename"].endswith(".whl")
        return {(t.interpreter, t.abi, t.platform) for t in tags} != set(itertools.product(a, b, c))
    if r["op"] == "platform":
        try:
            p = Platform.parse(r["name"])
            return Platform.parse(str(p)) != p
        except Exception:  # noqa: BLE001
            return True
    if r["op"] == "compare":
        a, b = mk_env(tuple(r["a"])), mk_env(tuple(r["b"]))
        o, k = a.compare(b).name, b.compare(a).name
        if a.platform is not None and b.platform is not None and o != "INCOMPATIBLE":
            ta, tb = set(a.platform.compatible_tags), set(b.platform.compatible_tags)
            if not (ta <= tb if o == "LOWER_OR_EQUAL" else tb <= ta):
                return True
        return (o == "INCOMPATIBLE") != (k == "INCOMPATIBLE") or (o == k == "HIGHER") or (r["a"] == r["b"] and o != "LOWER_OR_EQUAL")
    if r["op"] == "widen":
        a, b = mk_env(tuple(r["a"])), mk_env(tuple(r["b"]))
        w = [x.split(".") for x in r["wheel"]]
        return a.compatibility(*w) is not None and b.compatibility(*w) is None
    if r["op"] == "newer":
        ta, tb = Platform.parse(r["a"]).compatible_tags, Platform.parse(r["b"]).compatible_tags
        ea, eb = EnvSpec(parse_version_specifier(""), Platform.parse(r["a"])), EnvSpec(parse_version_specifier(""), Platform.parse(r["b"]))
        return not set(ta) <= set(tb) or any(ea._evaluate_platform(t) is not None and eb._evaluate_platform(t) is None for t in ta)
    if r["op"] == "pscore":
        env = EnvSpec(parse_version_specifier(""), Platform.parse(r["platform"]))
        tags = [*Platform.parse(r["platform"]).compatible_tags, "any"]
        if r["tag"] not in tags:
            return env._evaluate_platform(r["tag"]) is not None
        return env._evaluate_platform(r["tag"]) != len(tags) - tags.index(r["tag"])
    return True
