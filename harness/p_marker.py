"""C02, C03, C07, C12, C15 (and the marker halves of C13/C14): the marker engine."""
from __future__ import annotations

import itertools
import re

from . import core
from . import markers as mk
from .markers import E, Timeout, enc, enc_env, enc_marker, ev, is_nf, timed, variables

from packaging.markers import Marker as PkgMarker  # noqa: E402
from dep_logic.markers.single import _quote  # noqa: E402

THEOREMS_BY_PROP = {
    "C02": ["DepLogic.C02.and_sound", "DepLogic.C02.or_sound", "DepLogic.C02.isEmpty_sound", "DepLogic.C02.isAny_sound",
            "DepLogic.C02.rewriting_sound", "DepLogic.M.sound_all", "DepLogic.M.singleSound", "DepLogic.M.mergeSingle_ok",
            "DepLogic.M.str_coherent", "DepLogic.C02.and_sound_final", "DepLogic.C02.or_sound_final", "DepLogic.C02.bridge",
            "DepLogic.M.lexPrint_final", "DepLogic.M.lexNorm_final", "DepLogic.Lex.natOfDigits_toString",
            "DepLogic.Lex.parseClauseL_final",
            "DepLogic.M.fromSpecOk_of_lex", "DepLogic.M.pyMergeOk_of_fromSpec", "DepLogic.C02.env0_total",
            "DepLogic.C02.atomFull_good", "DepLogic.C02.atomPvGt_good", "DepLogic.M.pvsem_halfopen",
            "DepLogic.M.render_halfopen", "DepLogic.M.fromClause_short", "DepLogic.C02.atomRevCompat_good", "DepLogic.C02.atomComma_good", "DepLogic.C02.atomKeyword_good",
            "DepLogic.C02.atomPv3_good", "DepLogic.C02.atomImpl_good", "DepLogic.C02.inexact_never_merged", "DepLogic.C11.reversed_canonical_good", "DepLogic.C11.guard_lexOne"],
    "C03": ["DepLogic.C03.build_sound", "DepLogic.C03.build_sound_final", "DepLogic.M.sound_all", "DepLogic.M.singleSound"],
    "C07": ["DepLogic.C07.str_empty_any", "DepLogic.C07.items_sem", "DepLogic.C07.reparse_sound", "DepLogic.C07.reparse_sound_final",
            "DepLogic.C07.items_ok", "DepLogic.C07.atom_text", "DepLogic.C07.seq_text", "DepLogic.C07.junction_text", "DepLogic.C07.nested_text", "DepLogic.C07.text_roundtrip_printable", "DepLogic.C07.str_reparse_final", "DepLogic.C07.atomStr_toList", "DepLogic.C07.read_quote", "DepLogic.C07.quote_roundtrip", "DepLogic.C07.quote_shape",
            "DepLogic.C07.atomOf_atomItem", "DepLogic.C03.build_sound"],
    "C12": ["DepLogic.C12.only_mentions", "DepLogic.C12.only_implied", "DepLogic.C12.only_same",
            "DepLogic.C12.exclude_mentions", "DepLogic.C12.exclude_implied", "DepLogic.C12.exclude_same_partial",
            "DepLogic.C12.exclude_same_needs_noVanish", "DepLogic.C12.only_ok", "DepLogic.C12.exclude_ok",
            "DepLogic.C12.singleSound_names", "DepLogic.C12.only_final", "DepLogic.C12.exclude_final",
            "DepLogic.C12.noVanish_dnf", "DepLogic.C12.exclude_same_dnf", "DepLogic.C12.noVanish_cnf", "DepLogic.C12.exclude_same_cnf"],
    "C15": ["DepLogic.C15.flatten_nodup", "DepLogic.C15.mkMulti_nodup", "DepLogic.C15.mkUnion_nodup",
            "DepLogic.C15.multiOf_exit", "DepLogic.C15.unionOfList_exit", "DepLogic.C15.and_neutral",
            "DepLogic.C15.or_neutral", "DepLogic.C15.singleAnd_pair_distinct", "DepLogic.C15.singleOr_pair_distinct",
            "DepLogic.C15.flatten_pair", "DepLogic.C15.and_single_shape", "DepLogic.C15.or_single_shape",
            "DepLogic.C15.multiOf_flat", "DepLogic.C15.unionOfList_flat", "DepLogic.C15.intersection_flat",
            "DepLogic.C15.unionOf_flat", "DepLogic.C15.and_flat", "DepLogic.C15.or_flat",
            "DepLogic.C15.exclude_flat_multi", "DepLogic.C15.exclude_flat_union", "DepLogic.C15.only_flat_multi", "DepLogic.C15.only_flat_union", "DepLogic.C15.only_flat", "DepLogic.C15.multiOf_son", "DepLogic.C15.unionOfList_sox", "DepLogic.C15.multiOf_atomic", "DepLogic.C15.unionOfList_atomic", "DepLogic.C15.only_atomic_multi", "DepLogic.C15.only_atomic_union", "DepLogic.C15.exclude_atomic_multi", "DepLogic.C15.exclude_atomic_union", "DepLogic.C15.unionOfList_not_empty", "DepLogic.C15.multiOf_not_any", "DepLogic.C15.build_flat_conj", "DepLogic.C15.build_flat_disj"]}
THEOREMS: list[str] = []


def out_of(run_f):
    """(protocol answer, object or None)"""
    try:
        m = timed(run_f)
    except Timeout:
        return "timeout", None
    except Exception as e:  # noqa: BLE001
        return "raise:" + type(e).__name__, None
    return enc_marker(m) + "\t" + str(m), m


def gen_pairs(run: core.Run, n: int, depth: int, profile="all"):
    rng = run.rng
    for _ in range(n):
        a = mk.marker_text(rng, rng.choice([0, 1, depth]), profile)
        b = mk.marker_text(rng, rng.choice([0, 1, depth]), profile)
        yield a, b


def check_expr(run: core.Run, prop: str, e: E, envs, truth, stats) -> None:
    """run expression `e` on the real code; correspondence line + the property's oracle.
    truth(env) -> expected bool or None (no claim)"""
    out, m = out_of(e.run)
    if out == "timeout":
        stats["timeouts"] += 1
        return
    run.add(core.Case(f"{prop}.expr", "m.expr\t" + e.tokens(), out, " " in out, ctx=e))
    rep = {"op": "expr", "expr": e.to_json()}
    key = "expr|" + e.show()
    if m is None:
        run.fail(core.Failure(key, f"{e.show()} raised ({out})", rep))
        return
    if prop in ("C15", "C07", "C02", "C12") and not is_nf(m):
        if prop == "C15":
            run.fail(core.Failure(key, f"{e.show()} = {m!r} is not in normal form", rep))
    if prop == "C15":
        stats["oracle"] += 1
        return
    if prop == "C07":
        check_roundtrip(run, e, m, envs, stats)
        return
    for env in envs:
        want = truth(env)
        if want is None:
            continue
        stats["oracle"] += 1
        got = ev(m, env)
        if got != want:
            rep2 = dict(rep, env={k: (sorted(v) if isinstance(v, set) else v) for k, v in env.items()})
            f = core.Failure(key + "|" + enc_env(env), f"{e.show()} = {m!r} evaluates to {got} in an environment where "
                             f"the operands give {want}", rep2)
            fam = mk.known_family(e.leaves(), env)
            if fam:
                f.family = fam
                run.fail(f)
                continue
            run.fail(f)
            break
    if prop == "C02":
        envs = [env for env in envs if not mk.known_family(e.leaves(), env)]
        if m.is_empty() and any(truth(env) for env in envs):
            run.fail(core.Failure(key + "|is_empty", f"{e.show()} reports is_empty() but an environment satisfies it", rep))
        if m.is_any() and not all(truth(env) in (True, None) for env in envs):
            run.fail(core.Failure(key + "|is_any", f"{e.show()} reports is_any() but an environment falsifies it", rep))
        if stats["evals"] < stats["eval_budget"] and mk.model_evaluable(e.leaves()):
            for env in envs[:3]:
                stats["evals"] += 1
                run.add(core.Case("C02.eval", "m.eval\t" + e.tokens() + "\t" + enc_env(env), enc_T3(ev(m, env))))


def enc_T3(x) -> str:
    if x is True:
        return "T"
    if x is False:
        return "F"
    return "raise"


def check_roundtrip(run, e: E, m, envs, stats) -> None:
    rep = {"op": "expr", "expr": e.to_json()}
    key = "rt|" + e.show()
    text = str(m)
    stats["oracle"] += 1
    if m.is_empty() or m.is_any():
        want = "<empty>" if m.is_empty() else ""
        back = mk.parse_marker(text)
        if text != want or type(back) is not type(m):
            run.fail(core.Failure(key, f"empty/universal result renders {text!r} / parses back {back!r}", rep))
        return
    if "<empty>" in text:
        run.fail(core.Failure(key, f"{e.show()} renders {text!r} (contains <empty>)", rep))
        return
    try:
        back = timed(lambda: mk.parse_marker(text))
        PkgMarker(text)
    except Timeout:
        stats["timeouts"] += 1
        return
    except Exception as ex:  # noqa: BLE001
        run.fail(core.Failure(key, f"{e.show()} renders {text!r} which does not parse ({type(ex).__name__})", rep))
        return
    run.add(core.Case("C07.reparse", "m.expr\t" + mk.leaf_tokens(text), enc_marker(back) + "\t" + str(back)))
    # the token list packaging reads from the text vs the list the model says the text denotes
    run.add(core.Case("C07.tokens", "m.tokens\t" + e.tokens(), mk.enc_ast(PkgMarker(text)._markers), True, ctx=e))
    # ... and the CHARACTERS of the text through the model of packaging's parser (`MText.readFullMarker`)
    if text.isascii():
        run.add(core.Case("C07.text", "q.marker\t" + enc(text), "ok\t" + mk.enc_ast(PkgMarker(text)._markers), True))
    for env in envs:
        stats["oracle"] += 1
        if ev(back, env) != ev(m, env):
            f = core.Failure(key + "|" + enc_env(env), f"{text!r} re-parses to {back!r}, which evaluates differently from {m!r}",
                             dict(rep, env={k: (sorted(v) if isinstance(v, set) else v) for k, v in env.items()}))
            # re-parsing merges atoms again: the known merge findings (G2 substring lists, D4a) reach the round trip too
            fam = mk.known_family(e.leaves() + [text], env)
            if fam:
                f.family = fam
                run.fail(f)
                continue
            run.fail(f)
            break


def single_layer_pools(tier):
    """pools of single markers (atoms and grouped atoms) on ONE variable each: the table of
    `&`/`|` between single markers is enumerated completely over each pool"""
    pools = []
    str_specs = [("sys_platform", ["linux", "darwin", "win32", "lin"], ["linux darwin", "win32 cygwin", "linux"])]
    if tier == "thorough":
        str_specs += [("os_name", ["posix", "nt", "pos", ""], ["posix nt", "nt java", "posix"]),
                      ("platform_machine", ["x86_64", "arm64", "x86"], ["x86_64 amd64", "arm64 aarch64"])]
    for var, vals, lits in str_specs:
        pool = []
        for v in vals:
            pool += [f'{var} == "{v}"', f'{var} != "{v}"', f'"{v}" in {var}', f'"{v}" not in {var}']
        pool += [f'"{vals[0]}" == {var}', f'"{vals[1]}" != {var}']
        for lit in lits:
            pool += [f'{var} in "{lit}"', f'{var} not in "{lit}"']
        for a, b in itertools.combinations(vals, 2):
            pool += [f'{var} == "{a}" or {var} == "{b}"', f'{var} != "{a}" and {var} != "{b}"']
        pool += [f'{var} == "{vals[0]}" or {var} == "{vals[1]}" or {var} == "{vals[2]}"',
                 f'{var} != "{vals[0]}" and {var} != "{vals[1]}" and {var} != "{vals[2]}"']
        envs = [{var: x} for x in vals + ["zzz", vals[0] + " " + vals[1], ""]]
        pools.append((var, pool, envs))
    # the two Python-version variables together (the python_version <-> python_full_version merge)
    pv = ["3.8", "3.9", "3.10"] + (["3", "3.7", "2.7"] if tier == "thorough" else [])
    pfv = ["3.8", "3.8.5", "3.9.0", "3.10.1"] + (["3.7.9", "3.9", "3.10"] if tier == "thorough" else [])
    ops = ["==", "!=", "<", "<=", ">", ">="]
    pool = [f'python_version {o} "{v}"' for o in ops for v in pv] + [f'python_full_version {o} "{v}"' for o in ops for v in pfv]
    # (operands that are specifier expressions: fixed defect D35, never merged)
    pool += ['python_version == "3.8,!=3.9"', 'python_full_version >= "3.8,<3.9"', 'python_version != "3.8||==3.9"']
    pool += ['python_version ~= "3.8"', 'python_full_version ~= "3.8.2"', 'python_version == "3.*"', 'python_full_version != "3.9.*"',
             '"3.9" <= python_version', '"3.9.1" > python_full_version', 'python_version not in "3.8, 3.9"', 'python_version in "3.9, 3.10"']
    envs = []
    for full in ["2.7.18", "3.7.9", "3.8.0", "3.8.4", "3.8.5", "3.8.6", "3.9.0", "3.9.1", "3.9.9", "3.10.0", "3.10.1", "3.10.2", "3.11.0", "4.0.0"]:
        X, Y = full.split(".")[:2]
        envs.append({"python_full_version": full, "python_version": f"{X}.{Y}"})
    pools.append(("python_version", pool, envs))
    # bounds one and two minors apart, with and without a patch level: what the rendering heuristics of the specifier
    # view (`!=X.Y.*`, `==X.Y.*`, `~=`) look at when two atoms are merged into one (seeds C11b, C14b)
    lad = [f'python_full_version < "{v}"' for v in ("3.6.0", "3.7", "3.8.0")] + \
          [f'python_full_version >= "{v}"' for v in ("3.7.0", "3.7.2", "3.8.0", "3.9", "3.9.1")] + \
          ['python_full_version == "3.7.*"', 'python_full_version != "3.7.*"', 'python_version not in "3.7, 3.8"']
    lenvs = []
    for full in ["3.5.9", "3.6.0", "3.6.5", "3.7.0", "3.7.1", "3.7.2", "3.7.9", "3.8.0", "3.8.1", "3.9.0", "3.9.1", "3.9.2", "3.10.0"]:
        X, Y = full.split(".")[:2]
        lenvs.append({"python_full_version": full, "python_version": f"{X}.{Y}"})
    pools.append(("python_full_version", lad, lenvs))
    return pools


def run_single_layer(run: core.Run, stats, prop: str = "C02") -> None:
    base = {"os_name": "posix", "sys_platform": "linux", "platform_machine": "x86_64", "platform_system": "Linux",
            "platform_release": "5.10", "implementation_name": "cpython", "platform_python_implementation": "CPython",
            "python_version": "3.9", "python_full_version": "3.9.1", "extra": set(), "implementation_version": "3.9.1",
            "platform_version": "#1"}
    for var, pool, envs in single_layer_pools(run.tier):
        envs = [dict(base, **e) for e in envs]
        parsed = {}
        for t in pool:
            parsed[t] = mk.parse_marker(t)
        truth = {t: {id(env): ev(parsed[t], env) for env in envs} for t in pool}
        for idx, (a, b) in enumerate(itertools.product(pool, pool)):
            if not run.mine(idx):
                continue
            for kind, comb in (("and", lambda x, y: x and y), ("or", lambda x, y: x or y)):
                def tr(env, comb=comb, a=a, b=b):
                    x, y = truth[a][id(env)], truth[b][id(env)]
                    if not isinstance(x, bool) or not isinstance(y, bool):
                        return None
                    return comb(x, y)
                check_expr(run, prop, E(kind, E("leaf", a), E("leaf", b)), envs, tr, stats)


def run_c02(run: core.Run, n: int) -> None:
    stats = {"timeouts": 0, "oracle": 0, "evals": 0, "eval_budget": n}
    run_single_layer(run, stats)
    if run.first:
        run_d4a(run, "C02", stats)
        run_g3(run, "C02", stats)
        run_pv3(run, stats)
        run_keyword_atoms(run, stats)
    for i in range(n // 6):
        for e in complement_exprs(run.rng):
            if e.kind in ("and", "or"):
                ls = e.leaves()
                envs = mk.envs_for(ls, run.rng, 12)
                try:
                    x, y = timed(e.args[0].run), timed(e.args[1].run)
                except Exception:  # noqa: BLE001
                    continue
                comb = (lambda p, q: p and q) if e.kind == "and" else (lambda p, q: p or q)

                def truth(env, x=x, y=y, comb=comb):
                    p_, q_ = ev(x, env), ev(y, env)
                    return comb(p_, q_) if isinstance(p_, bool) and isinstance(q_, bool) else None
                check_expr(run, "C02", e, envs, truth, stats)
    for a, b in gen_pairs(run, n, 2):
        envs = mk.envs_for([a, b], run.rng, 24)
        try:
            ma, mb = timed(lambda: mk.parse_marker(a)), timed(lambda: mk.parse_marker(b))
        except Timeout:
            stats["timeouts"] += 1
            continue
        ta = {id(env): ev(ma, env) for env in envs}
        tb = {id(env): ev(mb, env) for env in envs}
        for kind, comb in (("and", lambda x, y: x and y), ("or", lambda x, y: x or y)):
            def truth(env, comb=comb):
                x, y = ta[id(env)], tb[id(env)]
                if not isinstance(x, bool) or not isinstance(y, bool):
                    return None
                return comb(x, y)
            check_expr(run, "C02", E(kind, E("leaf", a), E("leaf", b)), envs, truth, stats)
    run.extra.update(time_budget_skips=stats["timeouts"], oracle_evaluations=stats["oracle"])


def run_d4a(run: core.Run, prop: str, stats) -> None:
    """targeted stream for the marker consequences of known finding D4a (found by the proof: C06.NoD4a is forced)"""
    for lo, hi, full in mk.D4A_PAIRS:
        X, Y = full.split(".")[:2]
        env = {"python_full_version": full, "python_version": f"{X}.{Y}", "platform_release": "5.10", "implementation_version": full,
               "platform_version": "#1", "extra": set(), "extras": set(), "dependency_groups": set()}
        for k, v in mk.STR_VARS.items():
            env[k] = v[0]
        if prop == "C02":
            x, y = mk.parse_marker(lo), mk.parse_marker(hi)
            for comb, e in (("and", E("and", E("leaf", lo), E("leaf", hi))), ("and", E("and", E("leaf", hi), E("leaf", lo)))):
                check_expr(run, "C02", e, [env], lambda en, x=x, y=y: ev(x, en) and ev(y, en), stats)
        else:
            text = f"{lo} and {hi}"
            m = mk.parse_marker(text)
            run.add(core.Case("C03.parse", "m.expr\t" + mk.leaf_tokens(text), enc_marker(m) + "\t" + str(m)))
            want = PkgMarker(text).evaluate(pkg_env(env))
            got = ev(m, env)
            stats["oracle"] += 1
            if got != want:
                f = core.Failure("eval|" + text + "|" + enc_env(env), f"parse_marker({text!r}).evaluate = {got}, packaging says {want}",
                                 {"op": "eval", "text": text, "env": {k: (sorted(v) if isinstance(v, set) else v) for k, v in env.items()}})
                f.family = mk.known_family([text], env)
                run.fail(f)


def run_g3(run: core.Run, prop: str, stats) -> None:
    """targeted stream for known finding G3: pre-/post-release interpreters (outside the environments of the theorems,
    `EnvTotal.verFinal`; inside the property's quantifier)"""
    for a, b, kind, full in mk.G3_CASES:
        X, Y = full.split(".")[:2]
        env = {"python_full_version": full, "python_version": f"{X}.{Y}", "platform_release": "5.10", "implementation_version": full,
               "platform_version": "#1", "extra": set(), "extras": set(), "dependency_groups": set()}
        for k, v in mk.STR_VARS.items():
            env[k] = v[0]
        if prop == "C02":
            x, y = mk.parse_marker(a), mk.parse_marker(b)
            comb = (lambda p, q: p and q) if kind == "and" else (lambda p, q: p or q)
            e = E(kind, E("leaf", a), E("leaf", b))
            out, m = out_of(e.run)
            run.add(core.Case("C02.expr", "m.expr\t" + e.tokens(), out, " " in out, ctx=e))
            want, got = comb(ev(x, env), ev(y, env)), ev(m, env)
            stats["oracle"] += 1
            if got != want:
                f = core.Failure("expr|" + e.show() + "|" + enc_env(env), f"{e.show()} = {m!r} evaluates to {got} on {full} where the "
                                 f"operands give {want}", {"op": "expr", "expr": e.to_json(),
                                                           "env": {k: (sorted(v) if isinstance(v, set) else v) for k, v in env.items()}})
                f.family = mk.known_family([a, b], env)
                run.fail(f)
        else:
            text = f"{a} {kind} {b}"
            m = mk.parse_marker(text)
            want, got = PkgMarker(text).evaluate(pkg_env(env)), ev(m, env)
            stats["oracle"] += 1
            if got != want:
                f = core.Failure("eval|" + text + "|" + enc_env(env), f"parse_marker({text!r}).evaluate = {got} on {full}, packaging says {want}",
                                 {"op": "eval", "text": text, "env": {k: (sorted(v) if isinstance(v, set) else v) for k, v in env.items()}})
                f.family = mk.known_family([text], env)
                run.fail(f)


KEYWORD_ATOMS = ['python_version < "empty>"', 'python_full_version < "empty>"', 'python_full_version == "=3.8"', 'python_version == "=3.9"',
                 '"empty>" > python_version']


def run_keyword_atoms(run: core.Run, stats) -> None:
    """atoms whose operator + operand spell something else than a comparison (`<` + `empty>` = the `<empty>` keyword, `==` +
    `=3.8` = `===3.8`): fixed defects D39, D40.  Their specifier view is not an interval set, so they are outside the model;
    `&` / `|` with every partner is judged on the implementation alone, by the operands' own truth values"""
    partners = ['python_version >= "99"', 'python_version < "99"', 'python_version >= "3.9"', 'python_full_version < "3.0"',
                'python_full_version >= "3.9"', 'python_version != "3.8"', 'os_name == "nt"'] + KEYWORD_ATOMS
    envs = []
    for full in ("3.8", "3.8.0", "3.9.1", "3.10.0", "2.7.18"):
        X, Y = (full.split(".") + ["0"])[:2]
        envs.append({"python_full_version": full, "python_version": f"{X}.{Y}", "os_name": "posix", "platform_release": "5.10",
                     "implementation_version": "3.9.1", "platform_version": "#1", "extra": set(), "sys_platform": "linux",
                     "platform_machine": "x86_64", "platform_system": "Linux", "implementation_name": "cpython",
                     "platform_python_implementation": "CPython"})
    for a, b in itertools.product(KEYWORD_ATOMS, partners):
        for x, y in ((a, b), (b, a)):
            for kind in ("and", "or"):
                e = E(kind, E("leaf", x), E("leaf", y))
                out, m = out_of(e.run)
                stats["oracle"] += 1
                rep = {"op": "expr", "expr": e.to_json()}
                if m is None:
                    run.fail(core.Failure("expr|" + e.show(), f"{e.show()} raised ({out})", rep))
                    continue
                px, py = mk.parse_marker(x), mk.parse_marker(y)
                for env in envs:
                    vx, vy = ev(px, env), ev(py, env)
                    want = (vx and vy) if kind == "and" else (vx or vy)
                    if isinstance(vx, bool) and isinstance(vy, bool) and ev(m, env) != want:
                        run.fail(core.Failure("expr|" + e.show() + "|" + enc_env(env), f"{e.show()} = {m!r} evaluates to {ev(m, env)} "
                                              f"where the operands give {want}",
                                              dict(rep, env={k: (sorted(v) if isinstance(v, set) else v) for k, v in env.items()})))
                        break


def run_pv3(run: core.Run, stats) -> None:
    """python_version atoms whose operand has a trailing `.0` segment, merged with python_full_version atoms"""
    for a, b, full in mk.PV3_PAIRS:
        X, Y = full.split(".")[:2]
        env = {"python_full_version": full, "python_version": f"{X}.{Y}", "platform_release": "5.10", "implementation_version": full,
               "platform_version": "#1", "extra": set(), "extras": set(), "dependency_groups": set()}
        for k, v in mk.STR_VARS.items():
            env[k] = v[0]
        envs = [env] + mk.envs_for([a, b], run.rng, 8)
        x, y = mk.parse_marker(a), mk.parse_marker(b)
        for kind in ("and", "or"):
            comb = (lambda p, q: p and q) if kind == "and" else (lambda p, q: p or q)
            for e in (E(kind, E("leaf", a), E("leaf", b)), E(kind, E("leaf", b), E("leaf", a))):
                check_expr(run, "C02", e, envs, lambda en, x=x, y=y, comb=comb: comb(ev(x, en), ev(y, en)), stats)


def pkg_env(env):
    e = dict(env)
    ex = env.get("extra")
    e["extra"] = sorted(ex)[0] if ex else ""
    return e


def run_c03(run: core.Run, n: int) -> None:
    rng = run.rng
    stats = {"timeouts": 0, "oracle": 0}
    if run.first:
        run_d4a(run, "C03", stats)
        run_g3(run, "C03", stats)
        for text, e0 in mk.G5_CASES:       # known finding G5: ordering operators on plain string variables
            env = {"python_full_version": "3.9.1", "python_version": "3.9", "platform_release": "5.10", "implementation_version": "3.9.1",
                   "platform_version": "#1", "extra": "", "os_name": "posix", "sys_platform": "linux", "platform_machine": "x86_64",
                   "platform_system": "Linux", "implementation_name": "cpython", "platform_python_implementation": "CPython"}
            env.update(e0)
            want, got = PkgMarker(text).evaluate(env), ev(mk.parse_marker(text), env)
            stats["oracle"] += 1
            if got != want:
                f = core.Failure("eval|" + text + "|" + enc_env(env), f"parse_marker({text!r}).evaluate = {got}, packaging says {want}",
                                 {"op": "eval", "text": text, "env": env})
                f.family = mk.known_family([text], env)
                run.fail(f)
    # exhaustive over the single-layer pools: every ordered pair of atoms / grouped atoms on one variable joined by
    # `and` and by `or` in ONE text, so that parse_marker's own folding meets every pair (seed C03d: a `!=` group and an
    # `in` atom it only partly excludes, inside one conjunction)
    base = {"os_name": "posix", "sys_platform": "linux", "platform_machine": "x86_64", "platform_system": "Linux",
            "platform_release": "5.10", "implementation_name": "cpython", "platform_python_implementation": "CPython",
            "python_version": "3.9", "python_full_version": "3.9.1", "extra": "", "implementation_version": "3.9.1",
            "platform_version": "#1"}
    idx = 0
    for var, pool, penvs in single_layer_pools(run.tier):
        penvs = [dict(base, **e) for e in penvs]
        par = lambda t: f"({t})" if (" and " in t or " or " in t) else t  # noqa: E731
        for a, b in itertools.product(pool, pool):
            idx += 1
            if not run.mine(idx):
                continue
            for glue in (" and ", " or "):
                text = par(a) + glue + par(b)
                try:
                    m, pm = mk.parse_marker(text), PkgMarker(text)
                except Exception as ex:  # noqa: BLE001
                    run.fail(core.Failure("parse|" + text, f"parse_marker({text!r}) raised {type(ex).__name__}", {"op": "parse", "text": text}))
                    continue
                for env in penvs:
                    stats["oracle"] += 1
                    want, got = pm.evaluate(env), ev(m, env)
                    if got != want:
                        f = core.Failure("eval|" + text + "|" + enc_env(env), f"parse_marker({text!r}).evaluate = {got}, packaging says {want}",
                                         {"op": "eval", "text": text, "env": {k: (sorted(v) if isinstance(v, set) else v) for k, v in env.items()}})
                        fam = mk.known_family([text], env)
                        if fam:
                            f.family = fam
                        run.fail(f)
                        if not fam:
                            break
    # atoms whose specifier cannot be built (not versions / not comma separated lists): legal PEP 508, evaluated as
    # strings by packaging; outside the Lean model (an atom there always has its specifier), judged against packaging
    # only (fixed defect D26: parse_marker raised InvalidSpecifier as soon as two such atoms on one variable met)
    if run.first:
        odd = ["python_version in '2.7 3.6'", "python_version not in '3.6 3.7'", "platform_release == '5.4.0-generic'",
               "platform_release != '5.4.0-aws'", "'microsoft' in platform_release", "platform_release >= '5'",
               "python_version >= '2.7'", "python_version == '3.6'", "'2.' not in python_version", "platform_release == '5.4.0'",
               "python_full_version in '3.6.1 3.7.2'", "python_full_version >= '3.6.1'", "python_version === '3.6'",
               "python_full_version === '3.6'", "'3.7.2' === python_full_version", "python_version != '3.6'",
               # an operand starting with `=` turns `==` into the arbitrary equality `===` (fixed defect D39)
               "python_full_version == '=3.6.1'", "python_version == '=3.6'", "'=3.6' == python_version"]
        oenvs = [dict(base, python_version=pv, python_full_version=pf, platform_release=rel)
                 for pv, pf in (("2.7", "2.7.18"), ("3.6", "3.6.1"), ("3.7", "3.7.2"), ("3.10", "3.10.0"))
                 for rel in ("5.4.0", "5.4.0-generic", "5.10.16.3-microsoft-standard")]
        for a, b in itertools.product(odd, odd):
            for glue in (" and ", " or "):
                text = a + glue + b
                pm = PkgMarker(text)
                try:
                    m = mk.parse_marker(text)
                except Exception as ex:  # noqa: BLE001
                    run.fail(core.Failure("parse|" + text, f"parse_marker({text!r}) raised {type(ex).__name__}", {"op": "parse", "text": text}))
                    continue
                for env in oenvs:
                    stats["oracle"] += 1
                    try:
                        want = pm.evaluate(env)
                    except Exception:  # noqa: BLE001
                        continue
                    got = ev(m, env)
                    if got != want:
                        run.fail(core.Failure("eval|" + text + "|" + enc_env(env), f"parse_marker({text!r}).evaluate = {got}, packaging says {want}",
                                              {"op": "eval", "text": text, "env": env}))
                        break
    for _ in range(n):
        text = mk.marker_text(rng, rng.choice([0, 1, 2, 3]))
        envs = mk.envs_for([text], rng, 10)
        try:
            m = timed(lambda: mk.parse_marker(text))
        except Timeout:
            stats["timeouts"] += 1
            continue
        except Exception as ex:  # noqa: BLE001
            run.fail(core.Failure("parse|" + text, f"parse_marker({text!r}) raised {type(ex).__name__}", {"op": "parse", "text": text}))
            continue
        pm = PkgMarker(text)
        run.add(core.Case("C03.parse", "m.expr\t" + mk.leaf_tokens(text), enc_marker(m) + "\t" + str(m)))
        for i, env in enumerate(envs):
            penv = pkg_env(env)
            denv = dict(env, extra=penv["extra"])
            stats["oracle"] += 1
            try:
                want = pm.evaluate(penv, context="lock_file" if ("extras" in text or "dependency_groups" in text) else "metadata")
            except Exception:  # noqa: BLE001
                continue
            got = ev(m, denv) if "extras" not in text and "dependency_groups" not in text else evaluate_lock(m, denv)
            if i < 3 and mk.model_evaluable([text]):
                run.add(core.Case("C03.eval", "m.eval\t" + mk.leaf_tokens(text) + "\t" + enc_env(denv), enc_T3(got)))
            if any(isinstance(v, set) for v in denv.values()):
                # the same environment with its sets given as frozensets, packaging's own type for the lock_file defaults
                # (fixed defect D37: only builtin sets were normalised element-wise, a frozenset raised TypeError)
                fenv = {k: (frozenset(v) if isinstance(v, set) else v) for k, v in denv.items()}
                gotf = ev(m, fenv) if "extras" not in text and "dependency_groups" not in text else evaluate_lock(m, fenv)
                # ... and as dict key views (any collections.abc.Set: packaging types them AbstractSet[str]; fix f29d265)
                kenv = {k: (dict.fromkeys(v).keys() if isinstance(v, set) and k != "extra" else v) for k, v in denv.items()}
                gotk = ev(m, kenv) if "extras" not in text and "dependency_groups" not in text else evaluate_lock(m, kenv)
                if gotk != got:
                    gotf = gotk
                if gotf != got:
                    run.fail(core.Failure("evalf|" + text + "|" + enc_env(denv), f"parse_marker({text!r}).evaluate = {gotf} with "
                                          f"frozenset-valued variables, {got} with sets",
                                          {"op": "evalf", "text": text, "env": {k: (sorted(v) if isinstance(v, set) else v) for k, v in denv.items()}}))
                    break
            if got != want:
                f = core.Failure("eval|" + text + "|" + enc_env(denv), f"parse_marker({text!r}).evaluate = {got}, packaging says {want}",
                                 {"op": "eval", "text": text, "env": {k: (sorted(v) if isinstance(v, set) else v) for k, v in denv.items()}})
                fam = mk.known_family([text], denv)
                if fam:
                    f.family = fam
                    run.fail(f)
                    continue
                run.fail(f)
                break
    run.extra.update(time_budget_skips=stats["timeouts"], oracle_evaluations=stats["oracle"])


def pkg_read_literal(text: str) -> str:
    """the value packaging's tokenizer + `ast.literal_eval` read from the quoted token at the head of `text` and the
    rest of the text, in the driver's format; packaging's own code path (`packaging._tokenizer`, `process_python_str`)"""
    import warnings
    from packaging._tokenizer import Tokenizer, DEFAULT_RULES, ParserSyntaxError
    from packaging._parser import process_python_str
    tk = Tokenizer(text, rules=DEFAULT_RULES)
    if not tk.check("QUOTED_STRING"):
        return "none"
    tok = tk.read()
    try:
        with warnings.catch_warnings():
            warnings.simplefilter("ignore")
            val = process_python_str(tok.text)
    except Exception:  # noqa: BLE001
        return "none"
    v = val.value
    if any(0xD800 <= ord(c) <= 0xDFFF for c in v):
        return "none"           # a lone surrogate is not a character of the model
    return "ok\t" + enc(v) + "\t" + enc(text[len(tok.text):])


def pkg_read_atom(text: str) -> str:
    """packaging's `_parse_marker_item` on the head of `text`: its (lhs, op, rhs) in the protocol's token syntax and the
    text left over"""
    import warnings
    from packaging._tokenizer import Tokenizer, DEFAULT_RULES
    from packaging._parser import _parse_marker_item, Variable
    tk = Tokenizer(text, rules=DEFAULT_RULES)
    try:
        with warnings.catch_warnings():
            warnings.simplefilter("ignore")
            lhs, op, rhs = _parse_marker_item(tk)
    except Exception:  # noqa: BLE001
        return "none"
    if any(0xD800 <= ord(c) <= 0xDFFF for c in lhs.value + rhs.value):
        return "none"
    v = isinstance(lhs, Variable)
    return f"ok\ta:{'t' if v else 'f'}:{enc(str(lhs.value))}:{enc(str(op.value))}:{enc(str(rhs.value))}\t{enc(text[tk.position:])}"


def evaluate_lock(m, env):
    try:
        return m.evaluate(dict(env), context="lock_file")
    except Exception as e:  # noqa: BLE001
        return "raise:" + type(e).__name__


def factored_base(rng):
    """operands whose `|` factors out a common atom, so that the CNF candidate wins: a conjunction with a nested
    union, the shape parse_marker/& never produce on their own (seed C12b: exclude() shortcut on such markers)"""
    A, B, C = mk.atom(rng, "noextras"), mk.atom(rng), mk.atom(rng)
    if rng.random() < 0.4:
        # the removed variable only inside the nested union (seed C12d: a shallow scan for `extra` in without_extras)
        v = rng.choice(["extra", "os_name", "sys_platform"])
        B, C = f'{v} == "{rng.choice(["a", "foo", "linux"])}"', f'{v} == "{rng.choice(["b", "test", "win32"])}"'
    if rng.random() < 0.2:
        # ONE variable throughout, atoms that cannot be merged: only((var,)) must then equal the marker (seed C12f: a
        # single-name fast path in MultiMarker.only dropped the nested union)
        v = rng.choice(["os_name", "sys_platform", "platform_machine"])
        a, b, c = rng.sample(["n", "t", "p", "x", "6", "in"], 3)
        A, B, C = f'"{a}" in {v}', f'"{b}" in {v}', f'"{c}" in {v}'
    L = lambda x: E("leaf", x)  # noqa: E731
    k = rng.random()
    if k < 0.5:
        return E("or", L(f"{A} and {B}"), L(f"{A} and {C}"))
    if k < 0.75:
        return E("or", L(f"{A} and {B} and {mk.atom(rng)}"), L(f"{A} and {C}"))
    return E("or", E("or", L(f"{A} and {B}"), L(f"{A} and {C}")), L(mk.atom(rng)))


def grouped_base(rng):
    """markers containing a grouped atom (EqualityMarkerUnion / InequalityMultiMarker: >= 2 values on one string variable),
    alone and next to another atom (seed C12: only() on a group whose variable is not requested)"""
    var = rng.choice(list(mk.STR_VARS))
    vals = rng.sample(mk.STR_VARS[var], 3 if len(mk.STR_VARS[var]) >= 3 and rng.random() < 0.3 else 2)
    g = rng.choice([" or ".join(f'{var} == "{v}"' for v in vals), " and ".join(f'{var} != "{v}"' for v in vals)])
    k = rng.random()
    if k < 0.3:
        return E("leaf", g)
    if k < 0.65:
        return E("leaf", f"({g}) and {mk.atom(rng)}")
    return E("leaf", f"({g}) or {mk.atom(rng)}")


def run_c12(run: core.Run, n: int) -> None:
    rng = run.rng
    stats = {"timeouts": 0, "oracle": 0, "evals": 0, "eval_budget": 0}
    for it in range(n):
        if it % 3 == 2:
            base = factored_base(rng)
        elif it % 3 == 1:
            base = grouped_base(rng)
        else:
            base = E("leaf", mk.marker_text(rng, rng.choice([1, 2, 3])))
        try:
            m = timed(base.run)
        except Timeout:
            stats["timeouts"] += 1
            continue
        except Exception:  # noqa: BLE001
            continue
        vs = sorted(variables(m))
        envs = mk.envs_for(base.leaves(), rng, 16)
        tm = {id(env): ev(m, env) for env in envs}
        subsets = [tuple(s) for k in range(0, min(3, len(vs)) + 1) for s in itertools.combinations(vs, k)]
        rng.shuffle(subsets)
        for names in subsets[:6]:
            e = E("only", base, names)
            out, r = out_of(e.run)
            if out == "timeout":
                stats["timeouts"] += 1
                continue
            run.add(core.Case("C12.only", "m.expr\t" + e.tokens(), out, ctx=e))
            rep = {"op": "expr", "expr": e.to_json()}
            if r is None:
                run.fail(core.Failure("only|" + e.show(), f"{e.show()} raised ({out})", rep))
                continue
            stats["oracle"] += 1
            if not variables(r) <= set(names):
                run.fail(core.Failure("only-vars|" + e.show(), f"{e.show()} = {r!r} mentions {sorted(variables(r) - set(names))}", rep))
            for env in envs:
                x, y = tm[id(env)], ev(r, env)
                if x is True and y is not True:
                    run.fail(core.Failure("only-impl|" + e.show(), f"{e.show()} = {r!r} is not implied by the marker", rep))
                    break
                if set(vs) <= set(names) and x != y:
                    run.fail(core.Failure("only-same|" + e.show(), f"{e.show()} changed the meaning although all variables were kept", rep))
                    break
        for name in vs[:3] + ([vs[-1]] if len(vs) > 3 else []) + ["extra", "os_name"]:
            e = E("exclude", base, name)
            out, r = out_of(e.run)
            if out == "timeout":
                stats["timeouts"] += 1
                continue
            run.add(core.Case("C12.exclude", "m.expr\t" + e.tokens(), out, ctx=e))
            rep = {"op": "expr", "expr": e.to_json()}
            if r is None:
                run.fail(core.Failure("excl|" + e.show(), f"{e.show()} raised ({out})", rep))
                continue
            stats["oracle"] += 1
            if name in variables(r):
                run.fail(core.Failure("excl-vars|" + e.show(), f"{e.show()} = {r!r} still mentions {name}", rep))
            if name not in vs:
                for env in envs:
                    if tm[id(env)] != ev(r, env):
                        run.fail(core.Failure("excl-same|" + e.show(), f"{e.show()} changed the meaning although {name} is not mentioned", rep))
                        break
            if name == "extra":
                w = m.without_extras()
                if "extra" in variables(w):
                    run.fail(core.Failure("noextras-vars|" + e.show(), f"({base.show()}).without_extras() = {w!r} still mentions extra", rep))
                if enc_marker(w) != enc_marker(r):
                    run.fail(core.Failure("noextras|" + e.show(), "without_extras() differs from exclude('extra')", rep))
    run.extra.update(time_budget_skips=stats["timeouts"], oracle_evaluations=stats["oracle"])


def raw_tree(rng, depth, atoms=None):
    """a tree built with the class constructors (no normalisation): not-in-normal-form shapes; the leaves come
    from a small per-tree pool so that equal children meet (across spliced-in same-kind compounds too)"""
    if atoms is None:
        atoms = [mk.atom(rng) for _ in range(rng.choice([2, 3, 4, 6]))]
    r = rng.random()
    if depth == 0 or r < 0.35:
        if r < 0.06:
            return E("empty")
        if r < 0.10:
            return E("any")
        return E("leaf", rng.choice(atoms))
    kids = [raw_tree(rng, depth - 1, atoms) for _ in range(rng.choice([0, 1, 2, 2, 3]))]
    return E("rawand" if rng.random() < 0.5 else "rawor", *kids)


# Lean: C12.exclude_same_needs_noVanish (a dropped conjunct on a not-in-normal-form marker)
NONNF_WITNESS = E("exclude", E("rawand", E("leaf", 'os_name == "a"'), E("rawor", E("empty"), E("empty"))), "extra")


def run_raw(run: core.Run, prop: str, n: int) -> None:
    """constructor-built (possibly not-in-normal-form) operands: correspondence only — the
    property does not quantify over them, the model's theorems do"""
    rng = run.rng
    exprs = [NONNF_WITNESS] if run.first else []
    for _ in range(n):
        t = raw_tree(rng, rng.choice([1, 2, 3]))
        k = rng.random()
        if k < 0.3:
            names = sorted({rng.choice(["os_name", "extra", "python_version", "sys_platform", "platform_machine"])
                            for _ in range(rng.choice([0, 1, 2]))})
            exprs.append(E("only", t, tuple(names)))
        elif k < 0.6:
            exprs.append(E("exclude", t, rng.choice(["os_name", "extra", "python_version", "sys_platform"])))
        elif k < 0.8:
            exprs.append(E("and" if rng.random() < 0.5 else "or", t, raw_tree(rng, 2)))
        else:
            exprs.append(t)
    skipped = 0
    for e in exprs:
        out, _m = out_of(e.run)
        if out == "timeout":
            skipped += 1
            continue
        run.add(core.Case(f"{prop}.raw", "m.expr\t" + e.tokens(), out, " " in out, ctx=e))
    run.extra["raw_tree_skips"] = skipped


COMPLEMENTS = [('python_version < "3.8"', 'python_version >= "3.8"'), ('python_version < "3.10"', 'python_full_version >= "3.8.5"'),
               ('os_name == "nt"', 'os_name != "nt"'), ('sys_platform in "linux darwin"', 'sys_platform not in "linux darwin"'),
               ('python_full_version <= "3.9.1"', 'python_full_version > "3.9.1"'), ('"win" in sys_platform', '"win" not in sys_platform'),
               ('python_version != "3.9"', 'python_version == "3.9"'), ('platform_release < "5.10"', 'platform_release >= "5.4"')]


def complement_exprs(rng):
    """shapes that reach union_simplify / intersect_simplify with a shared part and cancelling unique parts"""
    a, na = rng.choice(COMPLEMENTS)
    if rng.random() < 0.5:
        a, na = na, a
    s_ = mk.atom(rng)
    t_ = mk.atom(rng)
    L = lambda x: E("leaf", x)  # noqa: E731
    out = [L(f"({a} and {s_}) or ({na} and {s_})"), L(f"({a} and {s_} and {t_}) or ({na} and {s_})"),
           L(f"({a} or {s_}) and ({na} or {s_})"), L(f"({a} or {s_} or {t_}) and ({na} or {s_})"),
           E("and", L(f"({a} and {s_}) or {na}"), L(s_)), E("or", L(f"({a} or {s_}) and {na}"), L(s_)),
           E("or", L(f"{a} and {s_}"), L(f"{na} and {s_}")), E("and", L(f"{a} or {s_}"), L(f"{na} or {s_}")),
           # two unions sharing a direct child, their conjunctions carrying complementary atoms: the raw
           # `MarkerUnion(*markers)` candidate of union() wins on complexity (seed C15b: flatten_items without dedup)
           E("or", L(f"({t_} and {a}) or {s_}"), L(f"{s_} or ({mk.atom(rng)} and {na})")),
           E("or", L(f"{s_} or ({t_} and ({a} or {mk.atom(rng)}))"), L(f"{s_} or {na}")),
           E("and", L(f"({t_} or {a}) and {s_}"), L(f"{s_} and ({mk.atom(rng)} or {na})")),
           # a union whose cnf/dnf are more complex than itself, joined with an empty marker: union() must not keep the
           # empty operand in its raw candidate (fixed defect D13a, seed C07c)
           E("or", L(f"({a} and {s_}) or ({na} and {t_})"), L('os_name == "zz1" and os_name == "zz2"')),
           E("or", L(f"({a} and {s_}) or ({na} and {t_})"), E("empty")),
           E("and", L(f"({a} or {s_}) and ({na} or {t_})"), E("any")),
           E("exclude", L(f'({a} and {s_} and extra == "x") or ({na} and {s_})'), "extra"),
           # `A | (X1&X2 or X1&C or B&X2)` with B & C empty: union() answers in CNF, `(X1 or A or B) and (X2 or A or C)`;
           # excluding X's variable leaves `(A or B) and (A or C)`, which MultiMarker.of re-normalises through
           # intersect_simplify's "shared part only" branch (seed C15d); and the dual through union_simplify
           E("exclude", E("or", L(s_), L(f'(python_version < "3.9" and python_version >= "3.7") or (python_version < "3.9" and os_name == "zc") '
                                          f'or (os_name == "zb" and python_version >= "3.7")')), "python_version"),
           E("only", E("or", L(s_), L(f'(python_version < "3.9" and python_version >= "3.7") or (python_version < "3.9" and os_name == "zc") '
                                       f'or (os_name == "zb" and python_version >= "3.7")')), ("os_name",) + tuple(sorted(variables(mk.parse_marker(s_))))),
           E("exclude", E("and", L(s_), L(f'(python_version < "3.7" or python_version >= "3.9") and (python_version < "3.7" or os_name != "zc") '
                                           f'and (os_name == "zc" or python_version >= "3.9")')), "python_version"),
           E("only", L(f'({a} and {s_} and os_name == "zz") or ({na} and {s_})'), tuple(sorted(variables(mk.parse_marker(f"{a} and {na} and {s_}")))))]
    return out


def run_shape(run: core.Run, prop: str, n: int) -> None:
    """C15 / C07: every result of parse, &, |, only, exclude (incl. Empty/Any operands)"""
    rng = run.rng
    stats = {"timeouts": 0, "oracle": 0, "evals": 0, "eval_budget": 0}
    specials = ["", "<empty>"]
    if prop == "C15":
        # the complete `&` / `|` table between single markers on one variable (atoms and groups): every result in normal
        # form, groups included (seed C15g: a group left with one or no value)
        run_single_layer(run, stats, "C15")
    for i in range(n):
        a = mk.marker_text(rng, rng.choice([0, 1, 2, 2] if run.tier == "quick" else [0, 1, 2, 3]))
        b = mk.marker_text(rng, rng.choice([0, 1, 2]))
        envs = mk.envs_for([a, b], rng, 8) if prop == "C07" else []
        exprs = [E("leaf", a), E("and", E("leaf", a), E("leaf", b)), E("or", E("leaf", a), E("leaf", b))]
        if i % 3 == 0:
            try:
                vs = sorted(variables(timed(lambda: mk.parse_marker(a)))) or ["os_name"]
            except Exception:  # noqa: BLE001  (exponential cnf/dnf: over the budget)
                vs = ["os_name"]
            exprs.append(E("only", E("leaf", a), tuple(rng.sample(vs, min(len(vs), rng.randint(1, 2))))))
            exprs.append(E("exclude", E("leaf", a), rng.choice(vs + ["extra"])))
            exprs.append(E("or", E("and", E("leaf", a), E("leaf", b)), E("leaf", mk.atom(rng))))
        # an atom (of every class, the never-merged ones included) combined with itself, alone and inside compounds
        x = mk.atom(rng)
        exprs += [E("and", E("leaf", x), E("leaf", x)), E("or", E("leaf", x), E("leaf", x)),
                  E("and", E("leaf", f"({b}) and {x}"), E("leaf", f"{x} and ({a})")),
                  E("or", E("leaf", f"({b}) or {x}"), E("leaf", f"{x} or ({a})"))]
        if i % 2 == 0:
            try:
                exprs += complement_exprs(rng)
            except Exception:  # noqa: BLE001
                pass
        for e in exprs:
            check_expr(run, prop, e, envs, lambda env: None, stats)
        if i % 10 == 0:
            for s in specials:
                # Empty/Any operands cannot be written as packaging ASTs: implementation-side only
                for f, name in ((lambda x, y: x & y, "&"), (lambda x, y: x | y, "|"), (lambda x, y: y & x, "r&"), (lambda x, y: y | x, "r|")):
                    try:
                        r = timed(lambda: f(mk.parse_marker(a), mk.parse_marker(s)))
                    except Timeout:
                        continue
                    stats["oracle"] += 1
                    rep = {"op": "special", "a": a, "special": s, "which": name}
                    if not is_nf(r):
                        run.fail(core.Failure(f"special|{a}|{s}|{name}", f"[{a}] {name} {s!r} = {r!r} is not in normal form", rep))
                    elif prop == "C07" and "<empty>" in str(r) and not r.is_empty():
                        run.fail(core.Failure(f"special|{a}|{s}|{name}", f"[{a}] {name} {s!r} renders {str(r)!r}", rep))
    if prop == "C07" and run.first:
        # literals that need care when rendered, deterministically (fixed defects D27, D36; seed C07g): implementation and
        # packaging only -- a lone surrogate cannot travel over the model's UTF-8 line protocol
        n_awk = 0
        for text in mk.awkward_literal_texts():
            n_awk += 1
            try:
                PkgMarker(text)
            except Exception:  # noqa: BLE001  (not a marker packaging accepts: outside the quantifier)
                continue
            if replay({"replay": {"op": "rt", "text": text}}):
                run.fail(core.Failure("rt-lit|" + text.encode("unicode_escape").decode(), f"str(parse_marker({text!r})) does not parse "
                                      "back to the same marker", {"op": "rt", "text": text}))
        run.extra["awkward_literal_texts"] = n_awk
        # the literal step against the model (Lean: C07.read_quote, for every string): what `_quote` writes for a value and
        # what packaging reads from a quoted token, on awkward values and on random bodies over the escape alphabet
        n_q = 0
        alphabet = ["\\", "n", "r", "t", "x", "u", "2", "0", "f", "F", "g", "'", '"', "a", " ", "\n", "\r", "\x00", "\t", "\u00e9", "\u2028", ")"]
        values = ["", "a", "\\", "\\\\", '"', "'", "'\"", "say \"hi\"", "it's", "a\x00b", "\x00", "\n", "\r\n", "tab\t", "\\n", "\\x22", "\\u0000",
                  "\x7f", "\u00e9", "\u2028", "\U0001f600", "end\\", "x' or os_name == 'y", 'x" or os_name == "y']
        qrng = core.random.Random(f"{run.seed}|quote")
        values += ["".join(qrng.choice(alphabet) for _ in range(qrng.randint(1, 6))) for _ in range(300 if run.tier == "quick" else 3000)]
        for v in values:
            n_q += 1
            lit = _quote(v)
            run.add(core.Case("C07.quote", "q.quote\t" + enc(v), enc(lit)))
            got = pkg_read_literal(lit + " == os_name")
            run.add(core.Case("C07.read", "q.read\t" + enc(lit + " == os_name"), got))
            if got != "ok\t" + enc(v) + "\t" + enc(" == os_name"):
                run.fail(core.Failure("quote|" + enc(v), f"_quote({v!r}) = {lit!r} is read by packaging as {got!r}", {"op": "quote", "value": v}))
        bodies = ["".join(qrng.choice(alphabet) for _ in range(qrng.randint(0, 7))) for _ in range(400 if run.tier == "quick" else 4000)]
        for b in bodies:
            for qc in "'\"":
                text = qc + b + qc + " == os_name"
                if re.search(r"\\[^\\nrt'\"xu]", b.replace("\\\\", "")):
                    continue        # an escape the reader model does not cover (octal, \a, unknown escapes kept verbatim)
                n_q += 1
                run.add(core.Case("C07.read", "q.read\t" + enc(text), pkg_read_literal(text)))
        run.extra["literal_step_cases"] = n_q
        # one atom as text against the model (Lean: C07.atom_text): what packaging's `_parse_marker_item` reads from the text
        # of a rendered atom (followed by more marker text), from deprecated / odd spellings and from near misses
        n_a = 0
        arng = core.random.Random(f"{run.seed}|atomtext")
        atexts = []
        for _ in range(300 if run.tier == "quick" else 3000):
            t = mk.atom(arng)
            try:
                m = mk.parse_marker(t)
            except Exception:  # noqa: BLE001
                continue
            if isinstance(m, mk.MarkerExpression):
                atexts.append(str(m) + arng.choice(["", " and os_name == 'x'", ")", " or extra == \"a\"", "  "]))
        for var in ("os.name", "sys.platform", "platform.version", "platform.machine", "platform.python_implementation",
                    "python_implementation", "python.version", "os_namex", "xos_name", "extras", "extra", "extrass", "dependency_groups",
                    "platform_python_implementation", "Os_name"):        # (not: a name followed by a dot, where the model's
            # maximal-run reading of the VARIABLE rule and the regular expression part ways; stated in Model/MarkerText.lean)
            for op in ("==", "!=", "<=", ">=", "<", ">", "~=", "===", "in", "not in", "not  in", "notin", "not\tin", "=", "=>"):
                atexts += [f'{var} {op} "v"', f'"v" {op} {var}', f'{var}{op}"v"', f'"v"{op}{var} and x', f'  {var}\t{op}  \'v\' ']
        for t in atexts:
            if not t.isascii():
                continue
            n_a += 1
            run.add(core.Case("C07.atom", "q.atom\t" + enc(t), pkg_read_atom(t)))
        run.extra["atom_text_cases"] = n_a
    run.extra.update(time_budget_skips=stats["timeouts"], oracle_evaluations=stats["oracle"])


SHARDED = ("C02", "C03", "C07", "C12", "C15")   # thorough tier runs these over worker processes (harness/check.py)


def run_prop(prop: str, run: core.Run) -> None:
    quick = run.tier == "quick"
    run.assumptions = ["atoms are the well-defined PEP 508 classes of the statement; environments give python_version as "
                       "major.minor of a final python_full_version",
                       "operations exceeding a 2 s budget (exponential cnf/dnf) are counted, not judged"]
    if prop == "C02":
        run.rule = ("single-marker layer: every ordered pair of a pool of atoms and grouped atoms on one variable (==, !=, in, "
                    "not in, literal-on-the-left, 2- and 3-value groups) and of python_version/python_full_version atoms, both "
                    "operators (exhaustive over the pools); plus random marker pairs (depth <= 2, 2-3 children) over the "
                    "well-defined atom classes; compared structurally with the model and judged by evaluate() on environments "
                    "derived from the literals")
        run_c02(run, 700 if quick else run.size(24000))
    elif prop == "C03":
        run.rule = "random marker texts (depth <= 3) x literal-derived environments; parse_marker(text).evaluate vs packaging"
        run_c03(run, 1200 if quick else run.size(60000))
    elif prop == "C12":
        run.rule = "random markers x subsets of their variables for only(), each variable and absent ones for exclude()"
        run_c12(run, 300 if quick else run.size(8000))
        run_raw(run, prop, 300 if quick else run.size(8000))
    else:
        run.rule = "every result of parse, &, |, only, exclude over random markers, plus Empty/Any operands"
        run_shape(run, prop, 260 if quick else run.size(6000))
        if prop == "C15":
            run_raw(run, prop, 300 if quick else run.size(6000))


def wide_envs(texts, rng):
    return mk.envs_for(texts, rng, 160)


def search(prop: str, run: core.Run) -> None:
    """failing-input search around model/implementation disagreements: the property's oracle on a much larger
    environment grid, for the disagreeing operation and for the same operation applied to its sub-expressions"""
    by_line = {c.line: c for c in run.cases if c.ctx is not None}
    for d in run.disagreements[:25]:
        c = by_line.get(d["op"])
        if c is None:
            continue
        e: E = c.ctx
        try:
            m = timed(e.run, 5)
        except Exception:  # noqa: BLE001
            continue
        envs = wide_envs(e.leaves(), run.rng)
        rep = {"op": "expr", "expr": e.to_json()}
        key = "expr|" + e.show()
        if not is_nf(m) and prop in ("C15", "C07"):
            run.fail(core.Failure(key, f"{e.show()} = {m!r} is not in normal form", rep))
            continue
        if e.kind in ("and", "or"):
            try:
                x, y = timed(e.args[0].run, 5), timed(e.args[1].run, 5)
            except Exception:  # noqa: BLE001
                continue
            for env in envs:
                if mk.known_family(e.leaves(), env):
                    continue
                a, b, r = ev(x, env), ev(y, env), ev(m, env)
                want = (a and b) if e.kind == "and" else (a or b)
                if isinstance(a, bool) and isinstance(b, bool) and r != want:
                    run.fail(core.Failure(key + "|" + enc_env(env), f"{e.show()} = {m!r} evaluates to {r}, operands give {want}",
                                          dict(rep, env={k: (sorted(v) if isinstance(v, set) else v) for k, v in env.items()})))
                    break
        elif e.kind in ("only", "exclude"):
            try:
                src = timed(e.args[0].run, 5)
            except Exception:  # noqa: BLE001
                continue
            vs = variables(src)
            names = set(e.args[1]) if e.kind == "only" else None
            for env in envs:
                if mk.known_family(e.leaves(), env):
                    continue
                a, r = ev(src, env), ev(m, env)
                bad = False
                if e.kind == "only":
                    bad = (a is True and r is not True) or (vs <= names and a != r) or not (variables(m) <= names)
                else:
                    bad = (e.args[1] in variables(m)) or (e.args[1] not in vs and a != r)
                if bad:
                    run.fail(core.Failure(key + "|" + enc_env(env), f"{e.show()} = {m!r}: the {e.kind} clause fails (marker {a}, result {r})",
                                          dict(rep, env={k: (sorted(v) if isinstance(v, set) else v) for k, v in env.items()})))
                    break


def replay(data: dict) -> bool:
    r = data["replay"]
    if r["op"] == "expr":
        e = E.from_json(r["expr"])
        try:
            m = timed(e.run, 10)
        except Exception:  # noqa: BLE001
            return True
        if not is_nf(m):
            return True
        if e.kind in ("only", "exclude"):
            base = e.args[0].run()
            if e.kind == "exclude" and e.args[1] in variables(m):
                return True
            if e.kind == "exclude" and e.args[1] == "extra":
                w = base.without_extras()
                if "extra" in variables(w) or enc_marker(w) != enc_marker(m):
                    return True
            if e.kind == "only" and not variables(m) <= set(e.args[1]):
                return True
            import random
            for env in mk.envs_for(e.leaves(), random.Random(0), 120):
                x, y = ev(base, env), ev(m, env)
                if e.kind == "only" and x is True and y is not True:
                    return True
                if e.kind == "only" and variables(base) <= set(e.args[1]) and x != y:
                    return True
                if e.kind == "exclude" and e.args[1] not in variables(base) and x != y:
                    return True
            return False
        if "env" in r and e.kind in ("and", "or"):
            env = {k: (set(v) if isinstance(v, list) else v) for k, v in r["env"].items()}
            x, y = ev(e.args[0].run(), env), ev(e.args[1].run(), env)
            want = (x and y) if e.kind == "and" else (x or y)
            return ev(m, env) != want
        return False
    if r["op"] == "rt":
        # C07: str(parse(text)) is accepted by packaging and parse_marker and evaluates like the marker
        m = mk.parse_marker(r["text"])
        s = str(m)
        try:
            back = mk.parse_marker(s)
            PkgMarker(s)
        except Exception:  # noqa: BLE001
            return True
        if enc_marker(back) != enc_marker(m):      # another literal / another structure: some environment tells them apart
            return True
        import random
        return any(ev(back, env) != ev(m, env) for env in mk.envs_for([r["text"]], random.Random(0), 40))
    if r["op"] == "quote":
        return pkg_read_literal(_quote(r["value"]) + " == os_name") != "ok\t" + enc(r["value"]) + "\t" + enc(" == os_name")
    if r["op"] == "evalf":
        env = {k: (set(v) if isinstance(v, list) else v) for k, v in r["env"].items()}
        fenv = {k: (frozenset(v) if isinstance(v, set) else v) for k, v in env.items()}
        kenv = {k: (dict.fromkeys(v).keys() if isinstance(v, set) and k != "extra" else v) for k, v in env.items()}
        m = mk.parse_marker(r["text"])
        lock = "extras" in r["text"] or "dependency_groups" in r["text"]
        want = evaluate_lock(m, env) if lock else ev(m, env)
        return any((evaluate_lock(m, e2) if lock else ev(m, e2)) != want for e2 in (fenv, kenv))
    if r["op"] == "eval":
        env = {k: (set(v) if isinstance(v, list) else v) for k, v in r["env"].items()}
        try:
            want = PkgMarker(r["text"]).evaluate(pkg_env(env))
        except Exception:  # noqa: BLE001
            return False
        try:
            m = mk.parse_marker(r["text"])
        except Exception:  # noqa: BLE001  (parse_marker raising on a valid marker is the failure)
            return True
        return ev(m, env) != want
    return True
