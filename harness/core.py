"""Shared machinery of the dep-logic verification harness.

Everything here runs under /venv/bin/python with /repo/src first on sys.path, so the
implementation side of every comparison is /repo's current working tree.
"""
from __future__ import annotations

import hashlib
import json
import os
import random
import re
import shutil
import subprocess
import sys
import time
from pathlib import Path

ROOT = Path(__file__).resolve().parent.parent          # /verif
LEAN = ROOT / "lean"
REPO = Path(os.environ.get("DEP_LOGIC_REPO", "/repo"))
WORK = ROOT / ".work" / str(os.getpid())
ALLOWED_AXIOMS = {"propext", "Classical.choice", "Quot.sound"}
TRUSTED_BASE = [
    "Lean 4.33.0 kernel",
    "axioms: propext, Classical.choice, Quot.sound only (audited by #print axioms on every run)",
    "no sorry/admit/native_decide/bv_decide/implemented_by/unsafe in lean/DepLogic (grepped on every run)",
    "hand-written Lean model of the Python code; tie = differential correspondence check (this harness)",
    "harness codec (Python object <-> protocol text <-> Lean value), the Lean driver, the diff",
    "CPython semantics of operator dispatch, dataclass __eq__/__hash__, str methods: modelled, not verified",
    "packaging 26.3 Version parsing/ordering/str and Specifier regex: modelled/trusted, tested by correspondence",
]


def setup_repo_path() -> None:
    src = str(REPO / "src")
    if src in sys.path:
        sys.path.remove(src)
    sys.path.insert(0, src)
    sys.dont_write_bytecode = True


def seed_from_env() -> int:
    try:
        return int(os.environ.get("VERIF_SEED", "0"))
    except ValueError:
        return 0


def workdir() -> Path:
    WORK.mkdir(parents=True, exist_ok=True)
    return WORK


def cleanup() -> None:
    shutil.rmtree(WORK, ignore_errors=True)
    try:
        (ROOT / ".work").rmdir()
    except OSError:
        pass


# --------------------------------------------------------------------------- Lean side

_build_state: dict[str, object] = {}


def lean_build(timeout: int = 3000) -> tuple[bool, str]:
    """`lake build` of the model, the proofs and the property theorems."""
    if "build" in _build_state:
        return _build_state["build"]  # type: ignore[return-value]
    t0 = time.time()
    # checks may run in parallel: serialise the builds (a no-op build takes ~0.3 s) so that two lake
    # processes never write the same target at once
    import fcntl
    lock_path = LEAN / ".lake-verif.lock"
    with open(lock_path, "w") as lock:
        fcntl.flock(lock, fcntl.LOCK_EX)
        try:
            p = subprocess.run(["lake", "build"], cwd=LEAN, capture_output=True, text=True, timeout=timeout)
        finally:
            fcntl.flock(lock, fcntl.LOCK_UN)
    ok = p.returncode == 0
    out = (p.stdout + p.stderr)[-4000:]
    _build_state["build"] = (ok, out)
    _build_state["build_s"] = time.time() - t0
    return ok, out


_FORBIDDEN = re.compile(
    r"\b(sorry|admit|native_decide|bv_decide|implemented_by|unsafe)\b|^\s*axiom\s|maxHeartbeats\s+0", re.M
)


def _strip_comments(text: str) -> str:
    # remove /- ... -/ (nested not needed here) and -- ... line comments
    text = re.sub(r"/-.*?-/", "", text, flags=re.S)
    text = re.sub(r"--.*", "", text)
    return text


def lean_grep_forbidden() -> list[str]:
    hits = []
    for f in sorted((LEAN / "DepLogic").rglob("*.lean")):
        body = _strip_comments(f.read_text())
        for m in _FORBIDDEN.finditer(body):
            hits.append(f"{f.relative_to(ROOT)}: {m.group(0).strip()}")
    return hits


def lean_audit(theorems: list[str]) -> dict[str, object]:
    """#print axioms for every listed theorem; returns per-theorem axiom lists."""
    wd = workdir()
    src = wd / "Audit.lean"
    src.write_text("import DepLogic\n" + "".join(f"#print axioms {t}\n" for t in theorems))
    p = subprocess.run(["lake", "env", "lean", str(src)], cwd=LEAN, capture_output=True, text=True, timeout=1800)
    out = p.stdout + p.stderr
    res: dict[str, object] = {}
    flat = re.sub(r"\s+", " ", out)
    for t in theorems:
        m = re.search(r"'" + re.escape(t) + r"' depends on axioms: \[([^\]]*)\]", flat)
        if m:
            res[t] = sorted(a.strip() for a in m.group(1).split(",") if a.strip())
        elif re.search(r"'" + re.escape(t) + r"' does not depend on any axioms", flat):
            res[t] = []
        else:
            res[t] = None  # missing / failed to elaborate
    res["_raw_tail"] = out[-1500:] if p.returncode != 0 else ""
    return res


def lean_recheck(theorems: list[str]) -> tuple[bool, str, list[str]]:
    """thorough tier: replay the compiled modules that define the registered theorems (and every proof module)
    through `leanchecker`, the toolchain's independent kernel re-checker of .olean files"""
    mods = sorted({"DepLogic.Proofs." + p.stem for p in (LEAN / "DepLogic" / "Proofs").glob("*.lean")} |
                  {"DepLogic.Properties." + p.stem for p in (LEAN / "DepLogic" / "Properties").glob("*.lean")})
    import fcntl
    with open(LEAN / ".lake-verif.lock", "w") as lock:
        fcntl.flock(lock, fcntl.LOCK_EX)
        try:
            p = subprocess.run(["lake", "env", "leanchecker"] + mods, cwd=LEAN, capture_output=True, text=True, timeout=3000)
        finally:
            fcntl.flock(lock, fcntl.LOCK_UN)
    return p.returncode == 0, (p.stdout + p.stderr)[-1500:], mods


def proof_obligations(theorems: list[str], tier: str = "quick") -> dict[str, object]:
    """Build + forbidden-token grep + axiom audit (+ leanchecker in the thorough tier). Returns a summary dict."""
    ok, out = lean_build()
    summary: dict[str, object] = {"build_ok": ok, "theorems": len(theorems), "discharged": 0, "broken": []}
    if not ok:
        summary["broken"] = [{"what": "lake build failed", "detail": out[-1500:]}]
        return summary
    hits = lean_grep_forbidden()
    if hits:
        summary["broken"] = [{"what": "forbidden token in Lean sources", "detail": hits[:10]}]
        return summary
    audit = lean_audit(theorems)
    broken = []
    n = 0
    for t in theorems:
        ax = audit.get(t)
        if ax is None:
            broken.append({"what": f"theorem {t} missing or does not check", "detail": audit.get("_raw_tail", "")})
        elif not set(ax) <= ALLOWED_AXIOMS:  # type: ignore[arg-type]
            broken.append({"what": f"theorem {t} uses foreign axioms", "detail": ax})
        else:
            n += 1
    if tier == "thorough":
        rok, rout, mods = lean_recheck(theorems)
        summary["leanchecker"] = {"ok": rok, "modules": len(mods)}
        if not rok:
            broken.append({"what": "leanchecker rejected a compiled module", "detail": rout})
    summary["discharged"] = n
    summary["broken"] = broken
    summary["axioms"] = {t: audit.get(t) for t in theorems}
    return summary


def run_driver(lines: list[str], timeout: int = 3000) -> list[str]:
    """Pipe operation lines through the Lean model driver; one answer per line."""
    ok, out = lean_build()
    if not ok:
        raise RuntimeError("lake build failed:\n" + out)
    for ln in lines:
        if "\n" in ln:
            raise ValueError("newline in op line")
    exe = LEAN / ".lake" / "build" / "bin" / "driver"
    # the compiled driver (built by `lake build`, nothing it imports touches Mathlib); interpreter as fallback
    cmd = [str(exe)] if exe.exists() else ["lake", "env", "lean", "--run", "Driver.lean"]

    def one(chunk: list[str], tag: int) -> list[str]:
        inp = workdir() / f"ops-{len(chunk)}-{tag}-{time.time_ns()}.txt"
        inp.write_text("".join(ln + "\n" for ln in chunk))
        with open(inp) as fh:
            p = subprocess.run(cmd, cwd=LEAN, stdin=fh, capture_output=True, text=True, timeout=timeout)
        inp.unlink(missing_ok=True)
        if p.returncode != 0:
            raise RuntimeError("Lean driver failed: " + (p.stderr or p.stdout)[-2000:])
        res = p.stdout.split("\n")
        if res and res[-1] == "":
            res.pop()
        if len(res) != len(chunk):
            raise RuntimeError(f"driver answered {len(res)} lines for {len(chunk)} ops")
        return res

    # the driver answers line by line and keeps no state, so a long stream is cut into interleaved chunks answered in parallel
    jobs = min(16, os.cpu_count() or 1, max(1, len(lines) // 1500))
    if jobs <= 1:
        return one(lines, 0)
    from concurrent.futures import ThreadPoolExecutor
    chunks = [lines[i::jobs] for i in range(jobs)]
    with ThreadPoolExecutor(max_workers=jobs) as ex:
        parts = list(ex.map(one, chunks, range(jobs)))
    out: list[str] = [""] * len(lines)
    for i, part in enumerate(parts):
        out[i::jobs] = part
    return out


# --------------------------------------------------------------------------- results

class Case:
    """One operation of a correspondence stream."""
    __slots__ = ("stream", "line", "impl", "nontrivial", "ctx")

    def __init__(self, stream: str, line: str, impl: str, nontrivial: bool = True, ctx=None):
        self.stream = stream
        self.line = line
        self.impl = impl
        self.nontrivial = nontrivial
        self.ctx = ctx


class Failure:
    """A concrete input on which the property fails on the real code."""

    def __init__(self, key: str, what: str, replay: dict):
        self.key = key          # canonical identification of the failing input
        self.what = what
        self.replay = replay
        self.family = None      # set by an oracle that can attribute the failure to a known call site


def load_known(prop: str) -> tuple[dict[str, dict], list[dict]]:
    path = ROOT / "known_findings.json"
    if not path.exists():
        return {}, []
    data = json.loads(path.read_text())
    known = {e.get("key") or ("family:" + e["family"]): e for e in data.get("findings", [])
             if e["property"] == prop and e["status"] == "known"}
    fixed = [e for e in data.get("findings", []) if e["property"] == prop and e["status"] == "fixed"]
    return known, fixed


class Run:
    """Collects what one check run did and produces verdict + evidence."""

    def __init__(self, prop: str, tier: str, seed: int, theorems: list[str], level_note: str = ""):
        self.prop = prop
        self.tier = tier
        self.seed = seed
        self.theorems = theorems
        self.t0 = time.time()
        self.cases: list[Case] = []
        self.failures: list[Failure] = []
        self.disagreements: list[dict] = []
        self.known_printed: list[str] = []
        self.stream_stats: dict[str, dict] = {}
        self.extra: dict[str, object] = {}
        self.exhaustive = False
        self.rule = ""
        self.assumptions: list[str] = []
        self.proof: dict[str, object] = {}
        self.rng = random.Random(seed * 1000003 + int(hashlib.sha1(prop.encode()).hexdigest()[:6], 16))
        self.shard = (0, 1)     # (index, count): the thorough tier splits its workload over worker processes

    # -- sharding ---------------------------------------------------------------------
    def set_shard(self, index: int, count: int) -> None:
        self.shard = (index, count)
        if count > 1:
            self.rng = random.Random(f"{self.seed}/{self.prop}/{index}/{count}")

    def size(self, n: int) -> int:
        """this worker's share of a random stream of n cases"""
        return -(-n // self.shard[1])

    def mine(self, idx: int) -> bool:
        """does item idx of an enumerated (exhaustive) stream belong to this worker?"""
        return idx % self.shard[1] == self.shard[0]

    @property
    def first(self) -> bool:
        return self.shard[0] == 0

    # -- correspondence -----------------------------------------------------------
    def add(self, case: Case) -> None:
        self.cases.append(case)

    def compare_with_model(self) -> None:
        if not self.cases:
            return
        outs = run_driver([c.line for c in self.cases])
        for c, o in zip(self.cases, outs):
            st = self.stream_stats.setdefault(c.stream, {"ops": 0, "disagree": 0, "distinct": set(), "nontrivial": set()})
            st["ops"] += 1
            st["distinct"].add(c.line)
            if c.nontrivial:
                st["nontrivial"].add(c.line)
            if o != c.impl:
                st["disagree"] += 1
                if len(self.disagreements) < 50:
                    self.disagreements.append({"stream": c.stream, "op": c.line, "impl": c.impl, "model": o})

    def fail(self, f: Failure) -> None:
        self.failures.append(f)

    # -- verdict ---------------------------------------------------------------------
    def finish(self) -> int:
        known, _fixed = load_known(self.prop)
        new_failures: list[Failure] = []
        seen = set()
        for f in self.failures:
            if f.key in seen:
                continue
            seen.add(f.key)
            kk = f.key if f.key in known else ("family:" + f.family if f.family else None)
            if kk in known:
                msg = f"KNOWN-FINDING: property={self.prop} {known[kk]['what']}"
                if msg not in self.known_printed:
                    self.known_printed.append(msg)
            else:
                new_failures.append(f)
        for msg in self.known_printed:
            print(msg)
        proof_broken = bool(self.proof.get("broken")) or not self.proof.get("build_ok", False)
        violations = 0
        rc = 0
        (ROOT / "replays").mkdir(exist_ok=True)
        if new_failures:
            f = new_failures[0]
            path = ROOT / "replays" / f"{self.prop}-{self.seed}-{hashlib.sha1(f.key.encode()).hexdigest()[:8]}.json"
            path.write_text(json.dumps({"property": self.prop, "what": f.what, "key": f.key, "replay": f.replay,
                                        "other_failures": [x.key for x in new_failures[1:20]],
                                        "how_to_replay": f"./check {self.prop} --replay {path.relative_to(ROOT)}"}, indent=1))
            print(f"VIOLATION property={self.prop} replay={path.relative_to(ROOT)}")
            violations = len(new_failures)
            rc = 1
        elif proof_broken or self.disagreements:
            path = ROOT / "replays" / f"{self.prop}-{self.seed}-broken-tie.json"
            path.write_text(json.dumps({"property": self.prop,
                                        "what": "proof obligation or model/implementation correspondence no longer checks; "
                                                "no concrete failing input was found on the real code",
                                        "broken_obligations": self.proof.get("broken"),
                                        "first_disagreements": self.disagreements[:10]}, indent=1))
            print(f"VIOLATION property={self.prop} replay={path.relative_to(ROOT)} no-failing-input-found")
            violations = 1
            rc = 1
        self.write_evidence(violations)
        return rc

    def write_evidence(self, violations: int) -> None:
        n_ops = len(self.cases)
        distinct_nontrivial = sum(len(s["nontrivial"]) for s in self.stream_stats.values())
        streams = {k: {"ops": v["ops"], "distinct": len(v["distinct"]), "nontrivial": len(v["nontrivial"]),
                       "disagreements": v["disagree"]} for k, v in self.stream_stats.items()}
        samples = []
        for name in self.stream_stats:
            cs = [c for c in self.cases if c.stream == name][:2]
            samples += [{"stream": name, "op": c.line, "implementation": c.impl} for c in cs]
        cov = {
            "obligations": int(self.proof.get("theorems", 0)) or len(self.theorems),
            "discharged": int(self.proof.get("discharged", 0)),
            "checker_cmd": "cd lean && lake build && lake env lean <Audit: #print axioms of each property theorem>"
                           + (" && lake env leanchecker <all DepLogic.Proofs.* and DepLogic.Properties.* modules>"
                              if self.tier == "thorough" else ""),
            "leanchecker": self.proof.get("leanchecker"),
            "trusted_base": TRUSTED_BASE,
            "theorems": self.theorems,
            "axioms": self.proof.get("axioms", {}),
            "evaluations": n_ops + int(self.extra.get("oracle_evaluations", 0)),
            "distinct_nontrivial": distinct_nontrivial,
            "rule": self.rule,
            "samples": samples[:12] or [{"note": "no correspondence stream in this run"}],
            "exhaustive": self.exhaustive,
            "streams": streams,
            "model_impl_disagreements": len(self.disagreements),
            "failing_inputs_found": len(self.failures),
            "known_findings_printed": self.known_printed,
        }
        cov.update(self.extra)
        ev = {
            "property_id": self.prop,
            "tier": self.tier,
            "seed": self.seed,
            "level": "proof",
            "coverage": cov,
            "assumptions": self.assumptions,
            "wall_s": round(time.time() - self.t0, 2),
            "violations": violations,
        }
        (ROOT / "evidence").mkdir(exist_ok=True)
        (ROOT / "evidence" / f"{self.prop}.json").write_text(json.dumps(ev, indent=1, default=str))
