"""C19 — string-atom specifier algebra."""
from __future__ import annotations

from . import core

core.setup_repo_path()

from dep_logic.specifiers import AnySpecifier, EmptySpecifier, GenericSpecifier  # noqa: E402

THEOREMS = [
    "DepLogic.C19.and_exact", "DepLogic.C19.or_exact", "DepLogic.C19.invert_exact",
    "DepLogic.C19.and_exact'", "DepLogic.C19.or_exact'",
]

OPS4 = ["==", "!=", "in", "not in"]
OPS8 = OPS4 + [">", ">=", "<", "<=", "contains", "not contains"]
OPS_TABLE = OPS4 + ["contains", "not contains", "<"]
# closed under: equal, substring, superstring, disjoint, empty string
# ... and number-like strings that differ as strings but not as numbers / versions (seed C19f: ==/!= compared numerically)
POOL_QUICK = ["", "a", "b", "ab", "abc", "bc", "linux", "lin", "linux darwin", "darwin", "win32", "x", "3.8", "3.08", "10", "010"]
POOL_EXTRA = ["nux", "linux2", "Linux", " ", "a b", "b a", "cpython", "python", "py", "cp", "1.0", "1.0.0"]


def enc_res(r) -> str:
    if isinstance(r, EmptySpecifier):
        return "E"
    if isinstance(r, AnySpecifier):
        return "A"
    if isinstance(r, GenericSpecifier):
        return f"S\t{r.op}\t{r.value}"
    return f"other:{type(r).__name__}"


def do(f):
    try:
        return enc_res(f())
    except NotImplementedError:
        return "NI"
    except Exception as e:  # noqa: BLE001
        return "raise:" + type(e).__name__


def member(obj, cand: str):
    try:
        return "T" if (cand in obj) else "F"
    except Exception as e:  # noqa: BLE001
        return "raise:" + type(e).__name__


def run(run: core.Run) -> None:
    pool = POOL_QUICK + (POOL_EXTRA if run.tier == "thorough" else [])
    run.rule = ("every ordered pair of (operator, literal) over 4 operators (and the 4 ordering operators for ~ and "
                "membership) x literal pool closed under equal/substring/superstring/disjoint/empty; every pool string "
                "as candidate; non-trivial = operands differ (the table, not the `self == other` shortcut, decides)")
    run.exhaustive = True
    n_oracle = 0
    # membership of single specifiers and inverts: all 8 operators
    for op in OPS8:
        for v in pool:
            g = GenericSpecifier(op, v)
            run.add(core.Case("invert", f"g.inv\t{op}\t{v}", do(lambda: ~g)))
            inv = ~g
            for c in pool:
                run.add(core.Case("member", f"g.in\t{op}\t{v}\t{c}", member(g, c)))
                n_oracle += 1
                if (c in inv) == (c in g):
                    run.fail(core.Failure(f"inv|{op}|{v}|{c}", f"~({op} {v!r}) wrong on {c!r}",
                                          {"op": "invert", "spec": [op, v], "candidate": c}))
    for c in pool:
        run.add(core.Case("member-special", f"g.rin\tE\t{c}", member(EmptySpecifier(), c)))
        run.add(core.Case("member-special", f"g.rin\tA\t{c}", member(AnySpecifier(), c)))
        n_oracle += 2
        if c in EmptySpecifier():
            run.fail(core.Failure(f"in-empty|{c}", f"{c!r} in EmptySpecifier() is True", {"op": "in-empty", "candidate": c}))
        if c not in AnySpecifier():
            run.fail(core.Failure(f"in-any|{c}", f"{c!r} in AnySpecifier() is False", {"op": "in-any", "candidate": c}))
    for o1 in OPS_TABLE:
        for v1 in pool:
            a = GenericSpecifier(o1, v1)
            for o2 in OPS_TABLE:
                for v2 in pool:
                    b = GenericSpecifier(o2, v2)
                    nontriv = (o1, v1) != (o2, v2)
                    for name, f, comb in (("and", lambda: a & b, lambda x, y: x and y),
                                          ("or", lambda: a | b, lambda x, y: x or y)):
                        out = do(f)
                        run.add(core.Case(name, f"g.{name}\t{o1}\t{v1}\t{o2}\t{v2}", out, nontriv))
                        if out == "NI":
                            continue
                        if out.startswith("raise") or out.startswith("other"):
                            run.fail(core.Failure(f"{name}|{o1}|{v1}|{o2}|{v2}", f"{name} raised/returned {out}",
                                                  {"op": name, "a": [o1, v1], "b": [o2, v2]}))
                            continue
                        res = f()
                        for c in pool:
                            n_oracle += 1
                            try:
                                got = c in res
                            except Exception:  # noqa: BLE001
                                got = None
                            want = comb(c in a, c in b)
                            if got != want:
                                run.fail(core.Failure(
                                    f"{name}|{o1}|{v1}|{o2}|{v2}|{c}",
                                    f"({o1} {v1!r}) {name} ({o2} {v2!r}) = {res!r}: membership of {c!r} is {got}, expected {want}",
                                    {"op": name, "a": [o1, v1], "b": [o2, v2], "candidate": c}))
    run.extra["oracle_evaluations"] = n_oracle


def replay(data: dict) -> bool:
    """re-execute a replay entry on the real code; True if it still fails"""
    r = data["replay"]
    c = r.get("candidate")
    if r["op"] == "in-empty":
        return c in EmptySpecifier()
    if r["op"] == "in-any":
        return c not in AnySpecifier()
    if r["op"] == "invert":
        g = GenericSpecifier(*r["spec"])
        return (c in ~g) == (c in g)
    a = GenericSpecifier(*r["a"])
    b = GenericSpecifier(*r["b"])
    try:
        res = (a & b) if r["op"] == "and" else (a | b)
    except NotImplementedError:
        return False
    if c is None:
        return True
    want = ((c in a) and (c in b)) if r["op"] == "and" else ((c in a) or (c in b))
    return (c in res) != want
