#!/usr/bin/env python3
"""Regenerates MANIFEST.json from the table below (kept next to the checks so they stay in step)."""
import json
from pathlib import Path

ROOT = Path(__file__).resolve().parent.parent
NOTE = ("Trusted: Lean 4.33 kernel; axioms propext/Classical.choice/Quot.sound only (audited per run); the "
        "hand-written model is tied to /repo by the differential correspondence check in harness/ (codec, Lean "
        "driver, diff are trusted); CPython dispatch/dataclass semantics and packaging's Version/Specifier "
        "parsing are modelled, not verified.")

CHECKS = {
    "C19": dict(
        text="Lean theorems C19.and_exact / or_exact / invert_exact: for every operator pair, every literal, every "
             "candidate string and every meaning of `in`, a defined result of the case table has exactly the "
             "conjunction/disjunction/complement meaning. The model (Model/Generic.lean) mirrors generic.py and "
             "special.py branch for branch and is compared with the real classes on the complete operator x literal-pool "
             "grid (exhaustive), including membership in the Empty/Any results.",
        technique="Lean 4 proof over a hand-written model + exhaustive differential correspondence",
        design_ref="6/C19"),
}

CHECKS.update({
    "C01": dict(
        text="Lean theorems C01.and_exact / or_exact / invert_exact / reach_canon / main: over ANY linear preorder of "
             "bounds (so any PEP 440 shape), the model of range.py/union.py/special.py (same branches, same operand "
             "returned, CPython operator dispatch) computes exact intersection, union (never crashing on canonical "
             "operands) and complement, and canonical shape is preserved, hence for everything reachable. The model is "
             "compared structurally with the real classes on every ordered pair of canonical interval sets over 3 points "
             "(order-type exhaustive, 16384 pairs x 2 operators + all inverts) with bounds drawn from 57 version shapes, "
             "and on random expressions over parsed clause sets.",
        technique="Lean 4 proof over a generic-order model + order-type-exhaustive structural correspondence",
        design_ref="6/C01"),
    "C05": dict(
        text="Lean: results_canonical (shape, any linear preorder); isEmpty_sound / isAny_sound; isEmpty_exact / isAny_exact on dense "
             "unbounded orders; and for EVERY linear preorder, PEP 440 included, exactness over cuts (the positions at / just below / "
             "just above a bound = membership read structurally from the bounds): eq_exact (`==` between canonical results holds "
             "exactly when they denote the same cuts; from Spec.canon_unique, uniqueness of canonical forms), isEmpty_exact_cuts, "
             "isAny_exact_cuts, eq_sound (equal objects admit the same versions). For versions alone completeness of is_empty "
             "fails on PEP 440 gaps: recorded known finding G1. The model's `==`/Canon are compared with the implementation on the "
             "order-type grid (result == canonical object of the expected set, != a neighbour) and on random expressions.",
        technique="Lean 4 proof (canonical-form uniqueness over the cut extension of any order) + exhaustive structural correspondence",
        design_ref="0.2, 6/C05"),
    "C06": dict(
        text="Token-level Lean model of rendering (_simplified_form/__str__ of range.py and union.py) and parsing "
             "(_from_pkg_specifier, from_specifierset, the || fold). Proved for EVERY canonical object (C06.roundtrips): what str() "
             "denotes re-parses to an object == to the original, both ways round - cached clause texts, <=V / >V / ==V, >=A,<B, the "
             "~= heuristic (compat_render: when ~=A is chosen for [A,B) with B final, B IS the next series of A), !=V, !=X.* "
             "(wild_render) and the ||-joined form (by uniqueness of canonical forms over cuts). Hypotheses: NoD4a - the property "
             "as stated is FALSE of the code for [X.Y,(X+1).0.postN), rendered ~=X.Y (postrelease_counterexample; pinned by the "
             "repository's tests: known finding D4a) - and TextOk (a cached clause parses to its object; true of what the parser and "
             "operators build). Characters <-> clauses is packaging's and is decided differentially: str() and re-parse of every "
             "reachable object are compared with the model and checked with the real ==.",
        technique="Lean 4 proof (token-level round trip for all canonical objects) + counterexample theorem + differential correspondence of str/parse",
        design_ref="0.2, 6/C06"),
    "C04": dict(
        text="Lean: leaf_exact (for EVERY operator incl. ~=, ==X.*, !=X.*: PEP 440 match of a final candidate = membership in the "
             "bounds _from_pkg_specifier builds), tree_exact (any &,|,~ expression over canonical leaves never crashes and admits "
             "exactly the Boolean combination of its leaves; from C01), contains_exact (the contains() path - render, then ask "
             "packaging - equals `in` for every nice object and every final release; from C06's round trip + the leaf theorem; "
             "without niceness it is false: known finding D4a). Differential: the Lean reference matcher vs installed packaging on "
             "leaves x finals, and `v in result` / result.contains(v) vs the Boolean combination of packaging's answers, both also "
             "compared with the model.",
        technique="Lean 4 proof (leaves, algebra, contains path) + differential correspondence against packaging",
        design_ref="0.2, 6/C04"),
    "C17": dict(
        text="Lean: fromClause_total / fromSpecifierSet_total - on every clause packaging's grammar accepts, the translation "
             "to ranges cannot fail (the repaired defect D5), so no exception other than InvalidSpecifier is reachable from "
             "the model. Which strings packaging accepts is a parameter (trusted); the differential stream compares the "
             "outcome class with SpecifierSet on grammar-generated valid sets and near-miss strings, plus a metamorphic "
             "normalised-spelling check and structural comparison with the model.",
        technique="Lean 4 totality proof + grammar-based differential testing of acceptance",
        design_ref="6/C17"),
})

CHECKS.update({
    "C08": dict(
        text="Lean: evalPyCore_iff (the branchy _evaluate_python equals the rule: gates pass, the tag pair denotes a version "
             "range w, and w & requires_python is not reported empty), compatible_of_exists (a version admitted by "
             "requires_python inside w forces acceptance: no false rejection, via C01/C05), exists_of_compatible (dense "
             "line: an accepted wheel has a common version; exists_cut_of_compatible: for any order, a common cut), "
             "wheelSpec_reads (the specifier built for the tag pair admits a final interpreter version exactly when PEP 425's "
             "reading of the tag does: cpXY = release starts with X.Y, pyXY = same major and >= X.Y, abi3 = >= X.Y; via C04's leaf "
             "theorem for >= and ==V.*), score_shape; EnvSpec.compatibility itself: maxScore_spec, compatibility_score (the best "
             "loadable python x abi combination and the best accepted platform tag), compatibility_none, compatibility_perm "
             "(the verdict depends on the SETS of tags only). The model (Model/Tags.lean, string slicing "
             "included) is compared with EnvSpec._evaluate_python on the complete python x abi tag universe for majors 2-3 / "
             "minors 0-20 under every implementation setting and 16 (quick) / 120 (thorough) requires_python shapes; an "
             "independent PEP 425/3149/703 rule oracle decides each case on the real code.",
        technique="Lean 4 proof (rule equivalence + soundness via the interval algebra) + exhaustive tag-universe correspondence",
        design_ref="6/C08"),
    "C09": dict(
        text="Lean: membership characterisation of compatible_tags for manylinux (every K from the arch floor to the target "
             "minor plus the legacy alias of K, linux_<arch>), musllinux (1<=K<=minor), macOS arm64 / x86_64 (10.x and >=11) "
             "and Windows, for EVERY minor/major (induction over the descending loops), and strict newest-first order of the "
             "manylinux list with each legacy alias directly after its PEP 600 twin. The model is compared with "
             "Platform.compatible_tags on the whole OS x arch grid (exhaustive); an independent rule oracle and packaging.tags "
             "(probes stubbed) decide each case on the real code.",
        technique="Lean 4 proof by induction over the generation loops + exhaustive grid correspondence",
        design_ref="6/C09"),
    "C16": dict(
        text="Lean: widen_keeps (on a dense version line a wider requires_python keeps every accepted wheel; via C01/C05), "
             "widen_keeps_cuts / widen_or_keeps (the same for ANY order of bounds, PEP 440 included: widening by `|`, or to any "
             "specifier admitting at least the same cuts, never loses a wheel), "
             "and_isEmpty_comm (the emptiness test is operand-order independent, structurally), compare_refl, "
             "compare_incompatible_symm, compare_not_higher_both, manylinux_nested, platCompare_nested / compare_nested "
             "(LOWER_OR_EQUAL / HIGHER between ANY two platforms of the model - every family, release and architecture, the "
             "unordered BSD / generic classes included - implies nested tag sets, under the documented release lines: "
             "SameLine; nested_needs_sameLine shows the hypothesis is needed), compatibility_widen (through the public "
             "function: a wider requires_python keeps every accepted wheel, same platform score, python score not worse). "
             "The model of EnvSpec.compare/compatibility is compared with the real code on all ordered pairs of a 60-spec "
             "(quick) / 250-spec grid; the laws, the nestedness and the widening claim are evaluated on the real objects.",
        technique="Lean 4 proof + pairwise grid correspondence",
        design_ref="6/C16"),
    "C18": dict(
        text="Lean (character level): wheel_roundtrip - for every name of 5 or 6 dash-free components + `.whl`, parse_wheel_tags "
             "returns exactly the python/abi/platform fields split on `.`, the build tag skipped; bad_extension, bad_part_count; "
             "the documented platform aliases; platform_roundtrip - Platform.parse(str(p)) == p for every platform of the "
             "documented families (manylinux / musllinux / macos X_Y with every X, Y, windows; the arm64 / amd64 spellings), "
             "down to int(str(n)) = n and the _platform_major_minor_re lexing. Differential: all X,Y in 0..99 in the thorough "
             "tier and agreement with packaging.utils.parse_wheel_filename on generated names tie the character model to the code.",
        technique="Lean 4 proof on character lists + differential testing against packaging",
        design_ref="0.2, 6/C18"),
})

CHECKS.update({
    "C02": dict(
        text="Lean: C02.and_sound_final / or_sound_final (and and_sound / or_sound / isEmpty_sound / isAny_sound / rewriting_sound) - for "
             "EVERY fuel (whether or not the fixpoint loops ran to completion), every environment that binds its variables "
             "PEP 508-style (EnvTotal: final interpreter versions, python_version = major.minor of python_full_version; a concrete "
             "instance is proved, env0_total) and all markers over atoms of the well-defined classes, `&`/`|` are satisfied exactly "
             "when both/either operand is; proved through the whole engine (MultiMarker.of / MarkerUnion.of fixpoints, "
             "union_simplify / intersect_simplify, cnf/dnf, least-complexity choice in union()) on top of the single-marker layer "
             "(string case table from C19, grouped ==/!= atoms, extra, set-valued extras) and the Python-version bridge: "
             "fromSpecOk_of_lex (from_specifier builds an atom that means the specifier: C06 round trip + C04 leaf theorem + "
             "C11 coherence) and pyMergeOk_of_fromSpec (python_version/python_full_version merge; pyNorm_sem), including the "
             "character-level facts they rest on: lexPrint_final (the operand text from_specifier writes is read back as its clause: "
             "int(str(n)) = n, Version of a rendered release, operator and .* lexing) and lexNorm_final (the string surgery of "
             "_normalize_python_version_specifier - split, drop trailing 0 segments, pad, int()+1, join, re-parse - computes the "
             "structured normalisation). No assumption is left beyond EnvTotal and Good atoms (specifier views over plain final "
             "releases; with post-release bounds the property is false of the code: known finding D4a reaches markers). The model is compared structurally with the real classes on the exhaustive "
             "single-layer pool grid, targeted python_version streams and random marker pairs; evaluate() of every result is "
             "judged against the operands on literal-derived environments.",
        technique="Lean 4 proof (engine induction for every fuel; bridge facts proved down to characters) "
                  "over a hand-written model + structural differential correspondence",
        design_ref="0.2, 6/C02"),
    "C03": dict(
        text="Lean: C03.build_sound - the tree parse_marker builds from packaging's parsed list (operand reflection, `and` folded "
             "through &, `or` groups through MarkerUnion.of, i.e. through all parse-time rewriting) is satisfied exactly when "
             "the reference any(all(group)) evaluation of that list is, for every list, fuel and environment. That one atom "
             "evaluates as packaging evaluates it is NOT proved: it is decided by running parse_marker(text).evaluate(env) "
             "against packaging's Marker(text).evaluate(env) on generated texts x literal-derived environments, together with "
             "the correspondence of Atom.eval with _evaluate.",
        technique="Lean 4 proof of the tree-building step + differential testing of atom evaluation against packaging",
        design_ref="6/C03"),
    "C07": dict(
        text="Lean: C07.items_sem - the token list that the text of a marker denotes (parenthesisation of MultiMarker/"
             "MarkerUnion.__str__, re-rendered atoms incl. literal-on-the-left, grouped ==/!= atoms) evaluates, under the PEP 508 "
             "reference evaluation, to the marker's meaning; C07.reparse_sound - whatever _build_markers rebuilds from that list "
             "(through all parse-time merging; C03.build_sound) means what the marker means; str_empty_any. For every printable "
             "marker over good atoms, every environment, every fuel covering the nesting depth. The text level, down to characters: "
             "read_quote (for EVERY string, what _quote writes is one QUOTED_STRING token that the Python-literal reader turns "
             "back into the value), atom_text (every atom over the environment-variable names, any operator / operand order / "
             "value, is read by _parse_marker_item as its own triple), nested_text (units joined by and/or with parentheses to "
             "any depth), toSeq_spec / text_roundtrip_printable (for every printable marker the model of packaging's parser "
             "reads str(m) as exactly items m) and str_reparse_final (characters -> parser -> _build_markers evaluates like m: "
             "C07 end to end inside the model). The ~100-line model of packaging's tokenizer / parser / ast.literal_eval "
             "(Model/Quote.lean, Model/MarkerText.lean) is compared with packaging's own code on every run (streams C07.text, "
             "C07.atom, C07.read, C07.quote), as are acceptance by parse_marker and packaging and evaluate() of the re-parsed "
             "marker on literal-derived environments.",
        technique="Lean 4 proof from characters to meaning over a hand-written model of _quote, packaging's marker parser and _build_markers + differential correspondence of each of the three with the real code",
        design_ref="0.2, 6/C07"),
    "C10": dict(
        text="Lean: C10.call_ok / history_transparent / probe_independent (and callN_ok / history_transparent_tuple for caches keyed by a "
             "TUPLE of markers, as _merge_single_markers / intersection / union are) - in a model where every atom carries the cached "
             "specifier the code would compute (WF), any history of prior calls leaves later results unchanged; "
             "not_transparent_without_wf shows the hypothesis is what the caches must guarantee. The implementation is checked "
             "against that: each expression is evaluated cold (fresh subprocess), warm (after unrelated histories sharing "
             "atoms) and in twin order; results are compared structurally with each other and with the cache-free model.",
        technique="Lean 4 proof over a cache-free model + differential warm/cold/twin-history correspondence",
        design_ref="6/C10"),
    "C11": dict(
        text="Lean, atom -> specifier: C11.coherent_plain / coherent_clean / coherent_reversed - for comparison, ~= and wildcard atoms "
             "on python_version / python_full_version / platform_release (either operand order) the specifier view admits the "
             "environment's (final) version exactly when _evaluate is true (C04's leaf theorem for every operator, C01). "
             "Specifier -> atom: M.fromSpecOk_of_lex - for every canonical specifier without post-release bounds, from_specifier "
             "returns None or a marker of good atoms satisfied exactly when the version is admitted (C06's round trip for every "
             "rendering incl. ~= and !=X.*, zero padding of python_full_version operands, coherence of the new atom). "
             "python_version vs python_full_version: pyNorm_sem (`op A.B` on X.Y holds iff the normalised clause holds on X.Y.Z: "
             "== -> A.B.*, > -> >= A.(B+1), <= -> < A.(B+1)), normGood_of_lex, pyMergeOk_of_fromSpec. Character level: "
             "lexOne_of_clean, lexPrint_final, lexNorm_final are theorems (Proofs/LexLemmas.lean, LexNorm.lean); what remains "
             "modelled rather than proved is that the Lean character functions are what CPython's str methods and packaging's "
             "regexes do. in/not in lists disagree with PEP 508's substring reading (known finding G2). Differential: "
             "every atom x interpreter grid compares `v in marker.specifier` with evaluate(), and from_specifier output with the "
             "specifier, structurally and by evaluation.",
        technique="Lean 4 proof (both directions, down to characters) + exhaustive-grid differential testing",
        design_ref="0.2, 6/C11"),
    "C12": dict(
        text="Lean: C12.only_mentions / only_implied / only_same / exclude_mentions / exclude_implied / exclude_same_partial for "
             "every fuel and marker over good atoms (the variable-tracking single-layer invariant singleSound_names carried "
             "through the engine induction); exclude_same needs `NoVanish` (no conjunct re-normalises to Empty) in general; it is PROVED "
             "(noVanish_dnf, noVanish_cnf) on disjunctive shapes (what parse_marker and & return) and on conjunctions of single "
             "markers and non-empty disjunctions of single markers (the factored form | may choose), so there the clause holds "
             "outright at every fuel: exclude_same_dnf / exclude_same_cnf - exclude_same_needs_noVanish is the counterexample on a constructor-built marker, replayed "
             "on the implementation. Differential: only()/exclude()/without_extras() on random markers x variable subsets "
             "(and constructor-built, not-in-normal-form trees) compared structurally with the model; mentions/implication/"
             "identity judged on the real results.",
        technique="Lean 4 proof + structural differential correspondence (incl. raw-constructor trees)",
        design_ref="6/C12"),
    "C13": dict(
        text="Lean: C13.spec_refl / spec_symm / spec_trans / spec_hash / spec_interchangeable (Python == on specifier objects is "
             "an equivalence compatible with hash and with &,|,~), eq_of_beq / marker_equivalence / marker_congruence / "
             "marker_eval_congr (== on markers is structural identity of the modelled fields, hence a congruence for every "
             "operation and for evaluation). The implementation's __eq__/__hash__ are compared with the model's beq on pairs "
             "of reachable objects, and equal objects are checked interchangeable as operands.",
        technique="Lean 4 proof + differential correspondence of ==/hash",
        design_ref="6/C13"),
    "C14": dict(
        text="Lean: specifiers - all 15 laws (commutativity, associativity, idempotence, both absorptions, both distributivities, "
             "involution, both De Morgan laws, a & ~a IS EmptySpecifier(), a | ~a is_any()) as equalities of the RETURNED OBJECTS "
             "(model of Python ==) for canonical operands over any linear preorder of bounds (C14.obj_*), via uniqueness of "
             "canonical forms over the cut extension and commutation of the operators with order embeddings; also as equality of "
             "admitted sets for arbitrary objects (spec_*_mem). Markers - commutativity, associativity, idempotence, absorption, "
             "distributivity up to equivalence for every fuel (corollaries of C02). Every law is also evaluated with the real == / "
             "evaluate() on ALL ordered pairs of canonical objects over 3 points (two-operand laws, one-operand laws on each result, "
             "associativity with fixed thirds), random reachable triples and marker pools, and the results are "
             "compared structurally with the model.",
        technique="Lean 4 proof (laws as object equalities / up to meaning) + law evaluation on the implementation over exhaustive/random triples",
        design_ref="0.2, 6/C14"),
    "C15": dict(
        text="PARTIAL proof. Lean: flatten_nodup / mkMulti_nodup / mkUnion_nodup (constructors never keep equal children), "
             "multiOf_exit / unionOfList_exit (of() returns Empty/Any, a member of its final list, or the constructor on a final "
             "list of >= 2 entries without the absorbing element), and_neutral / or_neutral; the FULL normal form for flat operands at "
             "every fuel, whether or not the loops converged: multiOf_flat / unionOfList_flat (single markers), multiOf_son / "
             "unionOfList_sox (+ universal marker), multiOf_atomic / unionOfList_atomic (ANY list of empty / universal / single "
             "markers), and through the public operations and_flat / or_flat, exclude_flat_* / exclude_atomic_*, only_flat* / "
             "only_atomic_*, build_flat_conj / build_flat_disj; unionOfList_not_empty / multiOf_not_any (the loops never delete). "
             "For mixed operands (disjunctions of conjunctions and deeper) the rest of the normal-form "
             "invariant passes through fuel-bounded fixpoint loops for which we have no termination measure, so it is decided "
             "by the normal-form oracle on every implementation result (parse, &, |, only, exclude, Empty/Any operands, "
             "complement patterns, constructor-built trees) and their structural correspondence with the model.",
        technique="Lean 4 proof for flat operands (every fuel) + partial proof (dedup, exit shapes) beyond + normal-form oracle and structural correspondence on every result",
        design_ref="6/C15"),
})

ALL = [f"C{n:02d}" for n in range(1, 20)]
PENDING_REASON = "check under construction in this round; not claimed yet"


def main():
    checks = []
    for pid, c in CHECKS.items():
        checks.append({
            "property_id": pid,
            "quick_cmd": f"./check {pid} --tier quick",
            "thorough_cmd": f"./check {pid} --tier thorough",
            "evidence_file": f"evidence/{pid}.json",
            "replay_cmd_template": f"./check {pid} --replay {{path}}",
            "engine": "lean-model+correspondence",
            "level_claimed": {"category": "proof", "text": c["text"], "design_ref": c["design_ref"]},
            "level_note": c.get("note", NOTE),
            "technique": c["technique"],
        })
    manifest = {
        "version": 1,
        "setup_cmd": "cd lean && lake build",
        "hooks": {
            "guard": "DEP_LOGIC_VERIF",
            "enable": "no hooks are needed: the harness imports /repo/src in-process and reaches private helpers directly",
            "baseline_off_cmd": "tools/baseline.sh",
            "source_commits": [],
            "add_only": True,
        },
        "engines": [{
            "name": "lean-model+correspondence",
            "path": "lean/ (model, proofs, property theorems, Driver.lean) + harness/ (generators, codec, diff, search)",
            "serves_properties": sorted(CHECKS),
            "kind_free_text": "Lean 4 machine-checked theorems about a hand-written executable model; differential "
                              "correspondence of the model with the implementation over generated/exhaustive inputs",
        }],
        "checks": checks,
        "not_applicable": [{"property_id": p, "reason": PENDING_REASON} for p in ALL if p not in CHECKS],
        "notes": "See DESIGN.md. known_findings.json lists genuine defects (fixed by `fix:` commits in /repo, or known).",
    }
    (ROOT / "MANIFEST.json").write_text(json.dumps(manifest, indent=1) + "\n")


if __name__ == "__main__":
    main()
