#!/usr/bin/env python3
"""Regenerates MANIFEST.json from the table below (kept next to the checks so they stay in step)."""
import json
from pathlib import Path

ROOT = Path(__file__).resolve().parent.parent
NOTE = ("Trusted: Lean 4.33 kernel; axioms propext/Classical.choice/Quot.sound only (audited per run); the "
        "hand-written model is tied to /repo by the differential correspondence check in harness/ (codec, Lean "
        "driver, diff are trusted); CPython dispatch/dataclass semantics and packaging's Version/Specifier "
        "parsing are modelled, not verified.")

CHECKS = {
    "C19": dict(
        text="Lean theorems C19.and_exact / or_exact / invert_exact: for every operator pair, every literal, every "
             "candidate string and every meaning of `in`, a defined result of the case table has exactly the "
             "conjunction/disjunction/complement meaning. The model (Model/Generic.lean) mirrors generic.py and "
             "special.py branch for branch and is compared with the real classes on the complete operator x literal-pool "
             "grid (exhaustive), including membership in the Empty/Any results.",
        technique="Lean 4 proof over a hand-written model + exhaustive differential correspondence",
        design_ref="6/C19"),
}

ALL = [f"C{n:02d}" for n in range(1, 20)]
PENDING_REASON = "check under construction in this round; not claimed yet"


def main():
    checks = []
    for pid, c in CHECKS.items():
        checks.append({
            "property_id": pid,
            "quick_cmd": f"./check {pid} --tier quick",
            "thorough_cmd": f"./check {pid} --tier thorough",
            "evidence_file": f"evidence/{pid}.json",
            "replay_cmd_template": f"./check {pid} --replay {{path}}",
            "engine": "lean-model+correspondence",
            "level_claimed": {"category": "proof", "text": c["text"], "design_ref": c["design_ref"]},
            "level_note": c.get("note", NOTE),
            "technique": c["technique"],
        })
    manifest = {
        "version": 1,
        "setup_cmd": "cd lean && lake build",
        "hooks": {
            "guard": "DEP_LOGIC_VERIF",
            "enable": "no hooks are needed: the harness imports /repo/src in-process and reaches private helpers directly",
            "baseline_off_cmd": "tools/baseline.sh",
            "source_commits": [],
            "add_only": True,
        },
        "engines": [{
            "name": "lean-model+correspondence",
            "path": "lean/ (model, proofs, property theorems, Driver.lean) + harness/ (generators, codec, diff, search)",
            "serves_properties": sorted(CHECKS),
            "kind_free_text": "Lean 4 machine-checked theorems about a hand-written executable model; differential "
                              "correspondence of the model with the implementation over generated/exhaustive inputs",
        }],
        "checks": checks,
        "not_applicable": [{"property_id": p, "reason": PENDING_REASON} for p in ALL if p not in CHECKS],
        "notes": "See DESIGN.md. known_findings.json lists genuine defects (fixed by `fix:` commits in /repo, or known).",
    }
    (ROOT / "MANIFEST.json").write_text(json.dumps(manifest, indent=1) + "\n")


if __name__ == "__main__":
    main()
