#!/usr/bin/env python3
"""Re-run every seeded change against its own property's quick check (each in its own scratch worktree of /repo,
selected through DEP_LOGIC_REPO, so nothing in /repo is touched).  Prints one line per seed; exit 0 iff all are caught
with a concrete failing input.  Afterwards re-run the quick checks on /repo: evidence files are overwritten here."""
import json
import os
import subprocess
import sys
from concurrent.futures import ThreadPoolExecutor
from pathlib import Path

ROOT = Path(__file__).resolve().parent.parent
SCR = Path(os.environ.get("SEED_SCRATCH", "/tmp/scratch/seeds"))


def one(seed: str):
    wt = SCR / seed
    subprocess.run(["git", "-C", "/repo", "worktree", "remove", "--force", str(wt)], capture_output=True)
    p = subprocess.run(["git", "-C", "/repo", "worktree", "add", "--detach", str(wt), "HEAD"], capture_output=True, text=True)
    if p.returncode != 0:
        return seed, "worktree-failed", p.stderr[-200:]
    try:
        p = subprocess.run(["git", "-C", str(wt), "apply", str(ROOT / "seeded" / seed / "patch.diff")], capture_output=True, text=True)
        if p.returncode != 0:
            return seed, "patch-does-not-apply", p.stderr[-300:]
        env = dict(os.environ, DEP_LOGIC_REPO=str(wt))
        p = subprocess.run(["./check", seed[:3], "--tier", "quick"], cwd=ROOT, env=env, capture_output=True, text=True, timeout=3000)
        v = [l for l in p.stdout.splitlines() if l.startswith("VIOLATION")]
        verdict = "caught" if (p.returncode == 1 and v and "no-failing-input-found" not in v[0]) else \
                  ("tie-only" if p.returncode == 1 else f"MISSED(rc={p.returncode})")
        return seed, verdict, (v[0] if v else "")
    finally:
        subprocess.run(["git", "-C", "/repo", "worktree", "remove", "--force", str(wt)], capture_output=True)


def main():
    seeds = sorted(d.name for d in (ROOT / "seeded").iterdir() if (d / "patch.diff").exists())
    if len(sys.argv) > 1:
        seeds = sys.argv[1:]
    SCR.mkdir(parents=True, exist_ok=True)
    bad = 0
    with ThreadPoolExecutor(max_workers=6) as ex:
        for seed, verdict, info in ex.map(one, seeds):
            print(seed, verdict, info)
            bad += verdict != "caught"
    return 1 if bad else 0


if __name__ == "__main__":
    sys.exit(main())
