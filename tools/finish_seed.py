import json,sys,shutil,subprocess,os
sid, needs = sys.argv[1], sys.argv[2]
p=f'/verif/seeded/{sid}/meta.json'
m=json.load(open(p))
m['needs_to_manifest']=needs
m['produced_by']=(sys.argv[3] if len(sys.argv) > 3 else "independent sub-agent (second hunt round + seed) given only the property text, the list of already known families, and a scratch worktree")
json.dump(m,open(p,'w'),indent=1)
prop=sid[:3]
h=f'/tmp/wt/{sid}/hunt_{prop}.py'
if os.path.exists(h): shutil.copy(h,f'/verif/hunts/hunt_{prop}_round2.py')
subprocess.run(['git','-C','/repo','worktree','remove','--force',f'/tmp/wt/{sid}'])
print(sid, m['confirmed'], m['detected_by'])
