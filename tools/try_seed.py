#!/usr/bin/env python3
"""Confirm a seeded change and run checks against it.

  tools/try_seed.py <seed-id> <worktree> <property> [more properties...]

1. in the agent's worktree (patch applied): test-suite unchanged, demo fails; patch reverted: demo passes
2. copy patch.diff + demo into /verif/seeded/<seed-id>/
3. run `./check P` for each listed property against the worktree (DEP_LOGIC_REPO), leaving /repo untouched
4. write seeded/<seed-id>/meta.json
"""
import json
import os
import shutil
import subprocess
import sys
from pathlib import Path

ROOT = Path(__file__).resolve().parent.parent


def sh(cmd, cwd=None, env=None, timeout=3000):
    p = subprocess.run(cmd, shell=True, cwd=cwd, env=env, capture_output=True, text=True, timeout=timeout)
    return p.returncode, (p.stdout + p.stderr)


def main():
    seed, wt = sys.argv[1], Path(sys.argv[2])
    props = sys.argv[3:]
    prop0 = props[0]
    env = dict(os.environ, PYTHONPATH=str(wt / "src"), PYTHONHASHSEED="0")
    demo = next(wt.glob("demo_*.py"))
    patch = wt / "patch.diff"
    meta = {"seed": seed, "breaks_property": prop0, "ran": []}
    old_meta = ROOT / "seeded" / seed / "meta.json"
    prev = json.loads(old_meta.read_text()) if old_meta.exists() else {}
    # 1. with the patch
    rc, out = sh(f"/venv/bin/python -m pytest -q -p no:cacheprovider 2>&1 | tail -3", cwd=wt, env=env)
    meta["testsuite_with_patch"] = out.strip().splitlines()[-1] if out.strip() else ""
    rc1, out1 = sh(f"timeout 600 /venv/bin/python {demo.name}", cwd=wt, env=env)
    meta["demo_with_patch_rc"] = rc1
    sh("git apply -R patch.diff", cwd=wt)
    rc0, out0 = sh(f"timeout 600 /venv/bin/python {demo.name}", cwd=wt, env=env)
    meta["demo_without_patch_rc"] = rc0
    sh("git apply patch.diff", cwd=wt)
    ok = ("2 failed, 2477 passed" in meta["testsuite_with_patch"]) and rc1 != 0 and rc0 == 0
    meta["confirmed"] = ok
    print("confirmed:", ok, meta["testsuite_with_patch"], "demo rc with/without:", rc1, rc0)
    if not ok:
        print(out1[-1500:])
        print(json.dumps(meta, indent=1))
        return 1
    d = ROOT / "seeded" / seed
    d.mkdir(parents=True, exist_ok=True)
    shutil.copy(patch, d / "patch.diff")
    shutil.copy(demo, d / demo.name)
    # 3. against /repo
    # the checks read the tree named by DEP_LOGIC_REPO: the agent's worktree with the patch applied (nothing in /repo is touched)
    rc, out = sh(f"git -C /repo diff --quiet HEAD -- src && git -C {wt} diff HEAD -- src | diff -q - {d / 'patch.diff'}")
    if rc != 0:
        print("worktree diff differs from patch.diff or /repo is dirty:", out)
        return 1
    cenv = dict(os.environ, DEP_LOGIC_REPO=str(wt))
    try:
        for p in props:
            rc, out = sh(f"./check {p} --tier quick", cwd=ROOT, env=cenv)
            lines = [l for l in out.splitlines() if l.startswith("VIOLATION") or l.startswith("KNOWN-FINDING")]
            replay = None
            for l in lines:
                if l.startswith("VIOLATION") and "replay=" in l:
                    rp = ROOT / l.split("replay=")[1].split()[0]
                    try:
                        replay = json.loads(rp.read_text()).get("what")
                    except Exception:
                        pass
            meta["ran"].append({"check": f"./check {p} --tier quick", "exit": rc,
                                "verdict": [l[:160] for l in lines if l.startswith("VIOLATION")], "what": (replay or "")[:400]})
            print(p, "exit", rc, [l[:120] for l in lines if l.startswith("VIOLATION")], (replay or "")[:200])
    finally:
        for f in (ROOT / "replays").glob("*.json"):
            f.unlink()
    seen = {r["check"] for r in meta["ran"]}
    meta["ran"] += [r for r in prev.get("ran", []) if r["check"] not in seen]
    for k in ("needs_to_manifest", "produced_by"):
        if k in prev:
            meta[k] = prev[k]
    meta["detected_by"] = [r["check"].split()[1] for r in meta["ran"] if r["exit"] == 1]
    (d / "meta.json").write_text(json.dumps(meta, indent=1))
    return 0


if __name__ == "__main__":
    sys.exit(main())
