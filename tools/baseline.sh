#!/bin/sh
# Runs the repository's pinned test-suite (guard off: there are no hooks) and prints the summary.
cd /repo && /venv/bin/python -m pytest -ra -q -p no:cacheprovider --timeout=900 --continue-on-collection-errors "$@"
